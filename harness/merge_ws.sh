#!/bin/bash
# merge_ws.sh <name>: bring a finished work package into /verif and /repo
#  1. cherry-pick the fix: commits of branch ws-<name> of /repo onto /repo's main (stops on conflict)
#  2. merge branch ws-<name> of /verif into main (new files; stops on conflict)
set -e
n="$1"; base="${2:-main}"; git -C /repo rev-parse -q --verify merged-$n >/dev/null && base=merged-$n; [ -n "$n" ] || { echo usage: merge_ws.sh name; exit 2; }
echo "== repo commits on ws-$n:"
git -C /repo log --oneline --reverse --first-parent --no-merges $base..ws-$n
for c in $(git -C /repo log --format=%h --reverse --first-parent --no-merges $base..ws-$n); do
  msg=$(git -C /repo log -1 --format=%s $c)
  case "$msg" in
    fix:*) echo "cherry-pick $c $msg"; git -C /repo cherry-pick $c
           new=$(git -C /repo log -1 --format=%h)
           echo "$c $new" >> /tmp/ws/$n/hashmap ;;
    *) echo "SKIP (not a fix: commit) $c $msg" ;;
  esac
done
git -C /verif checkout -- evidence/ 2>/dev/null || true
git -C /repo tag -f merged-$n ws-$n >/dev/null
echo "== verif merge ws-$n"
if ! git -C /verif merge --no-edit ws-$n; then
  # evidence files of other properties rewritten by the worker: keep ours
  for f in $(git -C /verif diff --name-only --diff-filter=U | grep '^evidence/'); do
    git -C /verif checkout --ours "$f"; git -C /verif add "$f"
  done
  # generated root files: regenerate
  for f in lean/Driver.lean lean/FrappyDrive.lean lean/FrappyModel.lean lean/FrappyProofs.lean; do
    if git -C /verif diff --name-only --diff-filter=U | grep -qx "$f"; then git -C /verif checkout --ours "$f"; fi
  done
  (cd /verif/harness && PYTHONPATH=.:/repo /venv/bin/python translate.py)
  git -C /verif add lean/Driver.lean lean/FrappyDrive.lean lean/FrappyModel.lean lean/FrappyProofs.lean lean/FrappyModel/Generated
  git -C /verif diff --name-only --diff-filter=U | grep -q . && { echo "UNRESOLVED CONFLICTS"; exit 1; }
  git -C /verif commit -q --no-edit
fi
# rewrite the worker's commit hashes in known_findings to the hashes on /repo main
if [ -f /tmp/ws/$n/hashmap ]; then
  while read old new; do
    sed -i "s/\b$old\b/$new/g" /verif/known_findings/*.json /verif/design_notes/*.md 2>/dev/null || true
  done < /tmp/ws/$n/hashmap
fi
