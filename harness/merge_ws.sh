#!/bin/bash
# merge_ws.sh <name>: bring a finished work package into /verif and /repo
#  1. cherry-pick the fix: commits of branch ws-<name> of /repo onto /repo's main (stops on conflict)
#  2. merge branch ws-<name> of /verif into main (new files; stops on conflict)
set -e
n="$1"; [ -n "$n" ] || { echo usage: merge_ws.sh name; exit 2; }
echo "== repo commits on ws-$n:"
git -C /repo log --oneline --reverse main..ws-$n
for c in $(git -C /repo log --format=%h --reverse main..ws-$n); do
  msg=$(git -C /repo log -1 --format=%s $c)
  case "$msg" in
    fix:*) echo "cherry-pick $c $msg"; git -C /repo cherry-pick $c ;;
    *) echo "SKIP (not a fix: commit) $c $msg" ;;
  esac
done
echo "== verif merge ws-$n"
git -C /verif merge --no-edit ws-$n
