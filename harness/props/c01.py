"""C01 — Datatype validation is sound, canonical and total."""
import json
import math
import os

from check import Result
from vlib import dtcodec, gen

META = {
    'level_text': 'Theorems for every lawful float carrier, every well-formed datatype tree of any depth, every JSON value / Python '
                  'value offered and every previous value that is absent or merely has the shape of the type (Shaped: tuples have '
                  'the arity of the type - true of every value of the value set and of everything __call__ returns; the previous value '
                  'need NOT lie inside the limits): accept_sound / validate_sound (an accepted value lies in the declared value set), '
                  'import_denotes + validate_denotes = accept_denotes (the JSON value stands for a Python value v - no string taken as '
                  'a number, no fraction truncated, canonical base64, equal lengths - and the accepted value denotes v: numerically '
                  'equal or clamped from inside the documented tolerance - for a scaled type one scale beyond the GRID VALUES of its limits, '
                  'the interval the datainfo describes (fd5b705) -, element-wise, key-wise, members not offered taken from '
                  'previous and validated), accept_total / validate_total / import_total / call_total (only bad-value errors), '
                  'validate_idem + validate_canon = revalidate_unchanged (hypothesis GridExact), revalidate_unchanged_partial and '
                  'call_idem_of_snapIdem (validating / converting an already validated / converted value returns it unchanged, from the '
                  'single carrier hypothesis SnapIdem - a finite round(x/scale)*scale snaps to itself - proved for Rat), '
                  'string_length_in_chars / string_accepted_iff (string limits count code points, not encoded bytes), change_sound / '
                  'change_total / change_eq_accept / change_ok_partial (what a `change` request stores: import, validate against the '
                  'value held, validate once more in the write wrapper), command_argument_ok (what a `do` request hands to the command '
                  'function), call_ofType_sound + call_denotes = call_ok (the conversion-only path __call__ - driver updates, results '
                  'of commands - returns a value of the type, OfType = the value set with the limits of the numeric leaves left '
                  'out, that denotes the value handed over, ConvDenotes), inSet_ofType, none_of_no_type / command_none_refused / '
                  'command_result_ok / command_result_total / command_do_ok / command_do_total (Command.do for EVERY command '
                  'function: the function is called with the validated argument, its return value is handed back converted to '
                  'the declared result type or refused - None is no result), shortrepr_total / raiseBad_is_bad (the helper that '
                  'builds the text of every bad-value error of the scalar types answers for every candidate, whatever repr does), '
                  'inSetB_sound / inSetB_complete / ofTypeB_sound / judgeChange_sound / judgeResult_sound / judgeConv_sound.  The '
                  'models are tied to frappy/datatypes.py by a correspondence run on the real classes and, for the glue '
                  '(dispatcher._setParameterValue + write wrapper, Command.do incl. its result conversion), by `change` and `do` requests '
                  'to a real SecNode and by calls of Command.do with command functions returning every candidate; shortrepr by a '
                  'text-level correspondence on candidates of every size; the Lean monitors are '
                  '`decide` of the specification Props themselves.',
    'level_note': 'Trusted: Lean kernel + axioms propext/Classical.choice/Quot.sound; the 27 laws of LawfulFloatOps for binary64 (all '
                  'proved for the exact carrier Rat; re-tested on the doubles of every run - a test).  SnapIdem (the one hypothesis '
                  'of revalidate_unchanged_partial, call_idem_of_snapIdem, change_eq_accept) is proved over Rat; for binary64 it is '
                  'neither proved nor among the laws - it is re-tested in every run (pointed at grid indices 2^49..2^200) and by the '
                  'idem clause on every accepted value; GridExact / GridAll are the older per-tree forms.  validate_idem_statement '
                  '(every value of the declared set is a fixed point) is false for binary64 for scaled types whose limit has an '
                  'overflowing grid value (they refuse every value).  lazy_number_validation stays False.  Lone-surrogate strings and '
                  'previous values of a wrong kind are judged for totality only, as are candidates that cannot travel as JSON '
                  'text (ints beyond the str-conversion digit limit, values nested beyond the recursion limit).  Previous values '
                  'are values __call__ accepts (validate-accepted ones and ones pushed outside the limits).  The conversion-only '
                  'path is held to OfType + ConvDenotes + totality + idempotence, NOT to the numeric limits (by design of frappy: '
                  'a value reported by the hardware is converted, not range-checked).  The error path of the model does not '
                  'contain the text construction: conv answers Err.wrongType directly; raiseBad_is_bad is a separate statement '
                  'about the helper, tied to the code by the helper stream and by the size stream on the datatype methods.',
    'trusted': [
        'binary64 satisfies the 27 laws of LawfulFloatOps (FrappyModel/Base/Num.lean): order laws, monotonicity of x/scale, k*scale, '
        'round(), x + 0.0, tolerance band; proved for the Rat carrier, re-tested on the doubles of each run',
        'SnapIdem for binary64 (hypothesis of revalidate_unchanged_partial / call_idem_of_snapIdem / change_eq_accept): '
        'round(y/scale)*scale = y for every finite y = round(x/scale)*scale; proved for Rat, re-tested on every run',
        'GridExact (hypothesis of validate_idem): round((k*scale)/scale) = k and finiteness on the declared grid range',
        'FrappyDrive/FloatInst.lean: Float instance of FloatOps (exact ofInt/round/trunc computed from bit patterns)',
        'Base64.decode? = canonical base64 = what b64decode(validate=True) followed by the re-encoding comparison accepts (compared on every blob case)',
    ],
    'modelled_not_verified': [
        'CPython float arithmetic, round(), int(), json.loads',
        'base64.b64decode',
        'frappy.lib.enum.Enum (dict keyed by names and values; EnumMember.__eq__/__hash__)',
        'frappy.properties.HasProperties.checkProperties (DType.WF is what it enforces)',
        'Parameter / Module construction, Dispatcher.handle_request, announceUpdate, export_value of the reply (the `change` stream '
        'observes the value stored and the error class only; the model changeValue covers import + validate + validate; the '
        'result stream observes the return value of Command.do and the class of the reply to the do request)',
        'repr() of Python values (external call of the model shortrepr: a text or the class of an exception)',
    ],
    'assumptions': ['generalConfig.lazy_number_validation is False (default)',
                    'change requests: a parameter without write_ method, check_ function or limit parameters; do requests: for a struct at the root the member names are Python identifiers (the function is generated with the signature the decorator demands); '
                    'command results: commands without argument or with an IntRange(0, 5) argument, the function returns the candidate and raises nothing',
                    'previous is None or a value __call__ returned (it may lie outside the limits)',
                    'dict keys of offered values are strings (struct member names)'],
}


# ---------------------------------------------------------------------------------------------
# running the real code
# ---------------------------------------------------------------------------------------------
def _outcome(f):
    """('ok', value) | ('bad', None) | ('other', classname)"""
    from frappy.errors import RangeError, WrongTypeError
    try:
        r = f()
    except (RangeError, WrongTypeError):
        return 'bad', None
    except Exception as e:      # anything else is what the property forbids
        return 'other', type(e).__name__
    return 'ok', r


def _enc(out):
    kind, x = out
    if kind == 'ok':
        try:
            return {'ok': dtcodec.py_to_json(x)}
        except TypeError:
            return {'other': 'unencodable:' + type(x).__name__}
    if kind == 'bad':
        return 'bad'
    return {'other': x}


def run_impl(dt, mode, cand, prev):
    """all calls of one case on the real datatype object; returns the outcome dict (protocol JSON)"""
    res = {'imp': None, 'val': None, 're1': None, 're2': None, 'call': None, 'recall': None}
    if mode == 'wire':
        imp = _outcome(lambda: dt.import_value(cand))
        res['imp'] = _enc(imp)
        val = _outcome(lambda: dt.validate(imp[1], prev)) if imp[0] == 'ok' else None
    else:
        val = _outcome(lambda: dt.validate(cand, prev))
    if val is not None:
        res['val'] = _enc(val)
        if val[0] == 'ok':
            r = val[1]
            res['re1'] = _enc(_outcome(lambda: dt.validate(r)))
            res['re2'] = _enc(_outcome(lambda: dt.validate(r, r)))
    call = _outcome(lambda: dt(cand))
    res['call'] = _enc(call)
    if call[0] == 'ok':
        c = call[1]
        res['recall'] = _enc(_outcome(lambda: dt(c)))
    return res


def canon_out(o):
    if isinstance(o, dict) and 'ok' in o:
        return {'ok': dtcodec.canon(o['ok'])}
    return o


def canon_outs(d):
    return {k: canon_out(v) for k, v in d.items()}


def out_class(o):
    if o is None:
        return 'none'
    if o == 'bad':
        return 'bad'
    return 'ok' if 'ok' in o else 'other'


# ---------------------------------------------------------------------------------------------
# cases
# ---------------------------------------------------------------------------------------------
def build_dt(tree):
    """real object from the tree and the tree read back from the object (what is sent to the model)"""
    dt = dtcodec.tree_to_dt(tree)
    return dt, dtcodec.dt_to_tree(dt)


def via_get_datatype(dt):
    """the client-side copy: get_datatype(export_datatype()) after a JSON round trip"""
    from frappy.datatypes import get_datatype
    return get_datatype(json.loads(json.dumps(dt.export_datatype())))


def make_cases(rng, tree, per_tree, big, unmodelled=None):
    """[(mode, stream, cand, prev)] for one tree (Python values); cases whose candidate cannot travel as JSON text are
    appended to `unmodelled` as recipes (judged for totality only)"""
    cases = []
    nvalid = max(3, per_tree * 4 // 10)
    nsubst = max(4, per_tree * 45 // 100)
    nbound = max(2, per_tree * 15 // 100)
    valids = []
    for _ in range(nvalid):
        v = gen.gen_valid(rng, tree)
        if v is None:
            continue
        prev = gen.gen_previous(rng, tree)
        if rng.random() < 0.5:
            w = gen.to_wire(rng, tree, v)
            cases.append(('wire', 'valid', w, prev))
            valids.append(('wire', w))
        else:
            d = gen.to_driver(rng, tree, v)
            cases.append(('py', 'valid', d, prev))
            valids.append(('py', d))
    if not valids:
        valids = [('wire', None), ('py', None)]
    # every kind at every position of valid offered values
    per = max(2, nsubst // max(1, min(len(valids), 3)))
    for mode, base in rng.sample(valids, min(len(valids), 3)):
        for c in gen.subst_candidates(rng, base, mode == 'wire', per):
            cases.append((mode, 'subst', c, gen.gen_previous(rng, tree)))
    # boundary numbers at numeric leaves
    nb = 0
    for mode, base in valids:
        if base is None or nb >= nbound:
            continue
        leaves = list(gen.numeric_leaf_paths(tree, base))
        rng.shuffle(leaves)
        for path, lt in leaves[:2]:
            nums = gen.boundary_numbers(rng, lt)
            if mode == 'wire' and lt['t'] == 'scaled':
                nums = gen.boundary_wire_ints(lt) + nums[:6]
            for x in rng.sample(nums, min(len(nums), max(2, nbound // 2))):
                cases.append((mode, 'boundary', gen.subst(base, path, x), gen.gen_previous(rng, tree)))
                nb += 1
    # strings / blobs of length exactly at and next to the limits, single special characters
    nl = 0
    for mode, base in valids:
        if base is None or nl >= max(16, 2 * nbound):
            continue
        leaves = list(gen.leaf_paths(tree, base, ('string', 'blob')))
        rng.shuffle(leaves)
        for path, lt in leaves[:2]:
            # drawn from every group: ASCII lengths at the limits, the same numbers of code points in characters whose
            # length differs in other units (bytes, UTF-16 units, normalised), single special characters
            for vs in gen.length_variants(rng, lt, mode == 'wire', grouped=True):
                for x in rng.sample(vs, min(len(vs), max(3, nbound // 2, len(vs) // 5))):
                    cases.append((mode, 'length', gen.subst(base, path, x), gen.gen_previous(rng, tree)))
                    nl += 1
    # shapes
    ns = 0
    for mode, base in valids[:2]:
        if base is None:
            continue
        vs = gen.shape_variants(rng, tree, base)
        for c in rng.sample(vs, min(len(vs), max(2, per_tree // 10))):
            cases.append((mode, 'shape', c, gen.gen_previous(rng, tree)))
            ns += 1
    # candidates of unusual size (many members / elements / characters / digits, deep nesting) at every kind of position:
    # the refusal path (error texts, re-raising wrappers) sees every candidate
    for mode, base in (valids[:2] if len(valids) > 1 else valids):
        for path, recipe in gen.size_candidates(rng, base, mode == 'wire', 4, big):
            if gen.recipe_travels(recipe):
                cases.append((mode, 'size', gen.subst(base, path, gen.build_big(recipe)), gen.gen_previous(rng, tree)))
            elif unmodelled is not None and dtcodec.encodable(base):
                unmodelled.append({'tree': tree, 'mode': 'size', 'base': dtcodec.py_to_json(base), 'path': list(path),
                                   'recipe': recipe, 'prev': None})
    return cases


def surrogate_cases(rng, tree, n):
    """totality-only stream: lone surrogates inside strings / keys"""
    out = []
    for _ in range(n):
        v = gen.gen_valid(rng, tree)
        if v is None:
            continue
        w = gen.to_wire(rng, tree, v)
        pos = list(gen.positions(w))
        p = rng.choice(pos)
        out.append(gen.subst(w, p, rng.choice(['\ud800', 'a\udfffb', '\udc00\ud800'])))
    return out


def shortened(v, n=300):
    """repr for reports, cut in the middle; a value whose repr fails is named by its type"""
    try:
        r = repr(v)
    except Exception as e:
        return f'<{type(v).__name__}: repr raises {type(e).__name__}>'
    return r if len(r) <= n else f'{r[:n // 2]} ...({len(r)} chars)... {r[-n // 4:]}'


def show_dt(tree):
    """repr of the real datatype (ScaledInteger.__repr__ fails for limits whose grid index overflows: the tree then)"""
    try:
        return repr(dtcodec.tree_to_dt(tree))
    except Exception:
        return json.dumps(tree)


def eval_size_case(sc):
    """a candidate given by a recipe (too big to travel as text): outcome classes of import_value (+ validate), validate
    and __call__ on the real datatype object"""
    dt = dtcodec.tree_to_dt(sc['tree'])
    base = dtcodec.json_to_py(sc['base'])
    cand = gen.subst(base, tuple(sc['path']), gen.build_big(sc['recipe']))
    outs = []
    imp = _outcome(lambda: dt.import_value(cand))
    outs.append(imp)
    if imp[0] == 'ok':
        outs.append(_outcome(lambda: dt.validate(imp[1])))
    outs.append(_outcome(lambda: dt.validate(cand)))
    outs.append(_outcome(lambda: dt(cand)))
    return ['bad' if k == 'bad' else {'other': x} if k == 'other' else {'ok': None} for k, x in outs]


def collect_numbers(j, fl, it):
    """bit patterns of all floats and all integers inside a protocol value / tree"""
    if isinstance(j, dict):
        if set(j) == {'f'}:
            fl.add(j['f'])
            return
        for v in j.values():
            collect_numbers(v, fl, it)
    elif isinstance(j, list):
        for v in j:
            collect_numbers(v, fl, it)
    elif isinstance(j, int) and not isinstance(j, bool):
        it.add(j)


def law_test(ctx, res, cases):
    """evaluates every law of LawfulFloatOps with the Float instance on tuples of the doubles / integers of this run"""
    fl, it = set(), set()
    for c, _ in cases:
        collect_numbers(c['tree'], fl, it)
        collect_numbers(c['cand'], fl, it)
        collect_numbers(c['prev'], fl, it)
    for x in gen.FLOAT_CAT + gen.SCALES + [gen.NAN, gen.INF, -gen.INF, -0.0, 5e-324, -5e-324, 2.2250738585072014e-308]:
        fl.add(dtcodec.f2bits(x))
    it.update(gen.INT_CAT + [2 ** 70, -2 ** 70, 10 ** 400, 2 ** 53 + 1, 2 ** 1024 - 2 ** 970, 2 ** 1024 - 2 ** 970 - 1])
    fl, it = sorted(fl), sorted(it)
    n = ctx.budget(3000, 40000)
    rng = ctx.rng
    tuples = []
    for _ in range(n):
        x, y = rng.choice(fl), rng.choice(fl)
        r = rng.random()
        z = rng.choice(fl) if r < 0.5 else dtcodec.f2bits(rng.choice(gen.SCALES + [1e-5, 5e-324, 1e300]))
        if rng.random() < 0.3:
            y = x if rng.random() < 0.3 else dtcodec.f2bits(__import__('math').nextafter(dtcodec.bits2f(x), rng.choice([-gen.INF, gen.INF])))
        if rng.random() < 0.2:
            # pointed at the hypothesis SnapIdem: x about k * scale with k around and beyond 2^53 (where the grid is finer than
            # the float spacing), on and just off the grid
            sc = rng.choice(gen.SCALES + [1e-5, 1e-7, 0.3, 1 / 3, 3.0, 123.456]) if rng.random() < 0.6 else \
                math.ldexp(rng.random() + 0.5, rng.randint(-40, 40))
            k = rng.randrange(2 ** 49, 2 ** rng.choice([52, 53, 54, 55, 60, 70, 200])) * rng.choice([1, -1])
            try:
                xv = float(k * sc) * (1 + rng.choice([0, 0, 1, -1, 3]) * 2.0 ** -52)
            except OverflowError:
                xv = 1.0
            x, z = dtcodec.f2bits(xv), dtcodec.f2bits(sc)
        tuples.append([x, y, z, rng.choice(it), rng.choice(it)])
    ans = ctx.driver.batch([{'p': 'C01', 'k': 'laws', 'tuples': tuples[i:i + 2000]} for i in range(0, len(tuples), 2000)])
    fails = {}
    k = 0
    for a in ans:
        if 'driver_error' in a:
            raise RuntimeError(f'driver error {a}')
        for names in a['fail']:
            for name in names:
                fails.setdefault(name, tuples[k])
            k += 1
    res.count('float-law re-test (a test): tuples', len(tuples))
    res.count('float-law re-test (a test): distinct doubles', len(fl))
    res.count('float-law re-test (a test): laws violated', len(fails))
    res.notes.append(f'float-law re-test (a test, not a proof): the laws of LawfulFloatOps and the hypothesis SnapIdem (snapping a '
                     f'snapped value to the grid returns it; x any double of the run, scale z) evaluated with the Float instance on '
                     f'{len(tuples)} tuples over the {len(fl)} distinct doubles and {len(it)} integers of this run: '
                     f'{len(fails)} laws violated')
    for name, t in fails.items():
        res.disagreements.append({'case': {'law': name, 'tuple': t}, 'model': 'law / hypothesis assumed for binary64',
                                  'impl': 'fails on this tuple (bit patterns x, y, z; integers i, j)'})


def load_corpus(ctx):
    cases = []
    cdir = os.path.join(ctx.verif, 'corpus', 'C01')
    if os.path.isdir(cdir):
        for fn in sorted(os.listdir(cdir)):
            if fn.endswith('.json'):
                c = json.load(open(os.path.join(cdir, fn)))
                cases.append(c['case'])
    return cases


# ---------------------------------------------------------------------------------------------
# `change` requests through a real SecNode + Dispatcher (the glue around import_value / validate)
# ---------------------------------------------------------------------------------------------
class ChangeNode:
    """a real node with one module whose only own parameter `p` has the datatype under test"""

    def __init__(self, dt):
        from frappy.modules import Module
        from frappy.params import Command, Parameter
        from vlib.node import Node

        from frappy.datatypes import StructOf

        class M0(Module):
            p = Parameter('parameter under test', datatype=dt, readonly=False)
            got = None
        from frappy.datatypes import IntRange

        class M1(M0):
            answer = None       # what the 'hardware' answers: the return value of the command functions below
            called = 0

            @Command(result=dt.copy())
            def r(self):
                """command with a declared result type: the return value is a value from a driver"""
                self.called += 1
                return self.answer

            @Command(IntRange(0, 5), result=dt.copy())
            def q(self, arg):
                """the same with an argument"""
                self.called += 1
                return self.answer

            @Command()
            def n(self):
                """no result type declared: the return value is ignored"""
                self.called += 1
                return self.answer
        if isinstance(dt, StructOf):
            # a struct argument is bound to the signature of the function: the parameter names must be the member names and
            # `optional` is REWRITTEN to the parameters with a default.  The function is built with exactly that signature
            # (keyword-only parameters, a default for the optional members), so the argument type stays the tree's.
            names = list(dt.members)
            if all(k.isidentifier() and k not in ('self', '_NO') for k in names):
                params = ', '.join(f'{k}=_NO' if k in dt.optional else k for k in names)
                ns = {'_NO': object()}
                exec(f'def c(self, *, {params}):\n'
                     f'    """command under test: records what it is called with"""\n'
                     f'    self.got = ((), {{k: v for k, v in locals().items() if k != "self" and v is not _NO}})\n', ns)
                M = type('M', (M1,), {'c': Command(argument=dt.copy())(ns['c'])})
            else:
                M = M1
        else:
            class M(M1):
                @Command(argument=dt.copy())
                def c(self, *args, **kwds):
                    """command under test: records what it is called with"""
                    self.got = (args, kwds)
        self.node = Node({'m': {'cls': M, 'description': 'C01'}})
        self.module = self.node.modules['m']
        self.conn = self.node.connect()
        # the datatype the parameter really has: Parameter copies it (a scaled copy has its limits rounded to the grid)
        self.dt = self.module.parameters['p'].datatype
        self.tree = dtcodec.dt_to_tree(self.dt)
        self.argtype = self.module.commands['c'].argument if 'c' in self.module.commands else None
        self.argtree = dtcodec.dt_to_tree(self.argtype) if self.argtype is not None else None
        self.restype = self.module.commands['r'].result
        self.restree = dtcodec.dt_to_tree(self.restype)

    def update(self, value):
        """a driver update `announceUpdate('p', value)`: ('ok', value held) | ('bad', None) | ('other', class) - the error is
        not raised but stored as readerror (the old value is kept)"""
        from frappy.errors import RangeError, WrongTypeError
        pobj = self.module.parameters['p']
        pobj.readerror = None
        try:
            self.module.announceUpdate('p', value)
        except Exception as e:      # announceUpdate itself must not raise for any value (the poller would die)
            del self.conn.msgs[:]
            return ('other', type(e).__name__), None
        del self.conn.msgs[:]
        err = pobj.readerror
        if err is None:
            out = ('ok', pobj.value)
        elif isinstance(err, (RangeError, WrongTypeError)):
            out = ('bad', None)
        else:
            out = ('other', type(err).__name__)
        again = _outcome(lambda: self.dt(out[1])) if out[0] == 'ok' else None
        return out, again

    def result(self, cname, data, answer):
        """one call of `Command.do` for the command `cname` whose function returns `answer`, directly and as a `do` request:
        (outcome of Command.do, outcome of converting its value again, class of the reply to the request)"""
        cobj = self.module.commands[cname]
        self.module.answer = answer
        out = _outcome(lambda: cobj.do(self.module, data))
        again = _outcome(lambda: cobj.result(out[1])) if out[0] == 'ok' and cobj.result else None
        reply = self.node.request(self.conn, 'do', 'm:_' + cname, data)
        del self.conn.msgs[:]
        if reply[0] == 'done':
            rep = {'ok': None}
        elif reply[2][0] in ('RangeError', 'WrongType'):
            rep = 'bad'
        else:
            rep = {'other': reply[2][1]}
        return out, again, rep

    def hold(self, value):
        """a driver update: the parameter now holds dt(value) (or keeps its value when __call__ refuses)"""
        self.module.announceUpdate('p', value)

    @property
    def held(self):
        return self.module.parameters['p'].value

    def change(self, cand):
        """('ok', stored value) | ('bad', None) | ('other', python class) for one `change m:_p <cand>`"""
        reply = self.node.request(self.conn, 'change', 'm:_p', cand)
        del self.conn.msgs[:]
        if reply[0] == 'changed':
            return 'ok', self.held
        if reply[2][0] in ('RangeError', 'WrongType'):
            return 'bad', None
        return 'other', reply[2][1]


    def do(self, cand):
        """('ok', the argument the command function received) | ('bad', None) | ('other', python class) for `do m:_c <cand>`"""
        from frappy.datatypes import StructOf, TupleOf
        self.module.got = None
        reply = self.node.request(self.conn, 'do', 'm:_c', cand)
        del self.conn.msgs[:]
        if reply[0] == 'done':
            if self.module.got is None:
                return 'other', 'function-not-called'
            args, kwds = self.module.got
            if isinstance(self.argtype, TupleOf):       # called with the elements as positional arguments
                return 'ok', tuple(args)
            if isinstance(self.argtype, StructOf):      # called with the members as keyword arguments
                return 'ok', dict(kwds)
            return ('ok', args[0]) if len(args) == 1 and not kwds else ('other', 'wrong-call-shape')
        if reply[2][0] in ('RangeError', 'WrongType'):
            return 'bad', None
        return 'other', reply[2][1]


def eval_do(case, cn=None):
    """one `do` request for a protocol case with mode 'do' (the candidate as the argument of a command)"""
    if cn is None:
        cn = ChangeNode(dtcodec.tree_to_dt(case['tree']))
    cand = json.loads(json.dumps(dtcodec.json_to_py(case['cand'])))
    hint = _outcome(lambda: cn.argtype.import_value(cand))
    out = _enc(cn.do(cand))
    req = {'p': 'C01', 'k': 'change', 'dt': cn.argtree, 'cand': case['cand'], 'held': None,
           'hint': dtcodec.py_to_json(hint[1]) if hint[0] == 'ok' and dtcodec.encodable(hint[1]) else None, 'out': out}
    return req, out


RESULT_COMMANDS = {'r': (False, True), 'q': (True, True), 'n': (False, False)}     # name: (has argument, has result type)


def eval_result(case, cn=None):
    """the candidate of a protocol case with mode 'result' as the return value of a command function (`cmd`: r = no
    argument, q = argument IntRange(0, 5) given as `data`, n = no result type); returns (request, outcome, reply class)"""
    if cn is None:
        cn = ChangeNode(dtcodec.tree_to_dt(case['tree']))
    cname = case.get('cmd', 'r')
    hasarg, hasres = RESULT_COMMANDS[cname]
    out, again, rep = cn.result(cname, case.get('data'), dtcodec.json_to_py(case['cand']))
    req = {'p': 'C01', 'k': 'result', 'dt': cn.restree if hasres else None,
           'argdt': {'t': 'int', 'min': 0, 'max': 5} if hasarg else None, 'ret': case['cand'],
           'out': _enc(out), 'again': _enc(again) if again is not None else None}
    if case.get('data') is not None:
        req['data'] = case['data']
    return req, _enc(out), rep


def eval_update(case, cn=None):
    """the candidate of a protocol case with mode 'update' handed to announceUpdate (a value from a driver): the value the
    parameter holds afterwards / the class of the read error, against `call` and the monitor of the conversion path"""
    if cn is None:
        cn = ChangeNode(dtcodec.tree_to_dt(case['tree']))
    out, again = cn.update(dtcodec.json_to_py(case['cand']))
    req = {'p': 'C01', 'k': 'result', 'dt': cn.tree, 'argdt': None, 'ret': case['cand'],
           'out': _enc(out), 'again': _enc(again) if again is not None else None}
    return req, _enc(out)


def eval_change(case, cn=None):
    """one `change` request for a protocol case with mode 'node' (prev = the value held); returns (request, outcome)"""
    dt = dtcodec.tree_to_dt(case['tree'])
    if cn is None:
        cn = ChangeNode(dt)
    if case['prev'] is not None:
        cn.hold(dtcodec.json_to_py(case['prev']))
    held = cn.held
    cand = json.loads(json.dumps(dtcodec.json_to_py(case['cand'])))
    hint = _outcome(lambda: cn.dt.import_value(cand))
    out = _enc(cn.change(cand))
    if not dtcodec.encodable(held):
        return None, out
    req = {'p': 'C01', 'k': 'change', 'dt': cn.tree, 'cand': case['cand'], 'held': dtcodec.py_to_json(held),
           'hint': dtcodec.py_to_json(hint[1]) if hint[0] == 'ok' and dtcodec.encodable(hint[1]) else None, 'out': out}
    return req, out


def node_stream(ctx, res, cases, ntrees):
    """the wire cases of `ntrees` trees sent to a real node as `change` requests (the value stored / the error class
    against the model `changeValue`) and as `do` requests (the argument the command function received against
    `acceptWire dt j none`), both judged by the Lean monitor `judgeChange`"""
    by_tree, results_by_tree = {}, {}
    for c, stream in cases:
        if c.get('via_get_datatype'):
            continue
        key = json.dumps(c['tree'], sort_keys=True)
        if c['mode'] == 'wire':
            by_tree.setdefault(key, []).append(c)
        # a value from a driver at the result position of a command: every candidate of the tree, Python-side and JSON-like
        results_by_tree.setdefault(key, []).append(c)
    keys = sorted(by_tree)
    ctx.rng.shuffle(keys)
    reqs, meta, histories, replies = [], [], [], []
    for key in keys[:ntrees]:
        group = by_tree[key]
        try:
            cn = ChangeNode(dtcodec.tree_to_dt(group[0]['tree']))
        except Exception as e:      # a datatype no parameter can be built with is not a case
            res.count('node.refused:' + type(e).__name__)
            continue
        res.count('node.tree.root=' + group[0]['tree']['t'])
        held0, events = cn.held, []
        for c in group:
            req, out = eval_change(c, cn)
            if c['prev'] is not None:
                events.append({'u': c['prev']})
            events.append({'c': c['cand']})
            if req is None:
                continue
            nc = {'tree': c['tree'], 'mode': 'node', 'cand': c['cand'], 'prev': req['held']}
            reqs.append(req)
            meta.append((nc, out))
            if c['cand'] is not None and cn.argtype is not None:    # `do` without data is "no argument", not a null argument
                req, out = eval_do(c, cn)
                reqs.append(req)
                meta.append(({'tree': c['tree'], 'mode': 'do', 'cand': c['cand'], 'prev': None}, out))
        # the candidates as return values of command functions (`Command.do`: result conversion)
        answers = list(results_by_tree.get(key, []))
        answers += [{'cand': dtcodec.py_to_json(x)} for x in gen.NO_ANSWER] + \
            [{'cand': dtcodec.py_to_json(gen.build_big(rec))} for rec in gen.big_recipes(ctx.rng, False)[:6] if gen.recipe_travels(rec)]
        for i, c in enumerate(answers):
            cmd = 'r' if i % 4 < 2 else 'q' if i % 4 == 2 else 'n'
            data = None if cmd != 'q' else 7 if i % 24 == 2 else i % 6
            rc = {'tree': cn.restree, 'mode': 'result', 'cand': c['cand'], 'prev': None, 'cmd': cmd, 'data': data}
            req, out, rep = eval_result(rc, cn)
            reqs.append(req)
            meta.append((rc, out))
            replies.append((rc, rep))
        # ... and as driver updates of the parameter (announceUpdate converts with __call__; refused: the old value is kept)
        for c in answers:
            uc = {'tree': cn.tree, 'mode': 'update', 'cand': c['cand'], 'prev': None}
            req, out = eval_update(uc, cn)
            events.append({'u': c['cand']})
            reqs.append(req)
            meta.append((uc, out))
        # the whole history of this parameter (driver updates and change requests, accepted or refused) against `holdRun`
        if dtcodec.encodable(held0) and dtcodec.encodable(cn.held):
            histories.append(({'tree': cn.tree, 'held0': dtcodec.py_to_json(held0), 'events': events},
                              dtcodec.py_to_json(cn.held)))
    hreqs = [{'p': 'C01', 'k': 'history', 'dt': h['tree'], 'held0': h['held0'], 'events': h['events']} for h, _ in histories]
    for (h, final), ans in zip(histories, ctx.driver.batch(hreqs)):
        if 'driver_error' in ans:
            raise RuntimeError(f'driver error {ans} on a history of {len(h["events"])} events')
        res.evaluations += 1
        res.count('stream=node(history of one parameter)')
        res.count('node.history.events', len(h['events']))
        if ans['wf'] and ctx.model_ok and dtcodec.canon(ans['held']) != dtcodec.canon(final):
            res.disagreements.append({'case': dict(h, mode='history'), 'model': {'held': ans['held']}, 'impl': {'held': final}})
    for (nc, out), ans in zip(meta, ctx.driver.batch(reqs)):
        if 'driver_error' in ans:
            raise RuntimeError(f'driver error {ans} on {json.dumps(nc)[:400]}')
        res.evaluations += 1
        res.traces += 1
        res.count({'node': 'stream=node(change request)', 'do': 'stream=node(do request)',
                   'result': 'stream=node(command result)', 'update': 'stream=node(driver update)'}[nc['mode']])
        res.count({'node': 'node.change=', 'do': 'node.do=', 'result': 'node.result=' + nc.get('cmd', '') + ':',
                   'update': 'node.update='}[nc['mode']] + out_class(out))
        if nc['mode'] == 'update':      # same model and monitor as a command result (`call`): named for what it is
            ans = dict(ans, judge=[cl.replace(':result', ':update') for cl in ans['judge']])
        if out_class(out) == 'ok':
            res.nontriv(nc)
        if not ans['wf']:
            continue
        if ctx.model_ok and canon_out(ans['model']) != canon_out(out):
            res.disagreements.append({'case': nc, 'model': ans['model'], 'impl': out})
        for clause in ans['judge']:
            res.violations.append({'sig': 'C01:' + clause + ':' + nc['tree']['t'] +
                                          (':' + out['other'] if clause.startswith('total') else ''),
                                   'what': f'{clause}: ' + (f'change request on a parameter of type {show_dt(nc["tree"])} holding '
                                                            f'{shortened(dtcodec.json_to_py(nc["prev"]))}' if nc['mode'] == 'node' else
                                                            f'driver update announceUpdate of a parameter of type {show_dt(nc["tree"])} with'
                                                            if nc['mode'] == 'update' else
                                                            f'Command.do of a command ' +
                                                            (f'with result type {show_dt(nc["tree"])}' if RESULT_COMMANDS[nc['cmd']][1]
                                                             else 'without result type') +
                                                            (f' (argument {nc["data"]!r})' if nc.get('data') is not None else '') +
                                                            ' whose function returns' if nc['mode'] == 'result' else
                                                            f'do request on a command with argument type {show_dt(nc["tree"])}') +
                                           (', data ' if nc['mode'] not in ('result', 'update') else ' ') + f'{shortened(dtcodec.json_to_py(nc["cand"]))}: '
                                           f'{json.dumps(out) if not (isinstance(out, dict) and "ok" in out) else repr(dtcodec.json_to_py(out["ok"]))}',
                                   'case': nc, 'detail': {'clause': clause}})


    # the replies to the `do` requests of the result stream (after export_value): outcome classes only
    rreqs = [{'p': 'C01', 'k': 'total', 'outs': [rep]} for _, rep in replies]
    for (rc, rep), ans in zip(replies, ctx.driver.batch(rreqs)):
        res.evaluations += 1
        res.count('node.result.reply=' + out_class(rep))
        if ans.get('judge'):
            res.violations.append({'sig': 'C01:total:do-reply:' + rc['tree']['t'] + ':' + rep['other'],
                                   'what': f'total:do-reply: do request on a command with result type {show_dt(rc["tree"])} whose '
                                           f'function returns {shortened(dtcodec.json_to_py(rc["cand"]))}: the request fails with {rep["other"]}',
                                   'case': rc, 'detail': {'clause': 'total:do-reply'}})


# ---------------------------------------------------------------------------------------------
# the error-text helper of the refusal path
# ---------------------------------------------------------------------------------------------
def _text_outcome(f):
    try:
        return {'ok': f()}
    except Exception as e:
        return {'other': type(e).__name__}


def helper_candidate(case):
    if 'recipe' in case:
        return gen.subst(dtcodec.json_to_py(case['base']), tuple(case['path']), gen.build_big(case['recipe']))
    return dtcodec.json_to_py(case['cand'])


def eval_helper(case):
    """`shortrepr` (the helper that builds the value part of every bad-value message of the scalar types) on the candidate
    of a case; `repr(candidate)` is the external call of the model"""
    from frappy.datatypes import shortrepr
    cand = helper_candidate(case)
    rp = _text_outcome(lambda: repr(cand))
    out = _text_outcome(lambda: shortrepr(cand))
    for o in (rp, out):
        if 'ok' in o and not (isinstance(o['ok'], str) and not dtcodec.has_surrogate(o['ok'])):
            o['ok'], o['unencodable'] = '', True
    return {'p': 'C01', 'k': 'helper', 'repr': rp, 'tname': type(cand).__name__, 'out': out}, out


def helper_stream(ctx, res, cases, sizecases, nsample):
    """the helper on every candidate of unusual size and on a sample of the others: model `shortrepr` against the real
    function (texts compared), monitor `judgeHelper` (a text for every candidate)"""
    try:
        from frappy.datatypes import shortrepr  # noqa: F401
    except ImportError:
        res.notes.append('frappy.datatypes.shortrepr does not exist: helper stream skipped')
        return
    pool = [dict(c, mode='helper') for c, stream in cases if stream == 'size']
    if len(pool) > 4 * nsample:
        pool = ctx.rng.sample(pool, 4 * nsample)
    others = [dict(c, mode='helper') for c, stream in cases if stream not in ('size', 'corpus')]
    pool += ctx.rng.sample(others, min(len(others), nsample))
    pool += [dict(sc, mode='helper') for sc in sizecases]
    reqs, meta = [], []
    for hc in pool:
        req, out = eval_helper(hc)
        reqs.append(req)
        meta.append((hc, req, out))
    for (hc, req, out), ans in zip(meta, ctx.driver.batch(reqs)):
        if 'driver_error' in ans:
            raise RuntimeError(f'driver error {ans} on the helper case {json.dumps(hc)[:400]}')
        res.evaluations += 1
        res.traces += 1
        res.count('stream=helper(error text)')
        res.count('helper.repr=' + ('ok' if 'ok' in req['repr'] else req['repr']['other']))
        small = {k: v for k, v in hc.items() if k in ('tree', 'mode', 'cand', 'prev', 'base', 'path', 'recipe')}
        if ctx.model_ok and not req['repr'].get('unencodable') and not out.get('unencodable') and ans['model'] != out:
            res.disagreements.append({'case': small, 'model': ans['model'], 'impl': out})
        for clause in ans['judge']:
            res.violations.append({'sig': 'C01:' + clause + ':' + req['tname'] + ':' + out.get('other', ''),
                                   'what': f'{clause}: shortrepr({shortened(helper_candidate(hc), 120)}) raised {out.get("other")} '
                                           f'(a {req["tname"]}; repr: {"ok" if "ok" in req["repr"] else req["repr"]["other"]})',
                                   'case': small, 'detail': {'clause': clause}})


# ---------------------------------------------------------------------------------------------
# one protocol case
# ---------------------------------------------------------------------------------------------
def proto_case(tree, mode, cand_j, prev_j):
    return {'tree': tree, 'mode': mode, 'cand': cand_j, 'prev': prev_j}


def eval_case(case):
    """run the implementation on a protocol case; returns (request, impl outcomes)"""
    dt = dtcodec.tree_to_dt(case['tree'])
    if case.get('via_get_datatype'):
        dt = via_get_datatype(dt)
    cand = dtcodec.json_to_py(case['cand'])
    prev = dtcodec.json_to_py(case['prev']) if case['prev'] is not None else None
    if case['mode'] == 'wire':
        cand = json.loads(json.dumps(cand))         # what really arrives: the output of json.loads
    impl = run_impl(dt, case['mode'], cand, prev)
    req = {'p': 'C01', 'k': 'case', 'dt': case['tree'], 'mode': case['mode'], 'cand': case['cand'], 'prev': case['prev'],
           'impl': impl}
    return req, impl


def sub_cases(case):
    """structurally smaller cases (an element of the container with its part of the candidate)"""
    tree, cand, prev = case['tree'], case['cand'], case['prev']
    t = tree['t']

    def items(j):
        if isinstance(j, list):
            return j
        if isinstance(j, dict) and 't' in j:
            return j['t']
        return None

    def fields(j):
        if isinstance(j, dict) and 'd' in j:
            return j['d']
        return None
    out = []
    if t == 'array':
        ci, pi = items(cand), items(prev) if prev is not None else None
        for i, c in enumerate(ci or []):
            p = pi[i] if pi and i < len(pi) else None
            out.append(dict(case, tree=tree['elem'], cand=c, prev=p))
    elif t == 'tuple':
        ci, pi = items(cand), items(prev) if prev is not None else None
        for i, c in enumerate(ci or []):
            if i < len(tree['elems']):
                p = pi[i] if pi and i < len(pi) else None
                out.append(dict(case, tree=tree['elems'][i], cand=c, prev=p))
    elif t == 'struct':
        md = dict((k, m) for k, m in tree['members'])
        for k, c in fields(cand) or []:
            if k in md and c is not None:
                out.append(dict(case, tree=md[k], cand=c, prev=None))
    return out


def shrink(ctx, case, clause):
    """descend into the tree while a smaller case fails the same clause"""
    for _ in range(8):
        smaller = None
        for sc in sub_cases(case):
            try:
                req, _ = eval_case(sc)
                ans = ctx.driver.batch([req])[0]
            except Exception:
                continue
            if clause in ans.get('judge', []):
                smaller = sc
                break
        if smaller is None:
            return case
        case = smaller
    return case


def signature(clause, case, impl):
    """short stable name of what fails: clause, root kind of the (shrunk) tree, leaked exception class"""
    sig = 'C01:' + clause + ':' + case['tree']['t']
    if clause.startswith('total'):
        classes = sorted({o['other'] for o in impl.values() if isinstance(o, dict) and 'other' in o})
        sig += ':' + '+'.join(classes)
    return sig


def describe(case, impl):
    dt = show_dt(case['tree'])
    cand = dtcodec.json_to_py(case['cand'])
    prev = dtcodec.json_to_py(case['prev']) if case['prev'] is not None else None

    def show(o):
        if isinstance(o, dict) and 'ok' in o:
            return repr(dtcodec.json_to_py(o['ok']))
        return json.dumps(o)
    what = ', '.join(f'{k}={show(v)}' for k, v in impl.items() if v is not None)
    return f'{dt} {case["mode"]} candidate={shortened(cand)} previous={shortened(prev)}: {what}'


# ---------------------------------------------------------------------------------------------
def run(ctx):
    # a run keeps all its cases (millions of small lists and dicts in the thorough tier) until the end: the cyclic
    # garbage collector would traverse them again and again for nothing (no cycles are created here)
    import gc
    gc.disable()
    try:
        return _run(ctx)
    finally:
        gc.enable()


def _run(ctx):
    res = Result()
    res.rule = ('(tree, candidate, previous) triples on the real datatype classes (built by the constructors; a share rebuilt by '
                'get_datatype): import_value + validate(previous) for JSON candidates, validate(previous) for Python candidates, '
                '__call__ for both, re-validation of every accepted value.  Streams: valid (from the value set), subst (every kind at '
                'every position), boundary (limits, tolerance band, NaN/inf, huge ints), shape (lengths, arity, members, None). '
                'length (code-point counts at the limits in ASCII and in characters whose length differs in bytes / UTF-16 units / '
                'after normalisation), relative (built from the value held), node (the wire cases of a share of the trees as '
                '`change` requests to a real SecNode), size (objects / arrays / strings / bytes / ints of many members / elements / '
                'characters / digits and deep nesting at every position; recipes judged for totality only where the value cannot '
                'travel as text), command result (every candidate of a tree + a no-answer catalogue as the return value of command '
                'functions: Command.do and the do request), helper (shortrepr on the candidates, texts compared with the model).  '
                'Non-trivial = accepted by validate, or a container candidate of the right container kind that is rejected (the '
                'rejection comes from a length or from below the root); for a change request: accepted')
    rng = ctx.rng
    big = ctx.tier == 'thorough' or ctx.escalated
    maxdepth = 5 if big else 3
    total = ctx.budget(6000, 150000)
    per_tree = 40 if not big else 60
    ntrees = max(20, total // per_tree)

    cases = []
    surrogates = []
    oddprev = []
    sizecases = []      # candidates that cannot travel as JSON text (recipes)
    for c in load_corpus(ctx):
        if c.get('mode') == 'size':
            sizecases.append(c)
        else:
            cases.append((c, 'corpus'))
    trees = gen.all_kind_trees(rng, maxdepth) + gen.length_limited_trees(rng, max(16, ntrees // 12)) + \
        gen.extreme_scaled_trees(rng, max(6, ntrees // 30))
    while len(trees) < ntrees:
        d = rng.choice([1, 2, 2, 3, 3, 3] + ([4, 5] if big else []))
        trees.append(gen.gen_tree(rng, min(d, maxdepth)))
    for tree0 in trees:
        try:
            dt, tree = build_dt(tree0)
        except Exception as e:   # a tree the constructors refuse is not a case
            res.count('tree.refused:' + type(e).__name__)
            continue
        via = rng.random() < 0.2
        if via:
            try:
                tree = dtcodec.dt_to_tree(via_get_datatype(dt))
            except Exception as e:
                res.count('tree.get_datatype-failed:' + type(e).__name__)
                via = False
        res.count('tree.root=' + tree['t'])
        res.count('tree.depth=%d' % dtcodec.tree_depth(tree))
        for k in set(dtcodec.tree_kinds(tree)):
            res.count('tree.contains=' + k)
        real = via_get_datatype(dt) if via else dt
        for mode, stream, cand, prev in make_cases(rng, tree, per_tree, big, sizecases):
            if mode == 'wire' and not dtcodec.is_json_value(cand):
                mode = 'py'
            if prev is not None and rng.random() < 0.35:
                w = gen.push_outside(rng, tree, prev)      # reported by the hardware: outside the limits
                if w is not None:
                    prev = w
                    res.count('previous.pushed-outside-limits')
            if prev is not None:
                # a previous value is whatever the parameter may hold: what `dt(x)` returned for some x (driver updates are
                # converted by __call__, which does not check limits) - a precondition of the quantifier, not a verdict
                o = _outcome(lambda: real(prev))
                if o[0] != 'ok' or not dtcodec.encodable(o[1]):
                    res.count('previous.dropped(not accepted by __call__)')
                    prev = None
                else:
                    prev = o[1]
            res.count('previous=' + ('none' if prev is None else 'given'))
            if not (dtcodec.encodable(cand) and dtcodec.encodable(prev)):
                continue
            c = proto_case(tree, mode, dtcodec.py_to_json(cand), dtcodec.py_to_json(prev) if prev is not None else None)
            if via:
                c['via_get_datatype'] = True
            cases.append((c, stream))
        # candidates built relative to the value the parameter holds (validate-accepted and merely call-accepted ones)
        nrel = max(4, per_tree // 5)
        pool = []
        for _ in range(3):
            v = gen.gen_valid(rng, tree)
            if v is None:
                continue
            pool.append(('held:valid', v))
            w = gen.push_outside(rng, tree, v)
            if w is not None:
                pool.append(('held:out-of-limits', w))
        for label, raw in pool:
            o = _outcome(lambda: real(raw))
            if o[0] != 'ok' or not dtcodec.encodable(o[1]):
                continue
            held = o[1]
            res.count('previous.' + label)
            for wire in (True, False):
                for cand in gen.relative_candidates(rng, tree, held, wire, max(2, nrel // 4)):
                    mode = 'wire' if wire and dtcodec.is_json_value(cand) else 'py'
                    if not dtcodec.encodable(cand):
                        continue
                    c = proto_case(tree, mode, dtcodec.py_to_json(cand), dtcodec.py_to_json(held))
                    if via:
                        c['via_get_datatype'] = True
                    cases.append((c, 'relative'))
        if any(k in ('string', 'enum', 'struct') for k in dtcodec.tree_kinds(tree)):
            for s in surrogate_cases(rng, tree, 2):
                surrogates.append((tree, s))
        if tree['t'] in ('array', 'tuple', 'struct'):
            v = gen.gen_valid(rng, tree)
            if v is not None:
                for p in rng.sample(gen.ODD_PREVIOUS, 3):
                    oddprev.append((tree, gen.to_driver(rng, tree, v), p))

    # ---------- run the implementation, ask the model and the monitors ----------
    CH = 20000
    shrunk = 0
    for start in range(0, len(cases), CH):
        chunk = cases[start:start + CH]
        reqs, impls = [], []
        for c, stream in chunk:
            req, impl = eval_case(c)
            reqs.append(req)
            impls.append(impl)
        answers = ctx.driver.batch(reqs)
        for (c, stream), impl, ans in zip(chunk, impls, answers):
            if 'driver_error' in ans:
                raise RuntimeError(f'driver error {ans} on {json.dumps(c)[:400]}')
            res.evaluations += 1
            res.traces += 1
            res.count('stream=' + stream)
            res.count('mode=' + c['mode'])
            vc = out_class(impl['val'])
            if c['mode'] == 'wire':
                res.count('import=' + out_class(impl['imp']))
            res.count('validate=' + vc)
            res.count('call=' + out_class(impl['call']))
            t = c['tree']['t']
            cj = c['cand']
            right_container = (t in ('array', 'tuple') and (isinstance(cj, list) or (isinstance(cj, dict) and 't' in cj))) or \
                              (t == 'struct' and isinstance(cj, dict) and 'd' in cj)
            if vc == 'ok' or (vc in ('bad', 'none') and right_container):
                res.nontriv(c)
            if len(res.samples) < 6 and vc == 'ok' and t in ('array', 'tuple', 'struct') and stream != 'corpus' \
                    and len(json.dumps(c)) < 700 and (len(res.samples) < 3 or c['prev'] is not None):
                res.samples.append({'case': c, 'impl': impl})
            if not ans['wf']:
                res.disagreements.append({'case': c, 'model': 'tree is not DType.WF', 'impl': 'accepted by the constructors'})
                continue
            if ctx.model_ok and canon_outs(ans['model']) != canon_outs(impl):
                diff = {k: (ans['model'][k], impl[k]) for k in impl if canon_out(ans['model'][k]) != canon_out(impl[k])}
                res.disagreements.append({'case': c, 'model': {k: v[0] for k, v in diff.items()},
                                          'impl': {k: v[1] for k, v in diff.items()}})
            for clause in ans['judge']:
                small = c
                if shrunk < 40:
                    shrunk += 1
                    small = shrink(ctx, c, clause)
                _, simpl = eval_case(small)
                res.violations.append({'sig': signature(clause, small, simpl),
                                       'what': f'{clause}: ' + describe(small, simpl),
                                       'case': small, 'detail': {'clause': clause, 'original': c if small is not c else None}})

    # ---------- the same wire cases as `change` requests through a real node (glue: dispatcher + write wrapper) ----------
    node_stream(ctx, res, cases, ctx.budget(40, 400))

    # ---------- the error-text helper of the refusal path on candidates of every size ----------
    helper_stream(ctx, res, cases, sizecases, ctx.budget(300, 3000))

    # ---------- re-test of the float laws on the doubles drawn (a test of the trusted base, not a proof) ----------
    law_test(ctx, res, cases)

    # ---------- totality-only stream (inputs the model cannot represent) ----------
    reqs, meta = [], []
    for tree, cand in surrogates:
        dt = dtcodec.tree_to_dt(tree)
        outs = []
        imp = _outcome(lambda: dt.import_value(cand))
        outs.append(imp)
        if imp[0] == 'ok':
            outs.append(_outcome(lambda: dt.validate(imp[1])))
        outs.append(_outcome(lambda: dt.validate(cand)))
        outs.append(_outcome(lambda: dt(cand)))
        enc = ['bad' if k == 'bad' else {'other': x} if k == 'other' else {'ok': None} for k, x in outs]
        reqs.append({'p': 'C01', 'k': 'total', 'outs': enc})
        meta.append((tree, cand, enc))
    for (tree, cand, enc), ans in zip(meta, ctx.driver.batch(reqs)):
        res.evaluations += 1
        res.traces += 1
        res.count('stream=surrogate(totality only)')
        if ans.get('judge'):
            classes = '+'.join(sorted({o['other'] for o in enc if isinstance(o, dict) and 'other' in o}))
            res.violations.append({'sig': 'C01:total:unmodelled-input:' + tree['t'] + ':' + classes,
                                   'what': f'{dtcodec.tree_to_dt(tree)!r} candidate={cand!r}: {enc}',
                                   'case': {'tree': tree, 'mode': 'surrogate', 'cand': json.dumps(cand), 'prev': None}})
    # ---------- candidates of a size the codec cannot carry (ints beyond the str digit limit, nesting beyond the
    # recursion limit): totality only ----------
    reqs, meta = [], []
    for sc in sizecases:
        enc = eval_size_case(sc)
        reqs.append({'p': 'C01', 'k': 'total', 'outs': enc})
        meta.append((sc, enc))
    for (sc, enc), ans in zip(meta, ctx.driver.batch(reqs)):
        res.evaluations += 1
        res.traces += 1
        res.count('stream=size(totality only)')
        res.count('size.unmodelled=' + sc['recipe'][0])
        if ans.get('judge'):
            classes = '+'.join(sorted({o['other'] for o in enc if isinstance(o, dict) and 'other' in o}))
            res.violations.append({'sig': 'C01:total:unmodelled-input:' + sc['tree']['t'] + ':' + classes,
                                   'what': f'{show_dt(sc["tree"])} candidate of unusual size {sc["recipe"]!r} at '
                                           f'position {sc["path"]!r} of {dtcodec.json_to_py(sc["base"])!r}: {enc}',
                                   'case': sc})
    # ---------- previous values of the wrong kind / length (outside the model: totality only) ----------
    reqs, meta = [], []
    for tree, cand, prev in oddprev:
        dt = dtcodec.tree_to_dt(tree)
        out = _outcome(lambda: dt.validate(cand, prev))
        enc = ['bad' if out[0] == 'bad' else {'other': out[1]} if out[0] == 'other' else {'ok': None}]
        reqs.append({'p': 'C01', 'k': 'total', 'outs': enc})
        meta.append((tree, cand, prev, enc))
    for (tree, cand, prev, enc), ans in zip(meta, ctx.driver.batch(reqs)):
        res.evaluations += 1
        res.traces += 1
        res.count('stream=odd previous(totality only)')
        if ans.get('judge'):
            cls = enc[0]['other']
            res.violations.append({'sig': 'C01:total:odd-previous:' + tree['t'] + ':' + cls,
                                   'what': f'{dtcodec.tree_to_dt(tree)!r}.validate({cand!r}, previous={prev!r}) raised {cls}',
                                   'case': {'tree': tree, 'mode': 'oddprev', 'cand': dtcodec.py_to_json(cand),
                                            'prev': dtcodec.py_to_json(prev)}})
    return res


def replay(ctx, rp):
    if 'case' not in rp:
        # a `no-failing-input-found` file: the disagreeing cases (and / or the proof status) of that run
        rc = 0
        for n in rp.get('proof_status') or []:
            print('proof    :', str(n)[-600:])
        for d in rp.get('correspondence_disagreements') or []:
            if 'law' in d['case']:
                print('law      :', d['case'], '(re-tested in every run)')
                continue
            print('--- disagreeing case')
            rc |= replay(ctx, {'case': d['case'], 'kind': 'no-failing-input-found'})
        return 1 if rc or rp.get('theorems_not_checked') else 0
    case = rp['case']
    if case['mode'] == 'oddprev':
        dt = dtcodec.tree_to_dt(case['tree'])
        cand, prev = dtcodec.json_to_py(case['cand']), dtcodec.json_to_py(case['prev'])
        out = _outcome(lambda: dt.validate(cand, prev))
        print('datatype :', repr(dt))
        print('candidate:', repr(cand), 'previous:', repr(prev))
        print('impl     :', out)
        return 1 if out[0] == 'other' else 0
    if case['mode'] == 'surrogate':
        dt = dtcodec.tree_to_dt(case['tree'])
        cand = json.loads(case['cand'])
        outs = [_outcome(lambda: dt.import_value(cand)), _outcome(lambda: dt.validate(cand)), _outcome(lambda: dt(cand))]
        print('datatype :', repr(dt))
        print('candidate:', repr(cand))
        print('impl     :', outs)
        return 1 if any(k == 'other' for k, _ in outs) else 0
    if case['mode'] == 'size':
        enc = eval_size_case(case)
        ans = ctx.driver.batch([{'p': 'C01', 'k': 'total', 'outs': enc}])[0]
        print('datatype :', show_dt(case['tree']))
        print('candidate:', 'the value of recipe', case['recipe'], 'at position', case['path'], 'of', repr(dtcodec.json_to_py(case['base'])))
        print('impl     :', enc, '(import_value [+ validate], validate, __call__)')
        print('judge    :', ans.get('judge'))
        return 1 if ans.get('judge') else 0
    if case['mode'] == 'history':
        cn = ChangeNode(dtcodec.tree_to_dt(case['tree']))
        cn.hold(dtcodec.json_to_py(case['held0']))
        held0 = dtcodec.py_to_json(cn.held)
        for ev in case['events']:
            if 'u' in ev:
                cn.hold(dtcodec.json_to_py(ev['u']))
            else:
                cn.change(json.loads(json.dumps(dtcodec.json_to_py(ev['c']))))
        ans = ctx.driver.batch([{'p': 'C01', 'k': 'history', 'dt': cn.tree, 'held0': held0, 'events': case['events']}])[0]
        final = dtcodec.py_to_json(cn.held)
        print('datatype :', repr(cn.dt))
        print('events   :', len(case['events']))
        print('impl held:', json.dumps(final))
        print('model    :', json.dumps(ans.get('held')))
        agree = dtcodec.canon(ans['held']) == dtcodec.canon(final)
        print('model == implementation:', agree)
        return 0 if agree else 1
    if case['mode'] == 'helper':
        req, out = eval_helper(case)
        ans = ctx.driver.batch([req])[0]
        print('candidate:', shortened(helper_candidate(case)), '(a %s)' % req['tname'])
        print('repr     :', json.dumps(req['repr'])[:200])
        print('impl     :', json.dumps(out)[:200], '(shortrepr)')
        print('model    :', json.dumps(ans.get('model'))[:200])
        print('judge    :', ans.get('judge'))
        agree = ans.get('model') == out
        print('model == implementation:', agree)
        if rp.get('kind') == 'no-failing-input-found':
            return 0 if agree else 1
        return 1 if ans.get('judge') else 0
    if case['mode'] == 'update':
        req, out = eval_update(case)
        ans = ctx.driver.batch([req])[0]
        print('datatype :', show_dt(case['tree']))
        print('announceUpdate with:', shortened(dtcodec.json_to_py(case['cand'])))
        print('impl     :', json.dumps(out)[:600], '(value held afterwards / class of the read error); converted again:', json.dumps(req['again'])[:300])
        print('model    :', json.dumps(ans.get('model'))[:600])
        print('judge    :', [cl.replace(':result', ':update') for cl in ans.get('judge', [])], '' if ans.get('wf') else '(tree not WF)')
        agree = canon_out(ans['model']) == canon_out(out)
        print('model == implementation:', agree)
        if rp.get('kind') == 'no-failing-input-found':
            return 0 if agree else 1
        return 1 if ans.get('judge') else 0
    if case['mode'] == 'result':
        req, out, rep = eval_result(case)
        ans = ctx.driver.batch([req])[0]
        print('command  :', case.get('cmd', 'r'), '- result type', show_dt(case['tree']) if req['dt'] is not None else None,
              '- argument type', 'IntRange(0, 5)' if req['argdt'] else None, '- data', case.get('data'))
        print('function returns:', shortened(dtcodec.json_to_py(case['cand'])))
        print('impl     :', json.dumps(out)[:600], '(Command.do); converted again:', json.dumps(req['again'])[:300])
        print('reply    :', json.dumps(rep), '(class of the reply to the do request)')
        print('model    :', json.dumps(ans.get('model'))[:600])
        print('judge    :', ans.get('judge'), '' if ans.get('wf') else '(tree not WF)')
        agree = canon_out(ans['model']) == canon_out(out)
        print('model == implementation:', agree)
        if rp.get('kind') == 'no-failing-input-found':
            return 0 if agree else 1
        if case.get('clause') == 'total:do-reply' or (rp.get('detail') or {}).get('clause') == 'total:do-reply':
            return 1 if isinstance(rep, dict) and 'other' in rep else 0
        return 1 if ans.get('judge') else 0
    if case['mode'] in ('node', 'do'):
        req, out = eval_change(case) if case['mode'] == 'node' else eval_do(case)
        ans = ctx.driver.batch([req])[0]
        print('datatype :', show_dt(case['tree']))
        print('held     :', repr(dtcodec.json_to_py(req['held'])) if req['held'] is not None else '- (do request)')
        print('data     :', shortened(dtcodec.json_to_py(case['cand'])))
        print('impl     :', json.dumps(out))
        print('model    :', json.dumps(ans.get('model')))
        print('judge    :', ans.get('judge'), '' if ans.get('wf') else '(tree not WF)')
        agree = canon_out(ans['model']) == canon_out(out)
        print('model == implementation:', agree)
        if rp.get('kind') == 'no-failing-input-found':
            return 0 if agree else 1
        return 1 if ans.get('judge') else 0
    req, impl = eval_case(case)
    ans = ctx.driver.batch([req])[0]
    dt = dtcodec.tree_to_dt(case['tree'])
    print('datatype :', repr(dt), '(via get_datatype)' if case.get('via_get_datatype') else '')
    print('mode     :', case['mode'])
    print('candidate:', repr(dtcodec.json_to_py(case['cand'])))
    print('previous :', repr(dtcodec.json_to_py(case['prev'])) if case['prev'] is not None else None)
    for k in ('imp', 'val', 're1', 're2', 'call', 'recall'):
        print(f'impl  {k:7}:', json.dumps(impl[k]))
        print(f'model {k:7}:', json.dumps(ans.get('model', {}).get(k)))
    print('judge    :', ans.get('judge'), '' if ans.get('wf') else '(tree not WF)')
    agree = canon_outs(ans['model']) == canon_outs(impl)
    print('model == implementation:', agree)
    if rp.get('kind') == 'no-failing-input-found':
        return 0 if agree else 1
    return 1 if ans.get('judge') else 0
