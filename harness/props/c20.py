"""C20 — Logging: exact per-connection routing, rotation keeps the newest files."""
import json
import os
import shutil
import tempfile
import time as _time

from check import Result
from vlib.shrink import ddmin

META = {
    'level_text': 'Theorems for all histories / all directories: delivery_iff (a connection receives a record exactly once iff its most '
                  'recent level choice for the module admits it), off_ident_disconnect_stop, others_unaffected, rotation_keeps_newest '
                  '(any total order on names, any directory, any retention n>0), rotation_off_keeps_all, rotations_bounded (repeated '
                  'rotations).  Interleavings (requests under Dispatcher._lock, clean-up of closed connections and emitting threads '
                  'outside it; atomic unit = one dict access): step_eq_micros (a request is the fold of its primitive table updates), '
                  'conc_others_unaffected, conc_depends_on_own (every interleaving of the updates of any number of threads leaves each '
                  'connection the entry its own thread gave it), conc_emit_bystander, setting_shuffle / setting_shuffle_concat (the '
                  'specification is independent of the interleaving).  The models are tied to frappy/logging.py, dispatcher.py and modulebase.setRemoteLogging by a '
                  'correspondence run on the real handler/dispatcher, and the Lean monitors judge every implementation trace.',
    'level_note': 'Trusted: Lean kernel + axioms propext/Classical.choice/Quot.sound; the level table is regenerated from the source; '
                  'mlzlog, Python logging propagation and os.scandir/remove are modelled, not verified; lexicographic = chronological '
                  'order of dated names; no log file dated in the future exists (hypothesis of rotation_keeps_newest).',
    'trusted': [
        'names of the form <prefix>-YYYY-MM-DD.log sort lexicographically in chronological order',
        'the clock does not run backwards: no log file dated after the file being opened exists (hypothesis `hnewest`)',
        'driver glue: a directory entry is a log file of the handler iff it is named <prefix>-*.log',
        'interleaving part: one access to a dict (setdefault, pop, [k] = v, list(d.items())) is atomic (CPython GIL); each '
        'connection is served by one thread at a time; the deterministic scheduler vlib.sched and the dict stand-ins of '
        'props/c20_conc.py (yield before every access to the handler table, before every send, at every dispatcher lock)',
    ],
    'modelled_not_verified': [
        'mlzlog.LogfileHandler (file naming, symlink `current`, opening with mode a)',
        'Python logging: propagation of records from module loggers to the RemoteLogHandler',
        'os.scandir / os.remove',
    ],
    'assumptions': ['records carry levels of the level table (debug, comlog, info, warning, error)'],
}

MODS = ['a', 'b', 'cc']


# ----------------------------------------------------------------------------------------
# rotation: the real LogfileHandler on a scratch directory with a fake clock
# ----------------------------------------------------------------------------------------
class FakeTime:
    """stands in for the `time` module inside mlzlog"""

    def __init__(self):
        self.day = (2024, 1, 1)

    def _tuple(self):
        y, m, d = self.day
        return _time.struct_time((y, m, d, 12, 0, 0, 0, 1, 0))

    def strftime(self, fmt, t=None):
        return _time.strftime(fmt, t or self._tuple())

    def localtime(self, secs=None):
        return self._tuple()

    def mktime(self, t):
        return _time.mktime(t)

    def time(self):
        return _time.mktime(self._tuple())


def day_name(prefix, day):
    return '%s-%04d-%02d-%02d.log' % (prefix, *day)


def add_days(day, n):
    import datetime
    d = datetime.date(*day) + datetime.timedelta(days=n)
    return (d.year, d.month, d.day)


def impl_rotation(case):
    """case: {prefix, n, existing: [names], days: [[y,m,d], ...]} -> list of steps {dir, new, n, prefix, after}"""
    import mlzlog
    import logging
    import frappy.logging as flog
    base = tempfile.mkdtemp(prefix='verif-c20-')
    fake = FakeTime()
    saved = mlzlog.time
    mlzlog.time = fake
    steps = []
    try:
        prefix = case['prefix']
        d = os.path.join(base, prefix)
        os.makedirs(d)
        for name in case['existing']:
            with open(os.path.join(d, name), 'w') as f:
                f.write('x\n')
        fake.day = tuple(case['days'][0])
        h = flog.LogfileHandler(base, prefix, max_days=case['n'])
        rec = logging.LogRecord('frappy.x', logging.INFO, __file__, 1, 'msg', (), None)
        h.emit(rec)     # opens the file of the first day
        for day in case['days'][1:]:
            fake.day = tuple(day)
            before = sorted(os.listdir(d))
            err = None
            try:
                h.doRollover()
            except Exception as e:   # a crash of the rollover is itself an observation
                err = type(e).__name__
            after = sorted(os.listdir(d))
            steps.append({'dir': before, 'new': day_name(prefix, tuple(day)), 'n': case['n'], 'prefix': prefix,
                          'after': after, 'error': err})
        try:
            h.close()
        except Exception:
            pass
    finally:
        mlzlog.time = saved
        shutil.rmtree(base, ignore_errors=True)
    return steps


def gen_rotation(rng, big):
    prefix = rng.choice(['frappy', 'x', 'node-1', 'a.b'])
    n = rng.choice([0, 1, 1, 2, 2, 3, 3, 5, 7] + ([12, 30] if big else []))
    start = (2024, rng.randint(1, 12), rng.randint(1, 28))
    existing = []
    # earlier dated files (possibly with gaps, possibly many)
    k = rng.choice([0, 1, 2, 3, 5, 8] + ([15, 40] if big else []))
    offsets = sorted(rng.sample(range(1, max(k * 3, 4) + 400 * (rng.random() < 0.2)), k))
    for off in offsets:
        existing.append(day_name(prefix, add_days(start, -off)))
    if rng.random() < 0.3:
        existing.append(day_name(prefix, start))        # restart on the same day
    foreign = ['notes.txt', 'zzz', '0README', prefix + '-2023-01-01.log.gz', prefix + 'x-2023-05-05.log',
               'other-2030-01-01.log', prefix + '.log', 'current.bak', prefix + '-2023-02-02.txt']
    for name in rng.sample(foreign, rng.choice([0, 0, 1, 2, 4])):
        existing.append(name)
    ndays = rng.choice([1, 1, 2, 3, 5] + ([10] if big else []))
    days = [start]
    cur = start
    for _ in range(ndays):
        # 0: a rollover that re-opens the file of the same date (mlzlog rolls over every 86400 s: the 25-hour day at the end
        # of daylight saving time, or a restart of the handler's timer)
        cur = add_days(cur, rng.choice([1, 1, 1, 2, 7, 40, 0]))
        days.append(cur)
    return {'prefix': prefix, 'n': n, 'existing': existing, 'days': [list(x) for x in days]}


# ----------------------------------------------------------------------------------------
# routing: real RemoteLogHandler + Dispatcher + Module
# ----------------------------------------------------------------------------------------
class Conn:
    def __init__(self, cid):
        self.cid = cid
        self.got = []

    def send_reply(self, msg):
        self.got.append(msg)


class _SecNodeStub:
    def __init__(self):
        self.modules = {}
        self.name = ''

    def add_module(self, module, modname):
        self.modules[modname] = module

    def get_module(self, modname):
        return self.modules.get(modname)


class _SrvStub:
    restart = None
    shutdown = None

    def __init__(self, log):
        from frappy.protocol.dispatcher import Dispatcher
        self.secnode = _SecNodeStub()
        self.dispatcher = Dispatcher('', log.getChild('dispatcher'), {}, self)


_counter = [0]


def forget_loggers(root_name):
    """the `logging` module keeps every logger ever made and `Logger.setLevel` walks over all of them: forget the loggers
    of a node that is thrown away (otherwise a run is quadratic in the number of cases)"""
    import logging
    d = logging.Logger.manager.loggerDict
    for name in [n for n in d if n == root_name or n.startswith(root_name + '.')]:
        del d[name]


def impl_routing(mods, ops, rootname=None):
    """run ops on the real code; returns outs (same shape as the model's).
    rootname: name of the logger the module loggers are children of (default: a fresh name); a node may be called like
    one of its modules, and the module of a record is the LAST component of the logger name only"""
    import logging
    import mlzlog
    from frappy.logging import RemoteLogHandler
    from frappy.modules import Module
    _counter[0] += 1
    root = mlzlog.MLZLogger(rootname or 'fv%d' % _counter[0])
    root.setLevel(logging.DEBUG)
    root.addHandler(RemoteLogHandler())
    srv = _SrvStub(root)
    modobjs = {}
    for m in mods:
        class Mod(Module):
            def earlyInit(self):
                pass
        obj = Mod(m, root.getChild(m), {'description': ''}, srv)
        srv.secnode.add_module(obj, m)
        modobjs[m] = obj
    conns = {}
    every = []          # all connection objects ever made (a disconnected one must stay silent: keep watching it)

    def conn(c):
        if c not in conns:
            conns[c] = Conn(c)
            every.append(conns[c])
            srv.dispatcher.add_connection(conns[c])
        return conns[c]

    outs = []
    for op in ops + [None]:
        if op is None:
            forget_loggers(root.name)
            break
        kind = op[0]
        if kind == 'logging':
            _, c, spec, lvl = op
            try:
                srv.dispatcher.handle_request(conn(c), ('logging', spec, lvl))
                outs.append('ok')
            except Exception:
                outs.append('error')
        elif kind == 'emit':
            _, m, lvl = op
            for cn in every:
                cn.got.clear()
            if m in modobjs:
                modobjs[m].log.log(lvl, 'text %d', lvl)
            got = []
            for cn in every:
                for msg in cn.got:
                    if msg[0] == 'log' and msg[1].split(':')[0] == m:
                        got.append(cn.cid)
                    else:
                        got.append(1000 + cn.cid)    # something else arrived: keep it visible
            outs.append(sorted(got))
        elif kind == 'ident':
            try:
                srv.dispatcher.handle_request(conn(op[1]), ('*IDN?', None, None))
                outs.append('ok')
            except Exception:
                outs.append('error')
        elif kind == 'disconnect':
            try:
                srv.dispatcher.remove_connection(conn(op[1]))
                conns.pop(op[1], None)      # the same id later means a new connection object
                outs.append('ok')
            except Exception:
                outs.append('error')
    return outs


LEVEL_NAMES = ['debug', 'info', 'warning', 'error', 'comlog', 'off']
LEVEL_NUMS = [10, 15, 20, 30, 40]


def gen_level(rng):
    r = rng.random()
    if r < 0.55:
        s = rng.choice(LEVEL_NAMES)
        return rng.choice([s, s.upper(), s.capitalize()])
    if r < 0.65:
        return 'off'
    if r < 0.8:
        return rng.choice(LEVEL_NUMS + [99])
    if r < 0.9:
        return rng.choice(['loud', '', 'offf', 'inf', 'DEBUG ', 'wärning', 0, 7, 100, 25])
    return rng.choice([None, [20], 1.5, True, {'a': 1}, -10])


def gen_routing(rng, big):
    nm = rng.choice([1, 2, 2, 3])
    mods = MODS[:nm]
    nconn = rng.choice([1, 2, 2, 3])
    ops = []
    length = rng.randint(3, 30 if big else 14)
    for _ in range(length):
        r = rng.random()
        c = rng.randint(1, nconn)
        if r < 0.4:
            spec = rng.choice([None, None] + mods + mods + ['nosuch'])
            ops.append(['logging', c, spec, gen_level(rng)])
        elif r < 0.85:
            ops.append(['emit', rng.choice(mods), rng.choice(LEVEL_NUMS)])
        elif r < 0.93:
            ops.append(['ident', c])
        else:
            ops.append(['disconnect', c])
    # closing probes: one record per module at the highest and the lowest level shows every subscription still alive
    for m in mods:
        ops.append(['emit', m, 40])
        if rng.random() < 0.5:
            ops.append(['emit', m, 10])
    return mods, ops


def gen_rootname(rng, mods):
    """a quarter of the nodes are called like one of their modules (logger names <node>.<module>)"""
    return rng.choice(mods) if rng.random() < 0.25 else None


def wire_ops(ops):
    """ops as sent to the Lean side (integral floats are the integers Python takes them for; '.'/'' = null)"""
    out = []
    for op in ops:
        if op[0] == 'logging':
            _, c, spec, lvl = op
            if isinstance(lvl, float) and lvl.is_integer():
                lvl = int(lvl)
            out.append(['logging', c, None if spec in (None, '', '.') else spec, lvl])
        else:
            out.append(list(op))
    return out


# ----------------------------------------------------------------------------------------
def run(ctx):
    res = Result()
    res.rule = ('rotation: generated directories (dated files with gaps, same-day restart, foreign files, retention 0..N) '
                'x 1..5 consecutive rollovers on the real LogfileHandler with a fake clock; non-trivial = at least one '
                'file removed and one log file kept.  routing: generated op sequences (logging/emit/ident/disconnect on '
                '1..3 connections, 1..3 modules, valid/invalid levels); non-trivial = some record delivered and some '
                'record withheld from a connection that had subscribed earlier')
    big = ctx.tier == 'thorough' or ctx.escalated
    rng = ctx.rng
    # ---------- corpus first ----------
    rot_cases, route_cases = [], []
    cdir = os.path.join(ctx.verif, 'corpus', 'C20')
    if os.path.isdir(cdir):
        for fn in sorted(os.listdir(cdir)):
            c = json.load(open(os.path.join(cdir, fn)))
            if c['kind'] == 'rotation':
                rot_cases.append(c['case'])
            elif c['kind'] == 'routing':
                route_cases.append(c['case'])
    for _ in range(ctx.budget(120, 3000)):
        rot_cases.append(gen_rotation(rng, big))
    for _ in range(ctx.budget(400, 12000)):
        m, o = gen_routing(rng, big)
        route_cases.append({'mods': m, 'ops': o, 'root': gen_rootname(rng, m)})

    # ---------- rotation ----------
    reqs, meta = [], []
    for case in rot_cases:
        steps = impl_rotation(case)
        for i, st in enumerate(steps):
            base = {'p': 'C20', 'dir': st['dir'], 'new': st['new'], 'n': st['n'], 'prefix': st['prefix']}
            reqs.append(dict(base, k='rotate'))
            reqs.append(dict(base, k='judge_rotate', after=st['after']))
            meta.append((case, i, st))
    answers = ctx.driver.batch(reqs)
    for j, (case, i, st) in enumerate(meta):
        model, judge = answers[2 * j], answers[2 * j + 1]
        res.evaluations += 1
        res.traces += 1
        removed = set(st['dir']) - set(st['after'])
        res.count('rotation.n=%d' % st['n'])
        res.count('rotation.removed=%s' % (len(removed) if len(removed) < 3 else '3+'))
        if removed and any(f.startswith(st['prefix'] + '-') and f.endswith('.log') for f in st['after']):
            res.nontriv(st)
        if len(res.samples) < 2 and removed:
            res.samples.append({'kind': 'rotation', 'before': st['dir'], 'new': st['new'], 'retention': st['n'],
                                'after': st['after']})
        if st['error']:
            res.violations.append({'sig': 'C20:rotation:raises:' + st['error'],
                                   'what': f'doRollover raised {st["error"]}', 'case': {'kind': 'rotation', 'case': case, 'step': i}})
            continue
        if 'driver_error' in judge or 'driver_error' in model:
            raise RuntimeError(f'driver error: {judge} {model}')
        if ctx.model_ok and sorted(model['after']) != sorted(st['after']):
            res.disagreements.append({'case': {'kind': 'rotation', 'case': case, 'step': i},
                                      'model': sorted(model['after']), 'impl': st['after']})
        if not judge['ok']:
            kept_new = st['new'] in st['after']
            logs_before = [f for f in set(st['dir']) | {st['new']} if f.startswith(st['prefix'] + '-') and f.endswith('.log')]
            logs_removed = sorted(f for f in logs_before if f not in st['after'])
            logs_kept = sorted(f for f in logs_before if f in st['after'])
            if not kept_new:
                sig = 'C20:rotation:current-file-removed'
            elif logs_removed and logs_kept and max(logs_removed) > min(logs_kept):
                sig = 'C20:rotation:newer-removed-older-kept'
            elif any(not (f.startswith(st['prefix'] + '-') and f.endswith('.log')) for f in removed):
                sig = 'C20:rotation:foreign-file-removed'
            else:
                sig = 'C20:rotation:wrong-count'
            res.violations.append({'sig': sig,
                                   'what': f'rotation with retention {st["n"]}: before={st["dir"]} new={st["new"]} after={st["after"]}',
                                   'case': {'kind': 'rotation', 'case': case, 'step': i}})

    # ---------- routing ----------
    shrunk = [0]
    reqs, impl_outs = [], []
    for case in route_cases:
        outs = impl_routing(case['mods'], case['ops'], case.get('root'))
        impl_outs.append(outs)
        w = wire_ops(case['ops'])
        reqs.append({'p': 'C20', 'k': 'route', 'mods': case['mods'], 'ops': w})
        reqs.append({'p': 'C20', 'k': 'judge_route', 'mods': case['mods'], 'ops': w, 'outs': outs})
    answers = ctx.driver.batch(reqs)
    for j, case in enumerate(route_cases):
        model, judge = answers[2 * j], answers[2 * j + 1]
        outs = impl_outs[j]
        res.evaluations += 1
        res.traces += 1
        if 'driver_error' in judge or 'driver_error' in model:
            raise RuntimeError(f'driver error: {judge} {model}')
        delivered = sum(1 for o in outs if isinstance(o, list) and o)
        withheld = sum(1 for o in outs if isinstance(o, list) and not o)
        errors = sum(1 for o in outs if o == 'error')
        res.count('routing.delivered' if delivered else 'routing.nothing-delivered')
        res.count('routing.errors=%s' % min(errors, 3))
        res.count('routing.node-named-like-a-module' if case.get('root') else 'routing.node-name-distinct')
        if delivered and withheld:
            res.nontriv(case)
        if len(res.samples) < 4 and delivered and withheld and len(case['ops']) < 9:
            res.samples.append({'kind': 'routing', 'mods': case['mods'], 'ops': case['ops'], 'outs': outs})
        if ctx.model_ok and model['outs'] != outs:
            res.disagreements.append({'case': {'kind': 'routing', 'case': case}, 'model': model['outs'], 'impl': outs})
        if judge['bad'] is not None:
            def fails(ops, mods=case['mods'], rootname=case.get('root')):
                o = impl_routing(mods, ops, rootname)
                a = ctx.driver.batch([{'p': 'C20', 'k': 'judge_route', 'mods': mods, 'ops': wire_ops(ops), 'outs': o}])[0]
                return a.get('bad') is not None
            small = ddmin(case['ops'], fails) if shrunk[0] < 3 else case['ops']
            shrunk[0] += 1
            o = impl_routing(case['mods'], small, case.get('root'))
            last = small[-1] if small else None
            kinds = '+'.join(sorted({op[0] for op in small}))
            res.violations.append({'sig': 'C20:routing:' + kinds,
                                   'what': f'log routing differs from the chosen levels: ops={small} delivered={o}'
                                           + (f' (node logger named {case["root"]!r})' if case.get('root') else ''),
                                   'case': {'kind': 'routing', 'case': {'mods': case['mods'], 'ops': small, 'root': case.get('root')}},
                                   'detail': {'original_ops': case['ops'], 'first_bad_index': judge['bad'], 'last': last}})
    # ---------- routing under interleavings ----------
    from props import c20_conc
    c20_conc.run_part(ctx, res)
    return res


def replay(ctx, rp):
    case = rp['case']
    if case['kind'] == 'conc':
        from props import c20_conc
        return c20_conc.replay(ctx, rp)
    if case['kind'] == 'rotation':
        steps = impl_rotation(case['case'])
        st = steps[case['step']]
        base = {'p': 'C20', 'dir': st['dir'], 'new': st['new'], 'n': st['n'], 'prefix': st['prefix']}
        a = ctx.driver.batch([dict(base, k='rotate'), dict(base, k='judge_rotate', after=st['after'])])
        print('before :', st['dir'])
        print('impl   :', st['after'])
        print('model  :', a[0].get('after'))
        print('judge  :', a[1])
        return 0 if a[1].get('ok') and not st['error'] else 1
    outs = impl_routing(case['case']['mods'], case['case']['ops'], case['case'].get('root'))
    w = wire_ops(case['case']['ops'])
    a = ctx.driver.batch([{'p': 'C20', 'k': 'route', 'mods': case['case']['mods'], 'ops': w},
                          {'p': 'C20', 'k': 'judge_route', 'mods': case['case']['mods'], 'ops': w, 'outs': outs}])
    print('ops   :', case['case']['ops'])
    print('impl  :', outs)
    print('model :', a[0].get('outs'))
    print('judge :', a[1])
    return 0 if a[1].get('bad') is None else 1
