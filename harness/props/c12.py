"""C12 — Client cache and callbacks mirror the node end to end.

(a) correspondence + judge: a real `SecopClient` whose receive loop (`_SecopClient__rxthread`, the real method, run in
    the harness thread) reads scripted lines from a fake connection; descriptions come from generated nodes; callbacks
    are registered / unregistered between lines; after every event the cache and the callback log are recorded.  The
    Lean model replays the same events (verb `run`), the Lean monitor judges the recorded history (verb `judge`).
(b) end to end, implementation only (a test that supports the composed theorem `e2e_write`): generated node behind the
    real `TCPServer` on a loopback port, real `SecopClient.setParameter`, recording drivers; then a `frappy.proxy`
    module in front of it.
"""
import json
import math
import os
import threading
import time as _time

from check import Result
from vlib.shrink import ddmin

META = {
    'level_text': 'Theorems for all descriptions (identifier maps), all event histories (lines incl. garbage, unknown identifiers, '
                  'shorthand, malformed data, registrations and unregistrations in between), all import oracles and all callback '
                  'behaviours: cache_eq_last_message (cache entry = import of the last message for the parameter), '
                  'callbacks_once_in_order (the run is a concatenation of blocks satisfying Spec.Mirrors: every live registration of '
                  'the three levels exactly once per effective line, immediate call-backs on registration, nothing otherwise), '
                  'timestamp_not_future / timestamps_not_future_run, rebuilt_error + standard_classes_kept, '
                  'ineffective_changes_nothing, accepted_is_import, e2e_read / e2e_write over abstract codecs with the round-trip '
                  'laws as hypotheses, and e2e_write_datatypes / e2e_read_datatypes where these hypotheses are discharged for the '
                  'datatype model (export with the rebuilt client datatype, import on the node, export of the answer, import on the '
                  'client: every well-formed datatype tree, every valid value, every float carrier satisfying Spec.C02.WireLaws; '
                  'int_import_exact), error_roundtrip + source_classes_ok (an error of any class of errors.py formatted by a node '
                  'and rebuilt by the client is the same object), judge_iff and writeOkB_iff (the monitors decide the '
                  'specification), tables_ok (by decide on the generated tables).  Callbacks may unregister callbacks while they run '
                  '(a registration removed during the dispatch of a message sees it at most once, all others exactly once).  The '
                  'model is tied to frappy/client/__init__.py and errors.py by a correspondence run on the real receive loop, '
                  'compared event by event, with the import oracle instantiated by the datatype model (Datatypes.importValue on the '
                  'trees of the datatypes the client rebuilt): the Lean monitor judges every recorded history without using the '
                  'implementation\'s import_value.  Every end-to-end write over the real TCP server (directly and through a proxy '
                  'module) is judged by the Lean monitor writeOkB with Python == as PVal.pyEq and compared with the model\'s account '
                  '(writeTrace / proxyTrace: export, import, validate with previous, write wrapper, answer, import).',
    'level_note': 'Trusted: Lean kernel + axioms propext/Classical.choice/Quot.sound; tables regenerated from the source; '
                  'decode_msg (C07) is an oracle; the datatype model (C01/C02) stands for import_value/export_value/validate and is '
                  'compared with the code in every case; the laws of the float carrier (WireLaws) and of base64 (B64Law) are '
                  'hypotheses of the end-to-end theorems; the node-side validate(value, previous) is in the compared model '
                  '(writeTrace) but not in e2e_write_datatypes; part (b) (real TCP server, real client, proxy) is a test judged by '
                  'Lean monitors, not a proof.',
    'trusted': [
        'decode_msg (frappy.protocol.interface) is used to canonicalise the scripted lines for the model (property C07)',
        'get_datatype (datainfo -> datatype object, property C03) and vlib.dtcodec.dt_to_tree deliver the datatype trees the model imports with',
        'Spec.C02.WireLaws (binary64) and B64Law are hypotheses of e2e_write_datatypes / e2e_read_datatypes (property C02)',
        'time stamps and clock readings are drawn from a grid of exactly representable doubles (multiples of 0.25) and sent to the '
        'model as integers; IEEE comparison on these coincides with integer comparison',
        'part (b) end to end over real sockets and threads is a test that supports the composed theorem, labelled as such',
    ],
    'modelled_not_verified': [
        'request/reply matching and the threads of SecopClient (property C11)',
        'frappy/proxy.py: the generated write function is modelled (proxyTrace) and compared; read functions, updateEvent forwarding '
        'and status handling are exercised in part (b), not modelled',
        'socketserver / TCPServer / AsynConn',
        're module: the model transcribes FRAPPY_ERROR by hand (\\w restricted to ASCII, see design_notes/C12.md)',
    ],
    'assumptions': ['callbacks do not themselves call register_callback or write the cache (calling unregister_callback from inside a '
                    'callback, for itself or for others, is modelled and generated)',
                    'setParameterFromString (F09) is out of scope: C12 speaks about setParameter'],
}

PROP = 'C12'
UPDATE_ACTIONS = ['update', 'error_update', 'reply', 'changed', 'error_read']


# ----------------------------------------------------------------------------------------
# generated nodes / descriptions
# ----------------------------------------------------------------------------------------
INT_MARKS = sorted({s * (b + d) for s in (1, -1) for b in (0, 2 ** 24, 2 ** 31, 2 ** 32, 2 ** 53, 2 ** 62, 2 ** 63, 2 ** 64)
                    for d in (-2, -1, 0, 1, 2, 3)} | {0x0123456789abcdef, -0x0fedcba987654321, 10 ** 16 + 1, 10 ** 18 + 7})
FLOAT_MARKS = [0.0, -0.0, 1.0, -1.0, 0.1, 1 / 3, 2.5, 1e-300, 5e-324, 2.2250738585072014e-308, 1e15 + 0.5, 2.0 ** 53, 2.0 ** 53 + 2,
               -2.0 ** 63, 1e22, 1.7976931348623157e308, -1.7976931348623157e308, 123456789.12345679, 4.35, 1e-7]


def int_catalogue(rng, lo, hi):
    """boundary catalogue for an integer range: the limits, their neighbours, and the marks where a conversion through a
    double, a 32 bit or a 64 bit integer would show (every one an exact Python int inside [lo, hi])"""
    cands = [lo, hi, lo + 1, hi - 1] + [x for x in INT_MARKS if lo <= x <= hi]
    cands += [rng.randint(lo, hi) for _ in range(3)]                      # uniformly: mostly of the magnitude of the range
    cands += [rng.randint(max(lo, -1000), min(hi, 1000))] if lo <= 1000 and hi >= -1000 else []
    return [x for x in cands if lo <= x <= hi]


def gen_datatype(rng, depth=0):
    """-> (datatype, value generator giving a member of its value set as the Python side holds it)"""
    from frappy import datatypes as D
    kinds = ['float', 'int', 'scaled', 'enum', 'bool', 'string', 'blob']
    if depth < 2:
        kinds += ['array', 'tuple', 'struct']
    k = rng.choice(kinds)
    if k == 'float':
        lo, hi = rng.choice([(None, None), (None, None), (0, 10), (-5.5, 5.5), (1e-3, 1e9)])
        dt = D.FloatRange(lo, hi) if lo is not None else D.FloatRange()
        a, b = (lo, hi) if lo is not None else (-1e6, 1e6)
        marks = [x for x in FLOAT_MARKS if lo is None or lo <= x <= hi]
        gen = lambda r: r.choice([a, b, (a + b) / 2, a + (b - a) * r.random(), round(a + (b - a) * r.random(), 2),
                                  r.choice(marks), r.choice(marks)])
    elif k == 'int':
        lo, hi = rng.choice([(0, 10), (-3, 3), (-2 ** 24, 2 ** 24), (5, 5), (0, 2 ** 64 - 1), (-2 ** 63, 2 ** 63 - 1),
                             (0, 2 ** 32 - 1), (-2 ** 53 - 5, 2 ** 53 + 5), (-2 ** 64, 2 ** 64), (10 ** 15, 10 ** 17)])
        dt = D.IntRange(lo, hi)
        gen = lambda r: r.choice(int_catalogue(r, lo, hi))
    elif k == 'scaled':
        scale, lo, hi = rng.choice([(0.1, 0, 10), (0.25, -4, 4), (1e-3, 0, 1), (7, -70, 700), (0.5, -2.0 ** 40, 2.0 ** 40),
                                    (1, -2 ** 53, 2 ** 53)])
        dt = D.ScaledInteger(scale, lo, hi)
        gen = lambda r: r.choice([lo, hi, scale * r.randint(int(round(lo / scale)), int(round(hi / scale)))])
    elif k == 'enum':
        names = rng.sample(['off', 'on', 'idle', 'busy', 'a', 'b', 'Z_9'], rng.randint(1, 4))
        vals = rng.sample(range(-2, 12), len(names))
        members = dict(zip(names, vals))
        dt = D.EnumType('e', **members)
        gen = lambda r: r.choice(list(members) + list(members.values()))
    elif k == 'bool':
        dt = D.BoolType()
        gen = lambda r: r.choice([True, False])
    elif k == 'string':
        utf8 = rng.random() < 0.5
        dt = D.StringType(isUTF8=utf8)
        pool = ['', 'x', 'hello world', 'q"uo\\te', 'line\nbreak', ' lead', 'a:b', '[1,2]'] + (['ä€😀', 'Ω'] if utf8 else [])
        gen = lambda r: r.choice(pool)
    elif k == 'blob':
        dt = D.BLOBType()
        gen = lambda r: r.choice([b'', b'\x00', bytes(range(0, 256, 17)), b'abc', bytes([r.randrange(256) for _ in range(r.randint(0, 9))])])
    elif k == 'array':
        inner, ig = gen_datatype(rng, depth + 1)
        lo = rng.choice([0, 0, 1])
        hi = lo + rng.choice([0, 2, 3])
        dt = D.ArrayOf(inner, lo, max(hi, 1) if lo == 0 else hi)
        gen = lambda r: tuple(ig(r) for _ in range(r.randint(dt.minlen, dt.maxlen)))
    elif k == 'tuple':
        parts = [gen_datatype(rng, depth + 1) for _ in range(rng.randint(1, 3))]
        dt = D.TupleOf(*[p[0] for p in parts])
        gen = lambda r: tuple(p[1](r) for p in parts)
    else:
        names = rng.sample(['a', 'b', 'c', 'x_y'], rng.randint(1, 3))
        parts = {n: gen_datatype(rng, depth + 1) for n in names}
        dt = D.StructOf(**{n: p[0] for n, p in parts.items()})
        gen = lambda r: {n: p[1](r) for n, p in parts.items()}
    return dt, gen


PNAMES = ['p', 'q', 'speed', 'x_y', 'mode', 'Cap', 'p2']
MODNAMES = ['m', 'n', 'None', 'mod_x', 'T1', 'value', 'a']

_cls_counter = [0]


class DriverLog:
    """what the fake drivers of a generated node saw / return"""

    def __init__(self):
        self.writes = []        # (module, parameter, value as received)
        self.returns = {}       # (module, parameter) -> function(value) -> value returned by write_<p>
        self.read_error = None  # exception instance the next read_bad raises


def gen_module_class(rng, dlog=None, writable_all=False):
    """a generated module class with 0..4 custom parameters of generated datatypes, a command, recording write functions.
    -> (class, {pname: (datatype, valgen)})"""
    from frappy.modules import Module, Readable, Writable, Drivable
    from frappy.params import Parameter, Command
    from frappy.datatypes import IntRange
    base = rng.choice([Readable, Writable, Drivable, Module, Readable, Writable])
    attrs, info = {}, {}
    for name in rng.sample(PNAMES, rng.randint(1 if writable_all else 0, 4)):
        dt, gen = gen_datatype(rng)
        ro = False if writable_all else rng.random() < 0.4
        attrs[name] = Parameter('generated ' + name, dt, readonly=ro, default=dt(gen(rng)))
        info[name] = (dt, gen)
        if not ro:
            def wfunc(self, value, _n=name):
                if dlog is not None:
                    dlog.writes.append((self.name, _n, value))
                    f = dlog.returns.get((self.name, _n))
                    if f:
                        return f(value)
                return value
            attrs['write_' + name] = wfunc
    if dlog is not None:
        def read_bad(self):
            if dlog.read_error is not None:
                raise dlog.read_error
            return 0
        attrs['bad'] = Parameter('a parameter whose read fails on demand', IntRange(), default=0)
        attrs['read_bad'] = read_bad
    if issubclass(base, Writable):
        def write_target(self, value):
            if dlog is not None:
                dlog.writes.append((self.name, 'target', value))
            return value
        attrs['write_target'] = write_target
    if rng.random() < 0.6:
        def go(self, a):
            """a generated command"""
            return a
        attrs['go'] = Command(IntRange(), result=IntRange())(go)
    _cls_counter[0] += 1
    return type('G%d' % _cls_counter[0], (base,), attrs), info


def gen_node(rng, dlog=None, writable_all=False, nmods=None):
    from vlib.node import Node
    names = rng.sample(MODNAMES, nmods or rng.randint(1, 3))
    cfg, info = {}, {}
    for n in names:
        cls, pinfo = gen_module_class(rng, dlog, writable_all)
        cfg[n] = {'cls': cls, 'description': 'generated module ' + n}
        info[n] = pinfo
    node = Node(cfg)
    if node.errors:
        raise RuntimeError(f'generated node has errors: {node.errors}')
    return node, info


def mutate_description(rng, desc):
    """synthetic variants a foreign node could send: accessible renamed with/without the underscore, a module without `value`"""
    desc = json.loads(json.dumps(desc))
    mods = desc['modules']
    how = rng.choice(['novalue', 'both', 'under_predefined', 'plain'])
    for mname, m in mods.items():
        acc = m['accessibles']
        if how == 'novalue' and 'value' in acc:
            acc.pop('value')
        elif how == 'both':
            customs = [a for a in acc if a.startswith('_')]
            if customs:
                a = rng.choice(customs)
                acc[a[1:]] = json.loads(json.dumps(acc['status'] if 'status' in acc else acc[a]))   # `x` next to `_x`
        elif how == 'under_predefined' and 'status' in acc:
            acc['_status'] = json.loads(json.dumps(acc[rng.choice(list(acc))]))
    return desc


def desc_summary(desc):
    """description as the model wants it: modules, accessible names in order, which are commands"""
    return [{'name': mname, 'accs': [[aname, a['datainfo'].get('type') == 'command'] for aname, a in m['accessibles'].items()]}
            for mname, m in desc['modules'].items()]


# ----------------------------------------------------------------------------------------
# canonical forms
# ----------------------------------------------------------------------------------------
def canon(v):
    """canonical text of an imported value (types kept apart, no addresses)"""
    from frappy.lib.enum import EnumMember
    if isinstance(v, EnumMember):
        return 'enum:%s=%d' % (v.name, int(v))
    if isinstance(v, bool):
        return 'bool:%s' % v
    if isinstance(v, int):
        return 'int:%d' % v
    if isinstance(v, float):
        return 'float:%r' % v
    if isinstance(v, str):
        return 'str:' + json.dumps(v)
    if isinstance(v, bytes):
        return 'bytes:' + v.hex()
    if isinstance(v, (tuple, list)):
        return ('tuple' if isinstance(v, tuple) else 'list') + '[' + ','.join(canon(x) for x in v) + ']'
    if isinstance(v, dict):
        return 'dict{' + ','.join(json.dumps(k) + ':' + canon(x) for k, x in sorted(v.items())) + '}'
    if v is None:
        return 'none'
    return 'other:' + type(v).__name__


def q4(x):
    """a time on the 0.25 grid as the integer sent to the model; None when it is not on the grid"""
    try:
        f = float(x) * 4
    except Exception:
        return None
    if f != f or f in (float('inf'), float('-inf')) or f != int(f):
        return None
    return int(f)


def pval(v):
    """a Python value in the protocol encoding of the Lean side (ints exact, floats by bit pattern, tuple/list/dict/enum kept
    apart); something that is none of these kinds travels as a string naming its type (equal to nothing the model produces)"""
    from vlib.dtcodec import py_to_json
    try:
        return py_to_json(v)
    except Exception:
        return 'unencodable:' + type(v).__name__


def content_obs(value, readerror):
    if readerror is None:
        return ['v', pval(value)]
    e = readerror
    arg = e.args[0] if len(e.args) == 1 and isinstance(e.args[0], str) else repr(e.args)
    try:
        fmt = str(e)
    except Exception:
        fmt = None
    try:
        usable = bool(e == e) and not (e != e) and isinstance(repr(e), str)
    except Exception:
        usable = False
    return ['e', type(e).__name__, str(getattr(e, 'name', None)), arg, fmt, usable]


def key_json(key):
    return list(key) if isinstance(key, tuple) else key


def shape(action, data):
    """the data part as far as the receive loop looks into it (see Lean `Data`); glue, checked by the correspondence"""
    def tq(d):
        if 't' not in d:
            return 'absent'
        t = d['t']
        if isinstance(t, (bool, int, float)):
            if t != t:
                return 'nan'
            v = q4(t)
            return v if v is not None else 'bad-grid'
        return 'bad'
    if action.startswith('error_'):
        if isinstance(data, list) and len(data) >= 3 and isinstance(data[2], dict) and isinstance(data[1], str) \
                and not isinstance(data[0], (list, dict)):
            return ['r', data[0] if isinstance(data[0], str) else None, data[1], tq(data[2])]
        return ['x']
    if isinstance(data, list) and len(data) >= 2 and isinstance(data[1], dict):
        return ['v', pval(data[0]), tq(data[1])]        # the JSON value as json.loads delivered it
    return ['x']


# ----------------------------------------------------------------------------------------
# part (a): the real receive loop on a scripted connection
# ----------------------------------------------------------------------------------------
class Clock:
    """stands in for the `time` module inside frappy.client"""

    def __init__(self):
        self.now = 0.0

    def time(self):
        return self.now

    def sleep(self, t):
        pass


class FakeIO:
    """connection delivering scripted lines; events between lines are executed from inside readline()"""

    def __init__(self, runner):
        self.runner = runner

    def readline(self, timeout=None):
        return self.runner.next_line()

    def send(self, data):
        pass

    def writeline(self, data):
        pass

    def shutdown(self):
        pass

    def disconnect(self):
        pass


class Runner:
    def __init__(self, desc, cbs, events):
        import frappy.client as fc
        self.fc = fc
        self.cbs = {int(k): v for k, v in cbs.items()}   # cbid -> {'kind','key','behave'}
        self.events = events
        self.pos = 0
        self.steps = []           # per event {'calls': [...], 'cache': [...], 'reported': n, 'regs': [...]}
        self.calls = []
        self.reported = 0
        self.open_line = False
        self.clock = Clock()
        self.client = c = fc.SecopClient('fake://verif', log=None)
        c.activate = False
        c._init_descriptive_data(desc)
        c.register_callback(None, handleError=self._handle_error)
        c.register_callback(None, unhandledMessage=lambda *a: None)
        self.funcs = {cbid: self._make(cbid, spec) for cbid, spec in self.cbs.items()}

    def _handle_error(self, exc):
        self.reported += 1

    def _make(self, cbid, spec):
        kind, key, behave = spec['kind'], spec['key'], spec['behave']
        UnregisterCallback = self.fc.UnregisterCallback

        def act():
            for target in spec.get('removes', ()):       # the callback unregisters callbacks (itself, others) while it runs
                tspec = self.cbs[target]
                tkey = tuple(tspec['key']) if isinstance(tspec['key'], list) else tspec['key']
                tname = 'updateItem' if tspec['kind'] == 'item' else 'updateEvent'
                self.client.unregister_callback(tkey, **{tname: self.funcs[target]})
            if behave == 'raises':
                raise ValueError('callback %d raises' % cbid)
            if behave == 'unregister':
                raise UnregisterCallback()

        if kind == 'item':
            def updateItem(module, parameter, item):
                self.calls.append([cbid, kind, key, module, parameter, content_obs(item.value, item.readerror), q4(item.timestamp)])
                act()
            return updateItem

        def updateEvent(module, parameter, value, timestamp, readerror):
            self.calls.append([cbid, kind, key, module, parameter, content_obs(value, readerror), q4(timestamp)])
            act()
        return updateEvent

    def snapshot(self):
        c = self.client
        cache = [[m, p, content_obs(item.value, item.readerror), q4(item.timestamp)] for (m, p), item in c.cache.items()]
        regs = []
        for kind, name in (('item', 'updateItem'), ('event', 'updateEvent')):
            for key, lst in c.callbacks[name].items():
                ids = [cbid for f in lst for cbid, g in self.funcs.items() if g is f]
                if ids:
                    regs.append([kind, key_json(key), ids])
        self.steps.append({'calls': self.calls, 'cache': cache, 'reported': self.reported, 'regs': sorted(regs, key=json.dumps)})
        self.calls = []
        self.reported = 0

    def next_line(self):
        from frappy.lib.asynconn import ConnectionClosed
        if self.open_line:
            self.snapshot()
            self.open_line = False
        while self.pos < len(self.events):
            ev = self.events[self.pos]
            self.pos += 1
            if ev[0] == 'line':
                self.clock.now = ev[1]
                self.open_line = True
                raw = ev[2]
                return bytes.fromhex(raw['hex']) if isinstance(raw, dict) else raw.encode('utf-8')
            cbid = ev[1]
            spec = self.cbs[cbid]
            key = tuple(spec['key']) if isinstance(spec['key'], list) else spec['key']
            name = 'updateItem' if spec['kind'] == 'item' else 'updateEvent'
            if ev[0] == 'reg':
                self.client.register_callback(key, **{name: self.funcs[cbid]})
            else:
                self.client.unregister_callback(key, **{name: self.funcs[cbid]})
            self.snapshot()
        raise ConnectionClosed()

    def run(self):
        fc = self.fc
        saved = fc.time
        fc.time = self.clock
        try:
            c = self.client
            c.io = FakeIO(self)
            c._running = True
            # the real loop, in this thread; ends with ConnectionClosed.  Since the repair of the client's connect/disconnect
            # races (C11) the worker threads are handed an event `registered` and wait for it: here it is set already
            rx = c._SecopClient__rxthread
            import inspect
            gates = []
            for _ in inspect.signature(rx).parameters:
                ev = fc.Event()
                ev.set()
                gates.append(ev)
            rx(*gates)
        finally:
            fc.time = saved
            try:
                self.client.callbacks.clear()
            except Exception:
                pass
        self.died = self.pos < len(self.events) or self.open_line
        if self.died:
            # the loop died before the script ended: keep what happened visible
            while len(self.steps) < len(self.events):
                self.steps.append({'calls': [], 'cache': [], 'reported': 0, 'regs': [], 'died': True})
        return self.steps


def impl_run(desc, case):
    return Runner(desc, case['cbs'], case['events']).run()


def wire_events(case):
    """events as the model reads them: lines decoded with frappy's own decode_msg and cut to the shape the loop looks at"""
    from frappy.protocol.interface import decode_msg
    out = []
    for ev in case['events']:
        if ev[0] == 'line':
            raw = ev[2]
            data = bytes.fromhex(raw['hex']) if isinstance(raw, dict) else raw.encode('utf-8')
            try:
                action, ident, d = decode_msg(data)
                msg = [action, ident, shape(action, d) if action in UPDATE_ACTIONS else ['x']]
            except Exception:
                msg = None
            out.append(['line', q4(ev[1]), msg])
        else:
            spec = case['cbs'][str(ev[1])] if str(ev[1]) in case['cbs'] else case['cbs'][ev[1]]
            out.append([ev[0], spec['kind'], spec['key'], ev[1]])
    return out


_dt_cache = {}


def client_trees(desc, desc_key):
    """the datatypes a real client rebuilds from the description (`get_datatype` on the datainfo, the objects the receive
    loop calls `import_value` on), as trees for the datatype model: [[module, parameter, tree], ...]"""
    from vlib.dtcodec import dt_to_tree
    import frappy.client as fc
    trees = _dt_cache.get(desc_key)
    if trees is None:
        c = fc.SecopClient('fake://verif', log=None)
        c._init_descriptive_data(desc)
        trees = [[m, p, dt_to_tree(pd['datatype'])] for m, md in c.modules.items() for p, pd in md['parameters'].items()]
        c.callbacks.clear()
        _dt_cache[desc_key] = trees
    return trees


def requests_for(desc, desc_key, maps, case, steps):
    wired = wire_events(case)
    base = {'p': PROP, 'desc': desc_summary(desc), 'dts': client_trees(desc, desc_key),
            'behave': [[int(k), v['behave'], [[case['cbs'][str(x)]['kind'], case['cbs'][str(x)]['key'], x] for x in v.get('removes', ())]]
                       for k, v in case['cbs'].items()], 'evs': wired}
    obs = [{'calls': st['calls'], 'cache': st['cache']} for st in steps]
    return dict(base, k='run'), dict(base, k='judge', steps=obs), wired


def model_view(step):
    """model step output in the shape of the implementation's observation"""
    regs = {}
    for cb, kind, key in step['regs']:
        regs.setdefault(json.dumps([kind, key]), [kind, key, []])[2].append(cb)
    return {'calls': step['calls'], 'cache': step['cache'], 'reported': step['reported'],
            'regs': sorted(regs.values(), key=json.dumps)}


def impl_view(step):
    def cut(c):     # the model does not carry the `usable` flag
        return c[:5] if c and c[0] == 'e' else c
    return {'calls': [c[:5] + [cut(c[5]), c[6]] if len(c) == 7 else c for c in step['calls']],
            'cache': [[m, p, cut(c), ts] for m, p, c, ts in step['cache']],
            'reported': step['reported'], 'regs': step['regs']}


# ----------------------------------------------------------------------------------------
# generators for part (a)
# ----------------------------------------------------------------------------------------
ERR_NAMES = None


def err_names():
    global ERR_NAMES
    if ERR_NAMES is None:
        from frappy.errors import SECoPError
        ERR_NAMES = (sorted(SECoPError.name2class), sorted(k for k, v in SECoPError.clsname2class.items()
                                                          if v.__module__ == 'frappy.errors'))
    return ERR_NAMES


def gen_time(rng, now):
    r = rng.random()
    if r < 0.3:
        return now - rng.choice([0.25, 1, 7.5, 100])
    if r < 0.45:
        return now
    if r < 0.75:
        return now + rng.choice([0.25, 1, 3600, 1e6])
    return rng.choice([0, -5, 1, 0.25, 1e9])


def gen_qualifiers(rng, now):
    r = rng.random()
    if r < 0.2:
        return {}
    if r < 0.85:
        q = {'t': gen_time(rng, now)}
        if rng.random() < 0.2:
            q['e'] = 0.5
        return q
    if r < 0.9:
        return {'t': float('nan')}
    if r < 0.93:
        return {'t': rng.choice([True, False])}
    return {'t': rng.choice(['soon', None, [1], {}])}


def gen_value(rng, dinfo, wrong=0.15):
    """a wire value for a parameter described by datainfo: mostly importable"""
    from frappy.datatypes import get_datatype
    if dinfo is None or rng.random() < wrong:
        return rng.choice(['abc', None, [1, 2], {}, 5, -1.5, True, 'AAAA', [], 1e30, '!!!not base64'])
    t = dinfo.get('type')
    if t == 'double':
        lo, hi = dinfo.get('min', -100.0), dinfo.get('max', 100.0)
        marks = [x for x in FLOAT_MARKS if ('min' not in dinfo or lo <= x) and ('max' not in dinfo or x <= hi)] or [lo]
        return rng.choice([lo, hi, round(lo + (min(hi, lo + 1e6) - lo) * rng.random(), 3), int(lo), rng.choice(marks),
                           rng.choice(marks), int(rng.choice(marks))])
    if t == 'int':
        lo, hi = dinfo.get('min', -2 ** 24), dinfo.get('max', 2 ** 24)
        r = rng.random()
        if r < 0.6:
            return rng.choice(int_catalogue(rng, lo, hi))
        if r < 0.75:                                             # a whole-number float (accepted), also beyond 2**53
            return float(rng.choice(int_catalogue(rng, lo, hi)))
        if r < 0.85:                                             # outside the declared range (import does not check limits)
            return rng.choice(INT_MARKS)
        return rng.randint(lo, min(hi, lo + 1000))
    if t == 'scaled':
        return rng.randint(dinfo['min'], dinfo['max'])
    if t == 'enum':
        return rng.choice(list(dinfo['members'].values()) + list(dinfo['members']))
    if t == 'bool':
        return rng.choice([True, False, 0, 1])
    if t == 'string':
        return rng.choice(['', 'x', 'ä€', 'a b', 'q"\\'])
    if t == 'blob':
        return rng.choice(['', 'AA==', 'YWJj'])
    if t == 'array':
        n = rng.randint(dinfo.get('minlen', 0), dinfo.get('maxlen', 2))
        return [gen_value(rng, dinfo['members'], 0) for _ in range(n)]
    if t == 'tuple':
        return [gen_value(rng, d, 0) for d in dinfo['members']]
    if t == 'struct':
        return {k: gen_value(rng, d, 0) for k, d in dinfo['members'].items()}
    return rng.choice([0, 'x', None])


def gen_error_text(rng):
    names, classes = err_names()
    r = rng.random()
    body = rng.choice(['boom', 'no response', 'x: y', '', 'zwei Wörter', 'a\nb'])
    if r < 0.35:
        return body
    if r < 0.75:
        return rng.choice(classes) + ': ' + body
    if r < 0.85:
        return rng.choice(classes + ['Foo', 'ValueError', 'Fehlerä', '', 'SECoPError']) + ': ' + body + rng.choice(['', '\n'])
    if r < 0.9:
        return rng.choice(names) + ':' + body
    return rng.choice(['in m.read_x: ' + body, ' ' + rng.choice(classes) + ': ' + body, rng.choice(classes) + ' : ' + body,
                       rng.choice(classes) + ': a\n\n'])


def gen_line(rng, desc, now):
    """one scripted line (str, or {'hex': …} for undecodable bytes)"""
    names, classes = err_names()
    mods = desc['modules']
    r = rng.random()
    if r < 0.025:
        return rng.choice([{'hex': 'ff fe 75 70'.replace(' ', '')}, {'hex': b'update m:value \xc3'.hex()}])
    if r < 0.05:
        m = rng.choice(list(mods))
        return rng.choice(['update %s:value [1, {' % m, 'update %s:value {bad' % m, 'error_update %s:value ["a",' % m])
    action = rng.choice(UPDATE_ACTIONS * 6 + ['update'] * 4 + ['error_change', 'error_change', 'done', 'pong', 'active',
                                                                'error_do', 'describing', 'error_', 'Update', 'changed '])
    # identifier
    mname = rng.choice(list(mods))
    accs = mods[mname]['accessibles']
    aname = rng.choice(list(accs)) if accs else 'value'        # a module may have no accessible at all
    dinfo = accs[aname]['datainfo'] if accs else None
    r = rng.random()
    if r < 0.62:
        ident = f'{mname}:{aname}'
        if not accs:
            dinfo = None
    elif r < 0.8:
        ident = mname
        aname = 'target' if action == 'changed' else 'value'
        dinfo = accs.get(aname, {}).get('datainfo')
    elif r < 0.9:
        ident = rng.choice([f'{mname}:nosuch', f'zz:{aname}', f'{mname}:{aname[1:] or "x"}', f'{mname}:_{aname}', 'zz',
                            f'{mname}:{aname}:x', f'{mname}:', f':{aname}', mname.upper() + 'x'])
        dinfo = None
    else:
        ident = rng.choice(['.', '', 'None', '.:value', 'None:value'])
        dinfo = None
    if dinfo is not None and dinfo.get('type') == 'command':
        dinfo = None
    # data
    if action.startswith('error_'):
        r = rng.random()
        cls = rng.choice(names) if r < 0.8 else rng.choice(['FooError', 'BadValue', '', 'internalerror', 5, None, True, ['a'], {}])
        text = gen_error_text(rng) if rng.random() < 0.93 else rng.choice([5, None, ['x']])
        rep = [cls, text, gen_qualifiers(rng, now)]
        r = rng.random()
        data = rep if r < 0.88 else rng.choice([rep[:2], rep[:1], [], 'abc', {'a': 1}, 7, None, rep + ['extra'], [cls, text, 5],
                                                [cls, text, None]])
    else:
        v = gen_value(rng, dinfo)
        r = rng.random()
        data = [v, gen_qualifiers(rng, now)] if r < 0.88 else rng.choice([[v], v, None, [v, 5], [v, None], [v, {}, 'extra'], [], 'ab',
                                                                           {'0': v, '1': {}}])
    line = action + ' ' + ident if ident else action
    if data is not None:
        line += ' ' + json.dumps(data)
    return line


def gen_case(rng, desc, big):
    mods = desc['modules']
    # callbacks: ids 1..k with fixed (kind, key, behaviour)
    cbs = {}
    keys = [None]
    for m in mods:
        keys.append(m)
    params = []
    for m, md in mods.items():
        for a, acc in md['accessibles'].items():
            if acc['datainfo'].get('type') != 'command':
                iname = a[1:] if a.startswith('_') else a
                params.append([m, iname])
    keys += rng.sample(params, min(len(params), 3)) + [['zz', 'value'], 'zz']
    for cbid in range(1, rng.randint(2, 9 if big else 7)):
        cbs[str(cbid)] = {'kind': rng.choice(['item', 'event']), 'key': rng.choice(keys[:-2] * 3 + keys[-2:]),
                          'behave': rng.choice(['ok'] * 6 + ['raises', 'raises', 'unregister'])}
    for cbid, spec in cbs.items():          # some callbacks call unregister_callback while they run: for themselves, for others
        if rng.random() < 0.25:
            spec['removes'] = [int(rng.choice([cbid] + list(cbs) * 2)) for _ in range(rng.choice([1, 1, 2]))]
    events = []
    now = rng.choice([100.0, 1000.25, 5.0])
    live = []
    for cbid in rng.sample(sorted(cbs), rng.randint(0, min(3, len(cbs)))):     # mostly some observers from the start
        events.append(['reg', int(cbid)])
        live.append(int(cbid))
    n = rng.randint(3, 40 if big else 22)
    for _ in range(n):
        r = rng.random()
        if r < 0.15 and cbs:
            cbid = int(rng.choice(list(cbs)))
            events.append(['reg', cbid])
            live.append(cbid)
        elif r < 0.22 and cbs:
            cbid = rng.choice(live) if live and rng.random() < 0.8 else int(rng.choice(list(cbs)))
            events.append(['unreg', cbid])
            if cbid in live:
                live.remove(cbid)
        else:
            now += rng.choice([0, 0.25, 0.25, 1, 10, -0.5 if rng.random() < 0.1 else 2])
            events.append(['line', now, gen_line(rng, desc, now)])
    return {'cbs': cbs, 'events': events}


# ----------------------------------------------------------------------------------------
# part (c): readParameter whose wake-up is overtaken by a newer message (deterministic schedule, real functions)
# ----------------------------------------------------------------------------------------
def impl_wake(desc, case):
    """schedule: [tx parks the read request] [rx: error_read] [rx: the later lines] [caller wakes up in readParameter].
    case: {'module', 'param', 'ident', 'lines': [[now, line], ...], 'wake_now'}.  The receive loop and readParameter are the
    real ones; the transmit side is replaced by what it does (parking the entry in active_requests).
    -> {'before': cache, 'after': cache, 'calls': calls during the wake, 'raised': exception class or None}"""
    events = [['reg', 1], ['reg', 2]] + [['line', now, line] for now, line in case['lines']]
    cbs = {'1': {'kind': 'event', 'key': None, 'behave': 'ok'}, '2': {'kind': 'item', 'key': case['module'], 'behave': 'ok'}}
    r = Runner(desc, cbs, events)
    c = r.client
    entry = [('read', case['ident'], None), r.fc.Event(), None]
    c.active_requests[('reply', case['ident'])] = entry
    saved = r.fc.time
    try:
        r.run()
        r.fc.time = r.clock
        r.clock.now = case['wake_now']
        for cbid in (1, 2):     # run() cleared the registry: the two observers again, silently (the cache is not empty)
            spec = cbs[str(cbid)]
            name = 'updateItem' if spec['kind'] == 'item' else 'updateEvent'
            c.callbacks.setdefault(name, {}).setdefault(spec['key'], []).append(r.funcs[cbid])
        before = [[m, p, content_obs(item.value, item.readerror), q4(item.timestamp)] for (m, p), item in c.cache.items()]
        r.calls = []
        c.queue_request = lambda *a, **k: entry           # the request was queued before; the caller now only waits
        c.online = True
        raised = None
        try:
            c.readParameter(case['module'], case['param'])
        except Exception as e:
            raised = type(e).__name__
        after = [[m, p, content_obs(item.value, item.readerror), q4(item.timestamp)] for (m, p), item in c.cache.items()]
        return {'before': before, 'after': after, 'calls': r.calls, 'raised': raised, 'steps': r.steps}
    finally:
        r.fc.time = saved
        c.callbacks.clear()


def gen_wake(rng, desc):
    names, _classes = err_names()
    mods = desc['modules']
    cands = [m for m in mods if any(acc['datainfo'].get('type') != 'command' for acc in mods[m]['accessibles'].values())]
    if not cands:
        return None
    m = rng.choice(cands)
    params = [(a, acc) for a, acc in mods[m]['accessibles'].items() if acc['datainfo'].get('type') != 'command']
    a, acc = rng.choice(params)
    ident = f'{m}:{a}'
    now = 100.0
    lines = [[now, 'error_read %s %s' % (ident, json.dumps([rng.choice(names), gen_error_text(rng), {}]))]]
    for _ in range(rng.choice([0, 1, 1, 2])):
        now += rng.choice([0, 0.25, 1])
        r = rng.random()
        if r < 0.6:
            lines.append([now, 'update %s %s' % (ident, json.dumps([gen_value(rng, acc['datainfo'], 0.05), {'t': now}]))])
        elif r < 0.8:
            lines.append([now, 'error_update %s %s' % (ident, json.dumps([rng.choice(names), gen_error_text(rng), {'t': now}]))])
        else:
            lines.append([now, gen_line(rng, desc, now)])
    return {'module': m, 'acc': a, 'ident': ident, 'lines': lines, 'wake_now': now + rng.choice([0, 0.25, 5])}


# ----------------------------------------------------------------------------------------
# part (b): end to end over the real TCP interface
# ----------------------------------------------------------------------------------------
class Served:
    """a generated node behind the real TCPServer on a free loopback port"""

    def __init__(self, node):
        from frappy.protocol.interface.tcp import TCPServer
        self.node = node
        self.server = TCPServer('tcp', node.log.getChild('tcp'), {'uri': 'tcp://0'}, node.srv)
        self.port = self.server.server_address[1]
        self.thread = threading.Thread(target=self.server.serve_forever, kwargs={'poll_interval': 0.02}, daemon=True)
        self.thread.start()

    def close(self):
        try:
            self.server.shutdown()
        finally:
            self.server.server_close()
        self.thread.join(5)


def e2e_case(rng, nvalues, with_proxy, res, driver):
    """one generated node, `nvalues` writes through a real client (and through a proxy module in front of it); every
    observed write (value passed, what the driver's write function got and returned, what setParameter returned, the cache
    entry, its time stamp) is judged by the Lean monitor (`judge_e2e`: Spec.C12.writeOkB with Python's `==` as PVal.pyEq).
    -> list of failures {'what', 'sig', 'detail'}"""
    from frappy.client import SecopClient
    from vlib.dtcodec import fj, dt_to_tree
    fails = []
    models = []         # per pending write: request for the model's account (None: not compared)
    dlog = DriverLog()
    node, info = gen_node(rng, dlog, writable_all=True, nmods=rng.randint(1, 2))
    srv = Served(node)
    client = None
    pnode = None
    pclient = None
    pending = []        # (request for the monitor, text describing the case, detail)
    errobs = []
    try:
        client = SecopClient('localhost:%d' % srv.port, log=None)
        seen = []
        client.register_callback(None, updateEvent=lambda m, p, v, t, e: seen.append((m, p, v, t, e)))
        client.connect()
        targets = [(m, p) for m, pinfo in info.items() for p in pinfo]
        proxies = {}
        psec = None
        if with_proxy and targets:
            pnode, proxies = make_proxy_node(node, srv.port, info)
            psec = pnode.modules['sec'].secnode
        for _ in range(nvalues):
            m, p = rng.choice(targets)
            dt, gen = info[m][p]
            # a member of the value set as a caller holds it: mostly the plain Python value (an int, a name or number for an
            # enum, tuples, a dict), sometimes already converted by the datatype (as read from a cache before)
            v = gen(rng)
            if rng.random() < 0.3:
                v = dt(v)
            back = rng.choice([None, None, gen(rng)])       # the driver answers with a value of its own (plain as well)
            dlog.returns[(m, p)] = (lambda x, b=back: b) if back is not None else None
            del dlog.writes[:]
            prev = node.modules[m].parameters[p].value      # what the parameter holds: `previous` of the node's validation
            res.evaluations += 1
            res.count('e2e.type=' + type(dt).__name__)
            via = 'proxy' if proxies and rng.random() < 0.5 else 'client'
            res.count('e2e.via=' + via)
            try:
                if via == 'client':
                    cache = client.cache
                    item = client.setParameter(m, p, v)
                    got_back = item.value
                    err = item.readerror
                else:
                    cache = psec.cache          # the cache of the proxy node's own client
                    got_back = getattr(proxies[m], 'write_' + p)(v)
                    err = cache[m, p].readerror
                entry = cache[m, p]
                ts = entry.timestamp
            except Exception as e:
                fails.append({'sig': 'C12:e2e:raises:' + type(e).__name__, 'what': f'{via}: writing {v!r} to {m}:{p} ({dt!r}) raised {e!r}',
                              'detail': {'type': repr(dt), 'value': repr(v), 'via': via}})
                continue
            t_after = _time.time()
            w = [x[2] for x in dlog.writes if x[0] == m and x[1] == p]
            returned = back if back is not None else (w[0] if w else None)      # what the driver's write function returned
            req = {'p': PROP, 'k': 'judge_e2e', 'passed': pval(v), 'got': [pval(x) for x in w],
                   'returned': None if returned is None else pval(returned),
                   'ret': None if err is not None else pval(got_back),
                   'cache': None if entry.readerror is not None else pval(entry.value),
                   'ts': fj(ts) if isinstance(ts, (int, float)) and not isinstance(ts, bool) else None, 'clock': fj(t_after + 1e-6)}
            # correspondence: the datatype model's account of the same write (directly, or through the proxy module)
            cdt = (client if via == 'client' else psec).modules[m]['parameters'][p]['datatype']
            mreq = {'p': PROP, 'k': 'e2e', 'via': via, 'dt': dt_to_tree(dt), 'cdt': dt_to_tree(cdt), 'prev': pval(prev),
                    'passed': pval(v), 'ret': None if back is None else pval(back)}
            models.append(mreq)
            pending.append((req, f'{via}: wrote {v!r} to {m}:{p} ({dt!r}); driver got {w!r}, returned {returned!r}; setParameter '
                                 f'gave {got_back!r} (error {err!r}); cache has {entry!r} (ts {ts!r} vs clock {t_after!r})',
                            {'type': repr(dt), 'tname': type(dt).__name__, 'value': repr(v), 'via': via,
                             'nt': ['e2e', type(dt).__name__, canon(v), canon(returned), via]}))
        # ---- read errors: every error class of errors.py raised by a driver comes back as that class with that text
        import frappy.errors as fe
        classes = sorted((c for c in fe.SECoPError.clsname2class.values() if c.__module__ == 'frappy.errors'), key=lambda c: c.__name__)
        for cls in rng.sample(classes, 3):
            m = rng.choice(list(info))
            text = rng.choice(['boom', 'no answer: timeout', 'HardwareError: nested', ''])
            dlog.read_error = cls(text)
            res.evaluations += 1
            res.count('e2e.read_error')
            try:
                item = client.readParameter(m, 'bad')
                obs = content_obs(item.value, item.readerror)
                shown = repr(item)
            except Exception as ex:
                obs, shown = None, 'raised %r' % ex
            finally:
                dlog.read_error = None
            errobs.append(({'p': PROP, 'k': 'judge_read_error', 'pycls': cls.__name__, 'name': str(cls.name), 'text': text, 'obs': obs},
                           cls.__name__, text, m, shown))
    finally:
        for c in (client,):
            if c is not None:
                try:
                    c.disconnect()
                except Exception:
                    pass
        if pnode is not None:
            close_proxy_node(pnode)
        srv.close()
    mreqs = [r for r in models if r is not None]
    answers = driver.batch([r for r, _t, _d in pending] + [r for r, *_ in errobs] + mreqs)
    manswers = iter(answers[len(pending) + len(errobs):])
    for (req, text, detail), a, mreq in zip(pending, answers, models):
        if 'driver_error' in a:
            raise RuntimeError(f'driver error: {a} for {req}')
        if mreq is not None:
            ma = next(manswers)
            if 'driver_error' in ma:
                raise RuntimeError(f'driver error: {ma} for {mreq}')
            impl = {'got': req['got'][0] if len(req['got']) == 1 else None, 'cache': req['cache'], 'ret': req['ret']}
            if res_model_ok(res) and ma != impl:
                res.disagreements.append({'case': {'kind': 'e2e', 'what': text, 'request': mreq}, 'model': ma, 'impl': impl})
        if a['ok']:
            res.nontriv(detail.pop('nt'))
        else:
            detail.pop('nt')
            fails.append({'sig': f'C12:e2e:{a["which"]}:{detail["tname"]}', 'what': text, 'detail': detail})
    for (req, clsname, text, m, shown), a in zip(errobs, answers[len(pending):len(pending) + len(errobs)]):
        if 'driver_error' in a:
            raise RuntimeError(f'driver error: {a} for {req}')
        if a['ok']:
            res.nontriv(['e2e-read-error', clsname, text])
        else:
            fails.append({'sig': 'C12:e2e:read-error:' + clsname,
                          'what': f'driver raised {clsname}({text!r}) in read_bad of {m}; readParameter gave {shown}',
                          'detail': {'class': clsname, 'text': text}})
    return fails


def res_model_ok(res):
    return getattr(res, 'model_ok', True)


def make_proxy_node(node, port, info):
    """a second node whose modules are frappy.proxy modules for the modules of `node`"""
    from vlib.node import Node
    from frappy.proxy import proxy_class, SecNode
    cfg = {'sec': {'cls': SecNode, 'description': 'remote node', 'uri': {'value': 'localhost:%d' % port}}}
    for m in info:
        rcls = type(node.modules[m])
        cfg['px_' + m] = {'cls': proxy_class(rcls), 'description': 'proxy of ' + m, 'module': {'value': m}, 'io': {'value': 'sec'}}
    pnode = Node(cfg)
    if pnode.errors:
        raise RuntimeError(f'proxy node has errors: {pnode.errors}')
    sec = pnode.modules['sec']
    sec.secnode.connect()
    return pnode, {m: pnode.modules['px_' + m] for m in info}


def close_proxy_node(pnode):
    try:
        pnode.modules['sec'].secnode.disconnect()
    except Exception:
        pass


def leftover_threads(before):
    deadline = _time.time() + 3
    while _time.time() < deadline:
        extra = [t for t in threading.enumerate() if t not in before and t.is_alive()]
        if not extra:
            return []
        _time.sleep(0.05)
    return [t.name for t in extra]


# ----------------------------------------------------------------------------------------
def describe_bad(case, wired, idx):
    ev = wired[idx] if idx is not None and idx < len(wired) else None
    if ev is None:
        return 'end'
    if ev[0] == 'line':
        return ev[2][0] if ev[2] else 'garbage'
    return ev[0]


def judge_case(ctx, desc, desc_key, maps, case):
    steps = impl_run(desc, case)
    run_req, judge_req, wired = requests_for(desc, desc_key, maps, case, steps)
    model, verdict = ctx.driver.batch([run_req, judge_req])
    return steps, model, verdict, wired


def run(ctx):
    from vlib.node import patch_version
    patch_version()
    res = Result()
    res.rule = ('(a) generated descriptions (1..3 generated modules, custom parameters of generated datatypes, commands; synthetic '
                'variants) x generated histories (3..22 events quick: the five cache messages and other actions, full identifiers, '
                'shorthand, unknown/command/empty identifiers, importable and unimportable values, error reports of every class of '
                'errors.py, unknown classes, texts with and without class prefix, malformed data, garbage, past/future/missing/bad t, '
                'callbacks of both kinds at the three levels registered/unregistered in between, raising and self-unregistering '
                'callbacks); non-trivial = at least one effective line that called at least two callbacks, at least one line that '
                'changed nothing, and a final cache with at least one entry.  (b) generated node behind the real TCPServer: '
                'setParameter of members of the value set of every datatype, directly and through a proxy module; non-trivial = '
                'distinct (type, value, returned value, path)')
    big = ctx.tier == 'thorough' or ctx.escalated
    rng = ctx.rng

    # ---------- descriptions ----------
    descs = []
    for _ in range(10 if not big else 30):
        node, _info = gen_node(rng)
        d = json.loads(json.dumps(node.describe()))
        descs.append(d)
        if rng.random() < 0.4:
            descs.append(mutate_description(rng, d))
    answers = ctx.driver.batch([{'p': PROP, 'k': 'maps', 'desc': desc_summary(d)} for d in descs])
    all_maps = []
    for d, a in zip(descs, answers):
        if 'driver_error' in a:
            raise RuntimeError(f'driver error: {a}')
        all_maps.append(a)
        # correspondence of initDescription: the client's identifier map and parameter sets
        import frappy.client as fc
        c = fc.SecopClient('fake://verif', log=None)
        c._init_descriptive_data(d)
        impl_internal = [[k, v[0], v[1]] for k, v in c.internal.items()]
        impl_params = sorted([m, p] for m, md in c.modules.items() for p in md['parameters'])
        res.evaluations += 1
        if ctx.model_ok and (impl_internal != a['internal'] or impl_params != sorted(a['params'])):
            res.disagreements.append({'case': {'kind': 'maps', 'desc': desc_summary(d)},
                                      'model': a, 'impl': {'internal': impl_internal, 'params': impl_params}})
        c.callbacks.clear()

    # ---------- corpus first, then generated histories ----------
    cases = []
    cdir = os.path.join(ctx.verif, 'corpus', PROP)
    if os.path.isdir(cdir):
        for fn in sorted(os.listdir(cdir)):
            c = json.load(open(os.path.join(cdir, fn)))
            if c.get('kind') == 'history':
                cases.append(('corpus', c['desc'], c['case']))
    for _ in range(ctx.budget(2500, 40000)):
        i = rng.randrange(len(descs))
        cases.append((i, descs[i], gen_case(rng, descs[i], big)))

    CHUNK = 500
    shrunk = [0]
    for start in range(0, len(cases), CHUNK):
        chunk = cases[start:start + CHUNK]
        reqs, metas = [], []
        for desc_key, desc, case in chunk:
            if desc_key == 'corpus':
                maps = ctx.driver.batch([{'p': PROP, 'k': 'maps', 'desc': desc_summary(desc)}])[0]
                desc_key = 'corpus:' + json.dumps(desc_summary(desc))
            else:
                maps = all_maps[desc_key]
            steps = impl_run(desc, case)
            run_req, judge_req, wired = requests_for(desc, desc_key, maps, case, steps)
            reqs += [run_req, judge_req]
            metas.append((desc_key, desc, maps, case, steps, wired))
        answers = ctx.driver.batch(reqs)
        for j, (desc_key, desc, maps, case, steps, wired) in enumerate(metas):
            model, verdict = answers[2 * j], answers[2 * j + 1]
            res.evaluations += 1
            res.traces += 1
            if 'driver_error' in model or 'driver_error' in verdict:
                raise RuntimeError(f'driver error: {model} {verdict} for {json.dumps(case)[:2000]}')
            # distribution
            eff = idle = 0
            prev_cache = []
            for ev, st in zip(wired, steps):
                if ev[0] == 'line':
                    res.count('line.cache=' + ('changed' if st['cache'] != prev_cache else 'same'))
                    kind = ev[2][0] if ev[2] else 'garbage'
                    res.count('line.' + (kind if kind in UPDATE_ACTIONS + ['garbage', 'error_change'] else 'other'))
                    if ev[2] and ev[2][2][0] == 'v' and st['cache'] != prev_cache:       # an imported value: which kind
                        jv = ev[2][2][1]
                        res.count('imported.' + ('int>2**53' if isinstance(jv, int) and not isinstance(jv, bool) and abs(jv) > 2 ** 53
                                                 else 'float' if isinstance(jv, dict) and 'f' in jv
                                                 else 'object' if isinstance(jv, dict) else type(jv).__name__))
                    if len(st['calls']) >= 2:
                        eff += 1
                    if not st['calls'] and not st['reported']:
                        idle += 1
                    res.count('line.outcome=' + ('calls' if st['calls'] else 'reported' if st['reported'] else 'silent'))
                else:
                    res.count('ev.' + ev[0])
                    if ev[0] == 'reg':
                        res.count('reg.immediate_calls=%s' % min(len(st['calls']), 3))
                prev_cache = st['cache']
            res.count('case.callbacks_unregistering_inside=%d' % min(3, sum(1 for v in case['cbs'].values() if v.get('removes'))))
            if eff and idle and steps and steps[-1]['cache']:
                res.nontriv(wired)
            if len(res.samples) < 3 and eff and len(case['events']) <= 6:
                res.samples.append({'kind': 'history', 'events': case['events'], 'callbacks': case['cbs'],
                                    'final_cache': steps[-1]['cache'] if steps else []})
            # correspondence, per event
            if ctx.model_ok:
                for i, (ms, st) in enumerate(zip(model['steps'], steps)):
                    mv, iv = model_view(ms), impl_view(st)
                    if mv != iv:
                        res.disagreements.append({'case': {'kind': 'history', 'desc': desc, 'case': case}, 'event': i,
                                                  'wired': wired[i], 'model': mv, 'impl': iv})
                        break
            if any(st.get('died') for st in steps):
                res.violations.append({'sig': 'C12:rx-loop-died', 'what': f'the receive loop ended before the scripted lines did: {case["events"]}',
                                       'case': {'kind': 'history', 'desc': desc, 'case': case}})
                continue
            # judge
            if verdict['bad'] is not None:
                def fails(events, cbs=case['cbs'], desc=desc, desc_key=desc_key, maps=maps):
                    _s, _m, v, _w = judge_case(ctx, desc, desc_key, maps, {'cbs': cbs, 'events': events})
                    return v.get('bad') is not None and v.get('clause') == verdict['clause']
                if shrunk[0] < 3:
                    small = ddmin(case['events'], fails, max_tests=120)
                    scase = {'cbs': case['cbs'], 'events': small}
                    ssteps, _m, sv, swired = judge_case(ctx, desc, desc_key, maps, scase)
                else:       # enough minimised examples: keep the rest as found
                    small, scase, ssteps, sv, swired = case['events'], case, steps, verdict, wired
                shrunk[0] += 1
                where = describe_bad(scase, swired, sv.get('bad'))
                res.violations.append({'sig': f'C12:{sv.get("clause") or verdict["clause"]}:{where}',
                                       'what': f'history breaks the first sentence of C12 ({sv.get("clause")}) at event {sv.get("bad")}: '
                                               f'events={small} observed={ssteps[sv["bad"]] if sv.get("bad") is not None and sv["bad"] < len(ssteps) else None}',
                                       'case': {'kind': 'history', 'desc': desc, 'case': scase},
                                       'detail': {'original_events': case['events'], 'verdict': verdict}})

    # ---------- (c) readParameter waking up after newer messages ----------
    import frappy.client as fc
    wcases = []
    if os.path.isdir(cdir):
        for fn in sorted(os.listdir(cdir)):
            c = json.load(open(os.path.join(cdir, fn)))
            if c.get('kind') == 'wake':
                wcases.append((c['desc'], c['case']))
    for _ in range(ctx.budget(150, 3000)):
        d = rng.choice(descs)
        w = gen_wake(rng, d)
        if w is not None:
            wcases.append((d, w))
    reqs, metas = [], []
    for desc, case in wcases:
        cl = fc.SecopClient('fake://verif', log=None)
        cl._init_descriptive_data(desc)
        inames = [k[1] for k, v in cl.identifier.items() if v == case['ident']]
        cl.callbacks.clear()
        if not inames:
            continue
        case = dict(case, param=inames[0])
        obs = impl_wake(desc, case)
        reqs.append({'p': PROP, 'k': 'judge_wake', 'before': obs['before'], 'after': obs['after'], 'calls': obs['calls']})
        metas.append((desc, case, obs))
    answers = ctx.driver.batch(reqs)
    for (desc, case, obs), a in zip(metas, answers):
        res.evaluations += 1
        res.traces += 1
        res.count('wake.later_lines=%d' % (len(case['lines']) - 1))
        if 'driver_error' in a:
            raise RuntimeError(f'driver error: {a}')
        changed = obs['before'] != obs['after']
        res.count('wake.' + ('cache-changed' if changed else 'calls' if obs['calls'] else 'raised' if obs['raised'] else 'quiet'))
        if len(case['lines']) > 1:
            res.nontriv(['wake', case['lines']])
        if obs['raised']:
            res.violations.append({'sig': 'C12:wake:raises:' + obs['raised'],
                                   'what': f'readParameter raised {obs["raised"]} after the error reply {case["lines"][0][1]!r}',
                                   'case': {'kind': 'wake', 'desc': desc, 'case': case}})
        elif not a['ok']:
            res.violations.append({'sig': 'C12:wake:stale-error-rewritten',
                                   'what': 'readParameter woke up after newer messages and wrote the error of its (older) error reply '
                                           f'over them / called the callbacks a second time: lines={case["lines"]} cache before wake='
                                           f'{obs["before"]} after={obs["after"]} calls during wake={obs["calls"]}',
                                   'case': {'kind': 'wake', 'desc': desc, 'case': case}})

    # ---------- (b) end to end (implementation only) ----------
    before = set(threading.enumerate())
    nvals = ctx.budget(200, 5000)
    per_node = 10
    done = 0
    import random
    idx = 0
    res.model_ok = ctx.model_ok
    while done < nvals:
        sub = f'{PROP}:e2e:{ctx.seed}:{int(ctx.escalated)}:{ctx.tier}:{idx}'      # every node has its own PRNG: replayable alone
        with_proxy = idx % 2 == 1
        fails = e2e_case(random.Random(sub), per_node, with_proxy=with_proxy, res=res, driver=ctx.driver)
        idx += 1
        done += per_node
        res.traces += per_node
        for f in fails:
            res.violations.append({'sig': f['sig'], 'what': f['what'],
                                   'case': {'kind': 'e2e', 'sub': sub, 'nvalues': per_node, 'with_proxy': with_proxy, 'sig': f['sig']},
                                   'detail': f['detail']})
    left = leftover_threads(before)
    if left:
        res.notes.append(f'threads still alive after the end-to-end part: {left}')
    res.notes.append('part (b) (real TCPServer + SecopClient + proxy) is a test supporting e2e_write/e2e_read, not a proof')
    return res


def replay(ctx, rp):
    from vlib.node import patch_version
    patch_version()
    case = rp['case']
    if case['kind'] == 'e2e':
        import random
        fails = e2e_case(random.Random(case['sub']), case['nvalues'], with_proxy=case['with_proxy'], res=Result(), driver=ctx.driver)
        for f in fails:
            print(f['sig'], '-', f['what'])
        same = [f for f in fails if f['sig'] == case.get('sig')]
        print(f'{len(fails)} end-to-end failures on this generated node, {len(same)} with the recorded signature {case.get("sig")}')
        return 1 if same else 0
    if case['kind'] == 'wake':
        obs = impl_wake(case['desc'], case['case'])
        a = ctx.driver.batch([{'p': PROP, 'k': 'judge_wake', 'before': obs['before'], 'after': obs['after'], 'calls': obs['calls']}])[0]
        print('lines (processed by the receive loop before the caller of readParameter wakes up):')
        for now, line in case['case']['lines']:
            print('   ', now, line)
        print('cache before the wake-up:', json.dumps(obs['before']))
        print('cache after the wake-up :', json.dumps(obs['after']))
        print('calls during the wake-up:', json.dumps(obs['calls']), ' raised:', obs['raised'])
        print('judge :', a)
        return 0 if a.get('ok') and not obs['raised'] else 1
    desc = case['desc']
    maps = ctx.driver.batch([{'p': PROP, 'k': 'maps', 'desc': desc_summary(desc)}])[0]
    steps, model, verdict, wired = judge_case(ctx, desc, 'replay', maps, case['case'])
    for i, (ev, st) in enumerate(zip(wired, steps)):
        print(f'event {i}: {case["case"]["events"][i]}')
        print('   as the model reads it:', json.dumps(ev))
        print('   impl :', json.dumps(impl_view(st)))
        if 'steps' in model:
            print('   model:', json.dumps(model_view(model['steps'][i])))
    print('judge :', verdict)
    return 0 if verdict.get('bad') is None else 1
