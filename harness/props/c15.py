"""C15 — running the real frappy lifecycle for one generated configuration (implementation side only).

A case is JSON-able:
  {'mods': [spec, ...],           static modules in declaration order
   'dyn':  [spec, ...],           modules that only exist as the product of a Pinata's scanModules
   'sched': None | [choices]}     schedule prefix for vlib.sched (None: never preempt)
  spec = {'name', 'cls': 'L'|'IO'|'HIO'|'PIN', 'export': bool, 'poll': bool, 'writes': [pname],
          'atts': [[aname, target|None, mandatory, kind]], 'te': [aname], 'ti': [aname], 'fe': bool, 'fi': bool,
          'uri': str|None, 'scan': [name], 'delay': seconds}
kinds: 0 = any Module, 1 = Communicator.  'HIO' is a frappy.io.HasIO user (attachment `io`, optional `uri`).

The real `Server._processCfg` is run (unbound, on a stub carrying exactly the attributes it reads) inside a managed thread of
vlib.sched: poll threads are the scheduler's threads, the clock is virtual, and `frappy.lib.multievent` is re-executed from its
source with the scheduler's `threading`/`time` (MultiEvent subclasses threading.Event at import time, so attribute patching does
not reach it).  Afterwards `SecNode.shutdown_modules` is called, as `Server.run` does.
"""
import io as _io
import re
import sys
import types

from vlib import sched as vsched
from vlib.node import patch_version

ATT_NAMES = ['a0', 'a1', 'a2', 'a3', 'a4']
WRITE_NAMES = ['w0', 'w1']
TIMEOUT = 30           # Server._processCfg: MultiEvent(default_timeout=30)

_state = types.SimpleNamespace(log=None, specs=None, sched=None, seen_poll=None)
_classes = {}
AUTO_SPEC = {'te': [], 'ti': [], 'fe': False, 'fi': False, 'delay': 0}      # automatically created communicators


def _ev(*item):
    _state.log.append(list(item))


def _touch(self, names):
    for a in names:
        mod = getattr(self, a)
        if mod is not None:
            _ev('get', self.name, a, mod.name)


class Instr:
    """every lifecycle method logs, then calls super()"""

    def earlyInit(self):
        sp = _state.specs.get(self.name, AUTO_SPEC)
        _ev('early', self.name)
        super().earlyInit()
        _touch(self, sp['te'])
        if sp['fe']:
            raise ValueError('early init fails')

    def initModule(self):
        sp = _state.specs.get(self.name, AUTO_SPEC)
        _ev('init', self.name)
        super().initModule()
        _touch(self, sp['ti'])
        if sp['fi']:
            raise ValueError('late init fails')

    def startModule(self, start_events):
        _ev('start', self.name)
        super().startModule(start_events)

    def stopPollThread(self):
        if self.name not in _state.stopped:       # joinPollThread calls it a second time
            _state.stopped.add(self.name)
            _ev('stopPoll', self.name)
        super().stopPollThread()

    def shutdownModule(self):
        _ev('shutdown', self.name)
        super().shutdownModule()

    def read_pv(self):
        if self.name not in _state.seen_poll:
            _state.seen_poll.add(self.name)
            _ev('firstpoll', self.name)
            d = _state.specs.get(self.name, AUTO_SPEC).get('delay') or 0
            if d:
                import frappy.modulebase
                frappy.modulebase.time.sleep(d)
        return 0.0


def _make_write(pname):
    def write(self, value):
        _ev('write', self.name, pname)
        return value
    write.__name__ = 'write_' + pname
    return write


def get_class(spec):
    from frappy.modules import Attached, Communicator, Readable, Parameter, Module, Property
    from frappy.datatypes import FloatRange, StringType
    from frappy.io import HasIO
    from frappy.dynamic import Pinata
    kind = spec['cls']
    key = (kind, spec['poll'], tuple((a, bool(m), int(k)) for a, _t, m, k in spec['atts']))
    cls = _classes.get(key)
    if cls is not None:
        return cls
    if 'IOC' not in _classes:
        ns = {'pv': Parameter('polled', FloatRange(), default=0), 'read_pv': Instr.read_pv, 'enablePoll': True}
        ions = {'uri': Property('uri of the automatically created communicator', StringType(), default='')}
        for w in WRITE_NAMES:
            ns[w] = Parameter('written', FloatRange(), readonly=False, default=0)
            ns['write_' + w] = _make_write(w)
        _classes['ns'] = ns
        # the communicator class that HasIO users create on their own
        _classes['IOC'] = type('AutoIO', (Instr, Communicator), dict(ns, **ions))
    ns = dict(_classes['ns'])
    ns['enablePoll'] = bool(spec['poll'])
    kinds = {0: Module, 1: Communicator}
    for a, _t, m, k in spec['atts']:
        if a != 'io':
            ns[a] = Attached(kinds[k], mandatory=bool(m))
    if kind == 'PIN':
        def scanModules(self):
            for n in _state.specs[self.name]['scan']:
                yield n, cfg_of(_state.specs[n])
        ns['scanModules'] = scanModules
    if kind == 'HIO':
        ns['ioClass'] = _classes['IOC']
    bases = {'L': (Instr, Readable), 'IO': (Instr, Communicator), 'HIO': (Instr, HasIO, Readable),
             'PIN': (Instr, Pinata)}[kind]
    cls = type('C15_%s_%d' % (kind, len(_classes)), bases, ns)
    _classes[key] = cls
    return cls


def cfg_of(spec):
    cfg = {'cls': get_class(spec), 'description': spec['name']}
    if spec['cls'] == 'PIN':
        if spec['export']:
            cfg['export'] = True
    elif not spec['export']:
        cfg['export'] = False
    for a, target, _m, _k in spec['atts']:
        if target is not None:
            cfg[a] = target
    if spec.get('uri'):
        cfg['uri'] = spec['uri']
    for w in spec['writes']:
        cfg[w] = {'value': 1.5}
    return cfg


class LoggerStub:
    def __init__(self):
        self.parent = self
        self.handlers = []

    def _nop(self, *args, **kwds):
        pass

    debug = info = warning = warn = error = exception = critical = log = _nop

    def getChild(self, *args, **kwds):
        return self

    def addHandler(self, *args):
        pass

    def setLevel(self, *args):
        pass

    def isEnabledFor(self, *args):
        return False


def sched_multievent(s):
    """the real frappy/lib/multievent.py, executed with the scheduler's threading/time"""
    import frappy.lib.multievent as me

    class _Event(vsched.SEvent):
        def __init__(self):
            vsched.SEvent.__init__(self, s)

    shim = types.SimpleNamespace(Event=_Event, RLock=s.threading.RLock, Lock=s.threading.Lock)
    mod = types.ModuleType('frappy_lib_multievent_sched')
    with open(me.__file__) as f:
        src = f.read()
    saved = {k: sys.modules.get(k) for k in ('threading', 'time')}
    sys.modules['threading'] = shim
    sys.modules['time'] = s.time
    try:
        exec(compile(src, me.__file__, 'exec'), mod.__dict__)   # noqa: S102  (the repository's own source)
    finally:
        for k, v in saved.items():
            sys.modules[k] = v
    return mod.MultiEvent


ERR_INIT = re.compile(r'error initializing (\S+): (\w+)\(')
ERR_CREATE = re.compile(r'error creating (?:module )?(\S+?):?$')


def error_classes(errors):
    """observation of SecNode.errors: classes only"""
    out = []
    for e in errors:
        mo = ERR_INIT.match(e)
        if mo:
            out.append(['init', mo.group(1), mo.group(2)])
            continue
        mo = ERR_CREATE.match(e)
        if mo:
            out.append(['create', mo.group(1), ''])
            continue
        if e.startswith('  '):
            continue
        if 'was not called' in e:
            out.append(['nosuper', '', ''])
            continue
        out.append(['other', '', e.split(' ')[0][:20]])
    return out


def run_case(case, policy=None, max_steps=200000):
    """-> observation dict (JSON-able)"""
    import frappy.modulebase
    import frappy.secnode
    import frappy.server
    import frappy.io
    from frappy.lib import generalConfig
    patch_version()
    generalConfig.testinit()
    frappy.io.HasIO.ioDict.clear()        # O02: class-level dictionary shared by every node of the process
    specs = {sp['name']: sp for sp in case['mods'] + case.get('dyn', [])}
    log = []
    _state.log, _state.specs, _state.seen_poll, _state.stopped = log, specs, set(), set()
    if policy is None:
        policy = vsched.ReplayThenDefault(case.get('sched') or [])
    s = vsched.Scheduler(policy=policy, max_steps=max_steps)
    _state.sched = s
    out = {'log': log, 'errors': [], 'modules': [], 'edges': [], 'exit': None, 'crash': None, 'threads': [],
           'waited': None, 'timedout': []}
    MultiEvent = sched_multievent(s)

    class LoggedMultiEvent(MultiEvent):
        def get_trigger(self, timeout=None, name=None):
            tname = (name or self.name or '').replace('module ', '')
            trig = super().get_trigger(timeout, name)
            _ev('thread', tname)
            out['threads'].append(tname)

            def fire():
                _ev('rounddone', tname)
                trig()
            return fire

        def wait(self, timeout=None):
            t0 = s.now
            ok = super().wait(timeout)
            out['waited'] = round(s.now - t0, 3)
            if not ok:
                out['timedout'] = sorted(n.replace('module ', '') for n in self.waiting_for())
            return ok

    stub = types.SimpleNamespace(
        name='node', log=LoggerStub(), _testonly=False,
        node_cfg={'cls': 'frappy.protocol.dispatcher.Dispatcher', 'description': 'c15'},
        module_cfg={sp['name']: cfg_of(sp) for sp in case['mods']},
        restart=None, shutdown=None, secnode=None, dispatcher=None)
    fake_sys = types.SimpleNamespace(stderr=_io.StringIO(), exit=sys.exit)

    def main():
        try:
            try:
                frappy.server.Server._processCfg(stub)
                for n in out['timedout']:
                    _ev('timeout', n)
                _ev('ready')
            except SystemExit as e:
                out['exit'] = e.code
                _ev('exit')
            sn = stub.secnode
            out['errors'] = error_classes(sn.errors)
            out['modules'] = list(sn.modules)
            if out['exit'] is None:
                # let every first round finish (virtual time), then shut down as Server.run does
                total = sum((sp.get('delay') or 0) for sp in specs.values())
                s.time.sleep(total + 1)
                out['edges'] = sorted([u, m.name] for u, mo in sn.modules.items() for m in mo.attachedModules.values())
                _ev('shutdownbegin')
                sn.shutdown_modules()
        except vsched.SchedAbort:
            raise
        except BaseException as e:  # noqa: a crash of the lifecycle is an observation
            out['crash'] = type(e).__name__
        finally:
            if out['exit'] is not None or out['crash']:
                s.stop('process exit')      # daemon poll threads die with the process

    with s.patched(frappy.modulebase, threading=s.threading, time=s.time, mkthread=s.mkthread), \
            s.patched(frappy.secnode, time=s.time), \
            s.patched(frappy.server, MultiEvent=LoggedMultiEvent, sys=fake_sys):
        s.spawn('main', main)
        r = s.run(wall_timeout=20.0)
    out['sched'] = {'deadlock': r['deadlock'], 'aborted': r['aborted'], 'errors': r['errors'], 'alive': r['alive'],
                    'steps': r['steps']}
    out['choices'] = [c for _n, c, _d in s.choices]
    return out
