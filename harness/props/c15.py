"""C15 — running the real frappy lifecycle for one generated configuration (implementation side only).

A case is JSON-able:
  {'mods': [spec, ...],           static modules in declaration order
   'dyn':  [spec, ...],           modules that only exist as the product of a Pinata's scanModules
   'sched': None | [choices],     schedule prefix for vlib.sched (None: never preempt)
   'rounds': n,                   optional: turns of the loop of Server.run on the same Server object (restart), default 1
   'share': bool}                 optional: equal parameter dictionaries of the configuration are ONE Param object
  spec = {'name', 'cls': 'L'|'IO'|'HIO'|'PIN', 'export': bool, 'poll': bool,
          'params': [[pname, has_write, cls_default, cls_value, cfg_default, cfg_value(, needscfg, bad)]],   parameters of the class, in the order of
                    its accessibles: is there a write_<pname> method, Parameter(default=, value=) of the declaration and
                    `default` / `value` given in the configuration (small integers or None = not given); optionally
                    Parameter(needscfg=True) and "the value given in the configuration is not of the datatype"
                    (cases recorded earlier have 'writes': [pname] instead = [pname, True, 0, None, None, 1] each)
          'atts': [[aname, target|None, mandatory, kind]], 'te': [aname], 'ti': [aname], 'fe': bool, 'fi': bool,
          'uri': str|None, 'scan': [name], 'delay': seconds,
          'wfail': [[pname, exception class name]],      start-up faults: write_<pname> raises (optional field)
          'rfail': class name|None, 'pfail': class name|None}    initialReads / the first poll raises (optional fields)
kinds: 0 = any Module, 1 = Communicator.  'HIO' is a frappy.io.HasIO user (attachment `io`, optional `uri`).

The real `Server._processCfg` is run (unbound, on a stub carrying exactly the attributes it reads) inside a managed thread of
vlib.sched: poll threads are the scheduler's threads, the clock is virtual, and `frappy.lib.multievent` is re-executed from its
source with the scheduler's `threading`/`time` (MultiEvent subclasses threading.Event at import time, so attribute patching does
not reach it).  Afterwards `SecNode.shutdown_modules` is called, as `Server.run` does.
"""
import io as _io
import json
import os
import random
import re
import sys
import time
import types

from check import Result
from vlib.shrink import ddmin

from vlib import sched as vsched
from vlib.node import patch_version

ATT_NAMES = ['a0', 'a1', 'a2', 'a3', 'a4']
WRITE_NAMES = ['w0', 'w1', 'w2']
FAULT_CLASSES = ['HardwareError', 'CommunicationFailedError', 'SilentCommunicationFailedError', 'RuntimeError', 'ValueError']
TIMEOUT = 30           # Server._processCfg: MultiEvent(default_timeout=30)

_state = types.SimpleNamespace(log=None, specs=None, sched=None, seen_poll=None, written=None, unready=None)
_classes = {}
AUTO_SPEC = {'te': [], 'ti': [], 'fe': False, 'fi': False, 'delay': 0}      # automatically created communicators


def _ev(*item):
    _state.log.append(list(item))


def _touch(self, names):
    for a in names:
        mod = getattr(self, a)
        if mod is not None:
            _ev('get', self.name, a, mod.name)
            # the state of the module object the user is handed, at this very moment (not what the log says about it)
            if not (mod.earlyInitDone and mod.initModuleDone and mod._isinitialized):   # noqa: protected access = observation
                _state.unready.append([self.name, a, mod.name])


class Instr:
    """every lifecycle method logs, then calls super()"""

    def earlyInit(self):
        sp = _state.specs.get(self.name, AUTO_SPEC)
        _ev('early', self.name)
        super().earlyInit()
        _touch(self, sp['te'])
        if sp['fe']:
            raise ValueError('early init fails')

    def initModule(self):
        sp = _state.specs.get(self.name, AUTO_SPEC)
        _ev('init', self.name)
        super().initModule()
        _touch(self, sp['ti'])
        if sp['fi']:
            raise ValueError('late init fails')

    def startModule(self, start_events):
        _ev('start', self.name)
        super().startModule(start_events)

    def stopPollThread(self):
        _ev('stopPoll', self.name)                 # every call (joinPollThread calls it a second time)
        super().stopPollThread()

    def shutdownModule(self):
        _state.shutdown_seen = True
        _ev('shutdown', self.name)
        super().shutdownModule()

    def initialReads(self):
        _ev('initread', self.name)
        super().initialReads()
        _raise_fault(self.name, _state.specs.get(self.name, AUTO_SPEC).get('rfail'))

    def read_pv(self):
        if _state.shutdown_seen:
            _ev('latepoll', self.name)            # a poll thread is still working after a module was shut down
        if self.name not in _state.seen_poll:
            _state.seen_poll.add(self.name)
            _ev('firstpoll', self.name)
            sp = _state.specs.get(self.name, AUTO_SPEC)
            d = sp.get('delay') or 0
            if d:
                import frappy.modulebase
                frappy.modulebase.time.sleep(d)
            _raise_fault(self.name, sp.get('pfail'))
        return 0.0


def _fault(clsname):
    """the exception a faulty driver / device raises"""
    import frappy.errors
    cls = getattr(frappy.errors, clsname, None) or {'RuntimeError': RuntimeError, 'ValueError': ValueError}[clsname]
    return cls('injected fault')


COMM_CLASSES = ('CommunicationFailedError', 'SilentCommunicationFailedError')


def _raise_fault(modname, clsname):
    """fault of the environment in initialReads / the first poll; a communication failure is part of the observation"""
    if clsname:
        if clsname in COMM_CLASSES:
            _ev('comfail', modname)
        raise _fault(clsname)


def _canon_value(value):
    # values are small integers (as floats after the datatype); anything else is reported as it is, scaled
    return int(value) if float(value) == int(value) else int(round(float(value) * 1000)) + 10 ** 6


def _make_write(pname):
    def write(self, value):
        _ev('write', self.name, pname)          # the attempt: the value reaches the driver
        _state.written.append([self.name, pname, _canon_value(value)])
        for p, clsname in _state.specs.get(self.name, AUTO_SPEC).get('wfail') or ():
            if p == pname:
                raise _fault(clsname)           # the device refuses / the driver code is broken
        return value
    write.__name__ = 'write_' + pname
    return write


def legacy_param(pname):
    """a parameter as every case configured it before parameters became part of a case: write method, declared default 0,
    value 1 given in the configuration"""
    return [pname, True, 0, None, None, 1]


def params_of(spec):
    if 'params' in spec:
        return spec['params']
    return [legacy_param(w) for w in spec.get('writes', [])]


def start_params(spec):
    """generator-side helper only (which write faults make sense): parameters the configuration gives a value for"""
    return [q[0] for q in params_of(spec) if q[1] and (q[5] is not None or q[3] is not None)]


def get_class(spec):
    from frappy.modules import Attached, Communicator, Readable, Parameter, Module, Property
    from frappy.datatypes import FloatRange, StringType
    from frappy.io import HasIO
    from frappy.dynamic import Pinata
    kind = spec['cls']
    pkey = tuple((q[0], bool(q[1]), q[2], q[3], bool(q[6]) if len(q) > 6 else False) for q in params_of(spec))
    key = (kind, spec['poll'], tuple((a, bool(m), int(k)) for a, _t, m, k in spec['atts']), pkey)
    cls = _classes.get(key)
    if cls is not None:
        return cls
    if 'IOC' not in _classes:
        ns = {'pv': Parameter('polled', FloatRange(), default=0), 'read_pv': Instr.read_pv, 'enablePoll': True}
        ions = {'uri': Property('uri of the automatically created communicator', StringType(), default='')}
        _classes['ns'] = ns
        # the communicator class that HasIO users create on their own
        _classes['IOC'] = type('AutoIO', (Instr, Communicator), dict(ns, **ions))
    ns = dict(_classes['ns'])
    for pname, has_write, cls_default, cls_value, needscfg in pkey:
        kwds = {'needscfg': True} if needscfg else {}
        if cls_default is not None:
            kwds['default'] = cls_default
        if cls_value is not None:
            kwds['value'] = cls_value
        ns[pname] = Parameter('written', FloatRange(), readonly=False, **kwds)
        if has_write:
            ns['write_' + pname] = _make_write(pname)
    ns['enablePoll'] = bool(spec['poll'])
    kinds = {0: Module, 1: Communicator}
    for a, _t, m, k in spec['atts']:
        if a != 'io':
            ns[a] = Attached(kinds[k], mandatory=bool(m))
    if kind == 'PIN':
        def scanModules(self):
            for n in _state.specs[self.name]['scan']:
                yield n, cfg_of(_state.specs[n])
        ns['scanModules'] = scanModules
    if kind == 'HIO':
        ns['ioClass'] = _classes['IOC']
    bases = {'L': (Instr, Readable), 'IO': (Instr, Communicator), 'HIO': (Instr, HasIO, Readable),
             'PIN': (Instr, Pinata)}[kind]
    cls = type('C15_%s_%d' % (kind, len(_classes)), bases, ns)
    _classes[key] = cls
    return cls


def cfg_of(spec):
    cfg = {'cls': get_class(spec), 'description': spec['name']}
    if spec['cls'] == 'PIN':
        if spec['export']:
            cfg['export'] = True
    elif not spec['export']:
        cfg['export'] = False
    for a, target, _m, _k in spec['atts']:
        if target is not None:
            cfg[a] = target
    if spec.get('uri'):
        cfg['uri'] = spec['uri']
    for q in params_of(spec):
        pname, cfg_default, cfg_value = q[0], q[4], q[5]
        pcfg = {}
        if cfg_default is not None:
            pcfg['default'] = cfg_default
        if cfg_value is not None:
            pcfg['value'] = 'not a number' if len(q) > 7 and q[7] else cfg_value
        if pcfg:
            cfg[pname] = pcfg
    return cfg


class LoggerStub:
    def __init__(self):
        self.parent = self
        self.handlers = []

    def _nop(self, *args, **kwds):
        pass

    debug = info = warning = warn = error = exception = critical = log = _nop

    def getChild(self, *args, **kwds):
        return self

    def addHandler(self, *args):
        pass

    def setLevel(self, *args):
        pass

    def isEnabledFor(self, *args):
        return False


def sched_multievent(s, metrace):
    """the real frappy/lib/multievent.py, executed with the scheduler's threading/time.  The lock and the event of
    the MultiEvent record every EFFECT (not the yield point before it) in `metrace`: (thread, what)"""
    import frappy.lib.multievent as me

    def who():
        t = s.me()
        return t.name if t is not None else 'main'

    class _Event(vsched.SEvent):
        def __init__(self):
            vsched.SEvent.__init__(self, s, 'ME.event')

        def set(self):
            vsched.SEvent.set(self)
            metrace.append([who(), 'evset'])

        def clear(self):
            vsched.SEvent.clear(self)
            metrace.append([who(), 'evclear'])

    class _Lock(vsched.SLock):
        def __init__(self):
            vsched.SLock.__init__(self, s, 'ME.lock', reentrant=True)

        def acquire(self, blocking=True, timeout=-1):
            ok = vsched.SLock.acquire(self, blocking, timeout)
            if ok and self.depth == 1:
                metrace.append([who(), 'lock'])
            return ok

        def release(self):
            vsched.SLock.release(self)
            if self.depth == 0:
                metrace.append([who(), 'unlock'])

        __enter__ = acquire

        def __exit__(self, *exc):
            self.release()
            return False

    shim = types.SimpleNamespace(Event=_Event, RLock=_Lock, Lock=s.threading.Lock)
    mod = types.ModuleType('frappy_lib_multievent_sched')
    with open(me.__file__) as f:
        src = f.read()
    saved = {k: sys.modules.get(k) for k in ('threading', 'time')}
    sys.modules['threading'] = shim
    sys.modules['time'] = s.time
    try:
        exec(compile(src, me.__file__, 'exec'), mod.__dict__)   # noqa: S102  (the repository's own source)
    finally:
        for k, v in saved.items():
            sys.modules[k] = v
    return mod.MultiEvent


ERR_INIT = re.compile(r'error initializing (\S+): (\w+)\(')
ERR_CREATE = re.compile(r'error creating (?:module )?(\S+?):?$')


def error_classes(errors):
    """observation of SecNode.errors: classes only"""
    out = []
    for e in errors:
        mo = ERR_INIT.match(e)
        if mo:
            # SECoPError.__repr__ prints the SECoP error class name: a ConfigError shows as InternalError
            out.append(['init', mo.group(1), {'InternalError': 'ConfigError'}.get(mo.group(2), mo.group(2))])
            continue
        mo = ERR_CREATE.match(e)
        if mo:
            out.append(['create', mo.group(1), ''])
            continue
        if e.startswith('  '):
            continue
        if 'was not called' in e:
            out.append(['nosuper', '', ''])
            continue
        out.append(['other', '', e.split(' ')[0][:20]])
    return out


def run_case(case, policy=None, max_steps=200000):
    """-> observation dict (JSON-able)"""
    import frappy.modulebase
    import frappy.secnode
    import frappy.server
    import frappy.io
    from frappy.lib import generalConfig
    patch_version()
    generalConfig.testinit()
    frappy.io.HasIO.ioDict.clear()        # O02: class-level dictionary shared by every node of the process
    specs = {sp['name']: sp for sp in case['mods'] + case.get('dyn', [])}
    _state.specs = specs
    if policy is None:
        policy = vsched.ReplayThenDefault(case.get('sched') or [])
    s = vsched.Scheduler(policy=policy, max_steps=max_steps)
    _state.sched = s
    nrounds = max(1, int(case.get('rounds') or 1))
    outs = []
    out = None
    metrace = []               # of all rounds; every round keeps its part
    MultiEvent = sched_multievent(s, metrace)
    handles = {}

    def begin_round():
        nonlocal out
        out = {'log': [], 'errors': [], 'modules': [], 'edges': [], 'exit': None, 'crash': None, 'threads': [],
               'waited': None, 'timedout': [], 'metrace': [], 'written': [], 'unready': [], 'ioDict': [],
               'round': len(outs), 'me0': len(metrace)}
        outs.append(out)
        _state.log, _state.seen_poll, _state.shutdown_seen = out['log'], set(), False
        _state.written, _state.unready = out['written'], out['unready']
        handles.clear()

    def mkthread(func, *args, **kwds):
        # the poll threads that really exist, by the module that owns them
        h = s.mkthread(func, *args, **kwds)
        handles[getattr(getattr(func, '__self__', None), 'name', h.name)] = h
        return h

    class LoggedMultiEvent(MultiEvent):
        def get_trigger(self, timeout=None, name=None):
            tname = (name or self.name or '').replace('module ', '')
            metrace.append(['main', 'register', tname])
            trig = super().get_trigger(timeout, name)
            _ev('thread', tname)
            out['threads'].append(tname)

            def fire():
                _ev('rounddone', tname)
                t = s.me()
                metrace.append([t.name if t is not None else 'main', 'fire', tname])
                trig()
            return fire

        def wait(self, timeout=None):
            t0 = s.now
            metrace.append(['main', 'wait', bool(self.events)])
            ok = super().wait(timeout)
            metrace.append(['main', 'waitdone', bool(ok)])
            out['waited'] = round(s.now - t0, 3)
            if not ok:
                out['timedout'] = sorted(n.replace('module ', '') for n in self.waiting_for())
            return ok

    # the Server object: what Server.__init__ loaded from the configuration files is kept for its whole life - a restart
    # (second round of Server.run) calls _processCfg again on the SAME object, the same module_cfg, the same Param dicts
    module_cfg = {sp['name']: cfg_of(sp) for sp in case['mods']}
    if case.get('share'):
        # one Param object written once in the configuration file and used for several parameters / modules
        # (`p = Param(1); Mod('a', ..., w0=p); Mod('b', ..., w0=p)`): equal parameter dictionaries are ONE object
        pool = {}
        for mc in module_cfg.values():
            for k, v in list(mc.items()):
                if isinstance(v, dict):
                    mc[k] = pool.setdefault(json.dumps(v, sort_keys=True), v)
    stub = types.SimpleNamespace(
        name='node', log=LoggerStub(), _testonly=False,
        node_cfg={'cls': 'frappy.protocol.dispatcher.Dispatcher', 'description': 'c15'},
        module_cfg=module_cfg,
        restart=None, shutdown=None, secnode=None, dispatcher=None)
    fake_sys = types.SimpleNamespace(stderr=_io.StringIO(), exit=sys.exit)

    def one_round():
        """one turn of the loop of Server.run: _processCfg ... serve ... shutdown_modules; -> a further round is possible"""
        try:
            frappy.server.Server._processCfg(stub)
            for n in out['timedout']:
                _ev('timeout', n)
            _ev('ready')
        except SystemExit as e:
            out['exit'] = e.code
            _ev('exit')
        sn = stub.secnode
        out['errors'] = error_classes(sn.errors)
        out['modules'] = list(sn.modules)
        out['edges'] = sorted([u, m.name] for u, mo in sn.modules.items() for m in mo.attachedModules.values())
        out['ioDict'] = sorted([k, v] for k, v in frappy.io.HasIO.ioDict.items())
        if out['exit'] is not None:
            return False
        # let every first round finish (virtual time), then shut down as Server.run does
        total = sum((sp.get('delay') or 0) for sp in specs.values())
        s.time.sleep(total + 1)
        _ev('shutdownbegin')
        sn.shutdown_modules()
        # which poll threads exist after shutdown_modules returned?  do they still poll?
        if any(h.is_alive() for h in handles.values()):
            s.time.sleep(12)
        stray = False
        for owner in sn.modules:
            if owner in handles and handles[owner].is_alive():
                _ev('alive', owner)
                stray = True
        return not stray

    def main():
        try:
            for k in range(nrounds):
                if k:
                    begin_round()       # restart: the next turn of the loop of Server.run
                try:
                    again = one_round()
                finally:
                    out['metrace'] = metrace[out['me0']:]
                if not again:
                    break
        except vsched.SchedAbort:
            raise
        except BaseException as e:  # noqa: a crash of the lifecycle is an observation
            out['crash'] = type(e).__name__
        finally:
            s.stop('process exit')      # daemon poll threads die with the process

    with s.patched(frappy.modulebase, threading=s.threading, time=s.time, mkthread=mkthread), \
            s.patched(frappy.secnode, time=s.time), \
            s.patched(frappy.server, MultiEvent=LoggedMultiEvent, sys=fake_sys):
        begin_round()
        s.spawn('main', main)
        r = s.run(wall_timeout=20.0)
    first = outs[0]
    for o in outs:
        o['sched'] = {'deadlock': r['deadlock'], 'aborted': r['aborted'], 'errors': r['errors'], 'alive': r['alive'],
                      'steps': r['steps']}
    first['choices'] = [c for _n, c, _d in s.choices]
    first['later'] = outs[1:]
    return first


# =========================================================================================================
# generators
# =========================================================================================================
def mkspec(name, cls='L', export=True, poll=True, writes=(), atts=(), te=(), ti=(), fe=False, fi=False, uri=None,
           scan=(), delay=0, wfail=(), rfail=None, pfail=None, params=None):
    """`writes`: shorthand for parameters configured the plain way (`legacy_param`); `params`: the full description"""
    return {'name': name, 'cls': cls, 'export': bool(export), 'poll': bool(poll),
            'params': [list(q) for q in params] if params is not None else [legacy_param(w) for w in writes],
            'atts': [list(a) for a in atts], 'te': list(te), 'ti': list(ti), 'fe': bool(fe), 'fi': bool(fi),
            'uri': uri, 'scan': list(scan), 'delay': int(delay), 'wfail': [list(w) for w in wfail], 'rfail': rfail,
            'pfail': pfail}


# what a class may declare for a parameter and what a configuration may say about it: no value / the value that is also a
# default / other values.  [has_write, cls_default, cls_value] x [cfg_default, cfg_value]
PARAM_DECLS = [(w, d, v) for w in (True, False) for d in (None, 0, 1) for v in (None, 0, 1, 2)]
PARAM_CFGS = [(d, v) for d in (None, 0, 2) for v in (None, 0, 1, 2)]


def random_param(rng, pname):
    """any declaration x any configuration of one parameter; mostly with a write method"""
    has_write = rng.random() < 0.85
    cls_default = rng.choice([None, 0, 0, 1])
    cls_value = rng.choice([None, None, None, 0, 1, 2])
    cfg_default = rng.choice([None, None, None, 0, 2])
    cfg_value = rng.choice([None, 0, 1, 1, 2])
    q = [pname, has_write, cls_default, cls_value, cfg_default, cfg_value]
    if rng.random() < 0.06:
        # what Module.__init__ rejects: a value that is not of the datatype, a required value that is not given
        q += [rng.random() < 0.5, cfg_value is not None and rng.random() < 0.7]
    return q


def decorate_params(rng, names, p_any=0.4):
    """parameters for the names the generator wants written: configured the plain way, or (p_any) anything of the
    catalogue - start values equal to a default, values declared in the class, defaults given in the configuration, no
    write method; sometimes a further parameter; sometimes in another order of declaration"""
    if rng.random() >= p_any:
        return [legacy_param(w) for w in names]
    params = [random_param(rng, w) if rng.random() < 0.7 else legacy_param(w) for w in names]
    free = [w for w in WRITE_NAMES if w not in names]
    if free and rng.random() < 0.4:
        params.append(random_param(rng, rng.choice(free)))
    if rng.random() < 0.3:
        rng.shuffle(params)
    return params


def random_write_faults(rng, writes, p):
    """every configured write fails with probability p, with an exception class of the catalogue"""
    return [[w, rng.choice(FAULT_CLASSES)] for w in writes if rng.random() < p]


def all_graphs(n):
    """all digraphs without self loops on n labelled nodes (label = position in the declaration order)"""
    pairs = [(i, j) for i in range(n) for j in range(n) if i != j]
    for mask in range(1 << len(pairs)):
        yield [p for k, p in enumerate(pairs) if mask >> k & 1]


def is_dag(n, edges):
    succ = [0] * n
    for a, b in edges:
        if a == b:
            return False
        succ[a] |= 1 << b
    alive = (1 << n) - 1
    while alive:
        leaves = 0
        for u in range(n):
            if alive >> u & 1 and not succ[u] & alive:
                leaves |= 1 << u
        if not leaves:
            return False
        alive &= ~leaves
    return True


def all_dags(n):
    for edges in all_graphs(n):
        if is_dag(n, edges):
            yield edges


def random_graph(rng, n, acyclic):
    if acyclic:
        order = list(range(n))
        rng.shuffle(order)
        p = rng.choice([0.2, 0.4, 0.7])
        return [(order[i], order[j]) for i in range(n) for j in range(i + 1, n) if rng.random() < p]
    p = rng.choice([0.15, 0.3, 0.5])
    return [(i, j) for i in range(n) for j in range(n) if (i != j or rng.random() < 0.3) and rng.random() < p]


VARIANTS = ['plain', 'plain', 'plain', 'plain', 'touchy', 'touchy', 'fail', 'missing', 'hio', 'hio', 'pin', 'slow',
            'wfault', 'wfault', 'sfault', 'sfault']


def build_case(rng, n, edges, variant):
    """a configuration on the attachment graph `edges` over m0..m(n-1), decorated according to `variant`"""
    mods = []
    for i in range(n):
        atts = [['a%d' % j, 'm%d' % j, j % 2 == 0, 0] for (u, j) in edges if u == i]   # a0, a2, a4 mandatory (few classes)
        touch_p = {'plain': 0.25, 'touchy': 0.8}.get(variant, 0.3)
        te = [a[0] for a in atts if rng.random() < touch_p / 2]
        ti = [a[0] for a in atts if rng.random() < touch_p]
        if variant == 'touchy' and rng.random() < 0.3:
            ti = ti + ti[:1]                 # used twice
        writes = rng.choice([[], [], ['w0'], ['w1'], ['w0', 'w1']])
        wfail, rfail, pfail = [], None, None
        if variant == 'sfault':
            # faults anywhere in the start-up sequence of the poll threads: writes, initial reads, first polls
            writes = rng.choice([['w0', 'w1'], ['w0', 'w1', 'w2'], ['w1'], ['w0'], []])
            wfail = random_write_faults(rng, writes, rng.choice([0.0, 0.3]))
            if rng.random() < 0.35:
                rfail = rng.choice(FAULT_CLASSES)
            if rng.random() < 0.35:
                pfail = rng.choice(FAULT_CLASSES)
        elif rng.random() < 0.05:
            rfail = rng.choice(FAULT_CLASSES)
        elif rng.random() < 0.05:
            pfail = rng.choice(FAULT_CLASSES)
        if variant == 'wfault':
            # start-up faults: several configured values, any of the writes refused / crashing (any position)
            writes = rng.choice([['w0', 'w1'], ['w0', 'w1', 'w2'], ['w0', 'w1', 'w2'], ['w1', 'w2'], ['w0', 'w2'], ['w1'], []])
            wfail = random_write_faults(rng, writes, rng.choice([0.3, 0.5, 1.0]))
        elif writes and rng.random() < 0.15:
            wfail = random_write_faults(rng, writes, 0.6)
        mods.append(mkspec('m%d' % i, export=rng.random() < 0.7, poll=rng.random() < 0.7, atts=atts,
                           params=decorate_params(rng, writes, 0.3 if n > 1 else 0.6),
                           te=te, ti=ti, wfail=wfail, rfail=rfail, pfail=pfail))
        if rng.random() < 0.25 and 'a4' not in [x[0] for x in atts]:
            mods[-1]['atts'].append(['a4', None, False, 0])        # optional attachment left empty
    dyn = []
    if variant in ('wfault', 'sfault') and rng.random() < 0.5:
        variant = 'hio'                     # ... on modules sharing the poll thread of a communicator
    if variant == 'fail' and mods:
        m = rng.choice(mods)
        m[rng.choice(['fe', 'fi'])] = True
    elif variant == 'missing' and mods:
        m = rng.choice(mods)
        free = [a for a in ATT_NAMES if a not in [x[0] for x in m['atts']]]
        r = rng.random()
        if free and r < 0.45:
            m['atts'].append([free[0], 'zz', rng.random() < 0.5, 0])       # no such module
            if rng.random() < 0.4:
                rng.choice([m['te'], m['ti']]).append(free[0])
        elif free and r < 0.6:
            m['atts'].append([free[0], None, True, 0])                     # mandatory, no value
        elif m['atts']:
            a = rng.choice(m['atts'])
            a[3] = 1                                                       # must be a Communicator
            if a[1] and rng.random() < 0.5:
                for t in mods:
                    if t['name'] == a[1]:
                        t['cls'] = 'IO'                                    # ... and is one: fine after all
    elif variant == 'hio' and mods:
        k = rng.choice([1, 2, 2, 3])
        users = rng.sample(mods, min(k, len(mods)))
        mode = rng.choice(['uri', 'uri', 'explicit', 'none', 'mixed'])
        comm = None
        if mode in ('explicit', 'mixed'):
            cands = [m for m in mods if m not in users]
            if cands:
                comm = rng.choice(cands)
                comm['cls'] = 'IO'
        for idx, m in enumerate(users):
            m['cls'] = 'HIO'
            target = None
            if mode == 'uri' or (mode == 'mixed' and idx == 0) or (mode == 'explicit' and comm is None):
                m['uri'] = rng.choice(['x://1', 'x://1', 'x://2'])
            elif mode in ('explicit', 'mixed') and comm is not None:
                target = comm['name']
            m['atts'].append(['io', target, False, 0])
            if rng.random() < 0.5:
                # the module's own earlyInit / initModule uses its communicator (given by name or created from the uri)
                rng.choice([m['te'], m['ti'], m['ti']]).append('io')
    elif variant == 'pin':
        nd = rng.choice([1, 2])
        names = ['d%d' % i for i in range(nd)]
        for dn in names:
            targets = rng.sample(range(n), min(n, rng.choice([0, 1, 2]))) if n else []
            atts = [['a%d' % j, 'm%d' % j, True, 0] for j in targets]
            writes = rng.choice([[], ['w0'], ['w0', 'w1']])
            dyn.append(mkspec(dn, export=rng.random() < 0.7, poll=rng.random() < 0.7,
                              params=decorate_params(rng, writes), atts=atts, wfail=random_write_faults(rng, writes, 0.3),
                              ti=[a[0] for a in atts if rng.random() < 0.5]))
        pin = mkspec('p', cls='PIN', export=rng.random() < 0.3, poll=rng.random() < 0.5, scan=names)
        mods.insert(rng.randint(0, len(mods)), pin)
        if rng.random() < 0.2 and len(names) > 1:
            pin['scan'].append(names[0])          # yields a module twice
        if rng.random() < 0.5:
            # a declared module uses a module that only the Pinata produces (declared before or after the Pinata)
            users = [m for m in mods if m['cls'] == 'L' and 'a4' not in [a[0] for a in m['atts']]]
            if users:
                u = rng.choice(users)
                u['atts'].append(['a4', rng.choice(names), True, 0])
                if rng.random() < 0.5:
                    u[rng.choice(['te', 'ti'])].append('a4')
    elif variant == 'slow' and mods:
        for m in rng.sample(mods, min(len(mods), rng.choice([1, 1, 2]))):
            m['delay'] = rng.choice([4, 100, 100])
    return {'mods': mods, 'dyn': dyn, 'sched': None}


def fault_case(rng):
    """a clean configuration (the node comes up) whose poll threads serve several modules, with faults anywhere in the
    start-up sequence: refused / crashing writes, failing initial reads, failing first polls (all exception classes of
    the catalogue, communication failures included), in a random declaration order"""
    k = rng.choice([1, 2, 2, 3, 3, 4])
    mode = rng.choice(['explicit', 'explicit', 'uri', 'own'])
    mods = []

    def faults(sp, p):
        sp['wfail'] = random_write_faults(rng, [q[0] for q in sp['params']], rng.choice([0.0, 0.0, 0.4]))
        if rng.random() < p:
            sp['rfail'] = rng.choice(FAULT_CLASSES + list(COMM_CLASSES))
        if rng.random() < p:
            sp['pfail'] = rng.choice(FAULT_CLASSES + list(COMM_CLASSES))
        return sp

    if mode == 'explicit':
        mods.append(faults(mkspec('io', cls='IO', poll=rng.random() < 0.5, export=rng.random() < 0.8,
                                  params=decorate_params(rng, rng.choice([[], [], ['w0']]))), 0.15))
    p = rng.choice([0.15, 0.3, 0.5])
    for i in range(k):
        writes = rng.choice([[], ['w0'], ['w1'], ['w0', 'w1'], ['w0', 'w1', 'w2'], ['w2']])
        sp = mkspec('u%d' % i, cls='L' if mode == 'own' else 'HIO', poll=rng.random() < 0.75, export=rng.random() < 0.8,
                    params=decorate_params(rng, writes), delay=rng.choice([0, 0, 0, 0, 4]))
        if mode == 'explicit':
            sp['atts'].append(['io', 'io', False, 0])
        elif mode == 'uri':
            sp['atts'].append(['io', None, False, 0])
            sp['uri'] = rng.choice(['x://1', 'x://1', 'x://2'])
        if mode != 'own' and rng.random() < 0.3:
            sp['ti'].append('io')           # initModule talks to the communicator
        mods.append(faults(sp, p))
    rng.shuffle(mods)
    return {'mods': mods, 'dyn': [], 'sched': None}


def param_cases(rng):
    """Module._handle_writes, exhaustively: every declaration (write method, default, value) x every configuration
    (default, value) of one parameter - on a module with its own poll thread or served by a communicator, polled or kept
    in a poll thread only by its start values, next to a second parameter configured at random"""
    for has_write, cls_default, cls_value in PARAM_DECLS:
        for cfg_default, cfg_value in PARAM_CFGS:
            q = ['w0', has_write, cls_default, cls_value, cfg_default, cfg_value]
            params = [q]
            if rng.random() < 0.4:
                params.insert(rng.choice([0, 1]), random_param(rng, 'w1'))
            poll = rng.random() < 0.5
            if rng.random() < 0.5:
                mods = [mkspec('m0', poll=poll, params=params, export=rng.random() < 0.8)]
            else:
                mods = [mkspec('io', cls='IO', poll=rng.random() < 0.5),
                        mkspec('m0', cls='HIO', poll=poll, params=params, atts=[['io', 'io', False, 0]])]
                if rng.random() < 0.5:
                    mods.append(mkspec('m1', cls='HIO', poll=rng.random() < 0.5, params=decorate_params(rng, ['w0'], 0.5),
                                       atts=[['io', 'io', False, 0]]))
                rng.shuffle(mods)
            yield {'mods': mods, 'dyn': [], 'sched': None}
    # what Module.__init__ rejects, on a module that others use or that stands alone
    for needscfg, bad in ((True, False), (False, True), (True, True)):
        for cls_default, cls_value, cfg_value in ((None, None, None), (0, None, None), (0, 1, None), (None, None, 1), (0, None, 0)):
            q = ['w0', True, cls_default, cls_value, None, cfg_value, needscfg, bad]
            mods = [mkspec('m0', poll=rng.random() < 0.5, params=[q, legacy_param('w1')])]
            if rng.random() < 0.6:
                mods.append(mkspec('m1', atts=[['a0', 'm0', True, 0]], ti=['a0'] if rng.random() < 0.5 else []))
                rng.shuffle(mods)
            yield {'mods': mods, 'dyn': [], 'sched': None}


def restart_cases(rng):
    """restart (`do restart`, Server.restart): further rounds of Server.run on the same Server object and the same loaded
    configuration.  Clean configurations of every flavour (a rejected node ends the process: there is no next round):
    start values of every declaration x configuration pattern, shared / automatically created communicators, Pinatas
    (their products are entries of module_cfg from the second round on), faults in the start-up sequence, slow polls"""
    for i, c in enumerate(param_cases(rng)):
        if i % 5 == 0 and i < 288:
            c['rounds'] = 2
            yield c
    for n in (1, 2, 3):
        for v in ('plain', 'hio', 'hio', 'hio', 'pin', 'pin', 'touchy', 'wfault', 'sfault', 'slow'):
            c = build_case(rng, n, random_graph(rng, n, True), v)
            c['rounds'] = rng.choice([2, 2, 3])
            yield c
    for _ in range(12):
        c = fault_case(rng)
        c['rounds'] = 2
        yield c


# =========================================================================================================
# observation, model, judge
# =========================================================================================================
def canon_log(log):
    """consecutive `timeout` events come from a set: sort them"""
    out, run_ = [], []
    for e in log:
        if e[0] == 'timeout':
            run_.append(e)
            continue
        out += sorted(run_)
        run_ = []
        out.append(e)
    return out + sorted(run_)


def observe(case, policy=None):
    """run the real code; -> obs (what is compared / judged) of the first round, raw.  The rounds after a restart
    (`case['rounds']` > 1) are in obs['later'], each with its number in 'round'."""
    raw = run_case(case, policy)
    if raw['sched']['aborted'] not in (None, 'process exit') or raw['sched']['deadlock']:
        raise RuntimeError(f'scheduler: {raw["sched"]}')
    obs = [_obs_of(r) for r in [raw] + raw['later']]
    obs[0]['later'] = obs[1:]
    return obs[0], raw


def _obs_of(raw):
    log = []
    for e in raw['log']:
        if e[0] == 'timeout' and (not log or log[-1][0] not in ('timeout', 'deadline')) \
                and raw['waited'] is not None and raw['waited'] >= TIMEOUT - 0.01:
            log.append(['deadline'])          # the virtual clock says the wait lasted until the deadline
        log.append(list(e))
    log = canon_log(log)
    shutdown = [e[1] for e in log if e[0] == 'shutdown']
    return {'modules': raw['modules'], 'errors': raw['errors'], 'log': log, 'ioDict': raw['ioDict'],
            'edges': raw['edges'], 'exit': raw['exit'], 'crash': raw['crash'], 'thread_errors': raw['sched']['errors'],
            'shutdown': shutdown, 'metrace': raw['metrace'], 'written': [list(w) for w in raw['written']],
            'unready': [list(w) for w in raw['unready']], 'round': raw['round'], 'later': []}


def rounds_of(obs):
    return [obs] + obs['later']


def wire_cfg(case):
    return {'mods': case['mods'], 'dyn': case.get('dyn', [])}


def requests_for(case, obs):
    """the three requests for ONE round: what the model predicts for round number obs['round'] of a node with this
    configuration, the judgement of that round against the configuration, the MultiEvent protocol of that round"""
    cfg = wire_cfg(case)
    return [{'p': 'C15', 'k': 'run', 'cfg': cfg, 'round': obs['round'], 'log': obs['log'], 'shutdown': obs['shutdown']},
            {'p': 'C15', 'k': 'judge', 'cfg': cfg, 'modules': obs['modules'], 'errors': obs['errors'],
             'log': obs['log'], 'ioDict': obs['ioDict'], 'written': obs['written'], 'unready': obs['unready']},
            {'p': 'C15', 'k': 'me_follow', 'trace': obs['metrace']}]


def model_view(model):
    return {'modules': model['modules'], 'errors': model['errors'], 'ioDict': sorted(model['ioDict']),
            'edges': sorted({tuple(e) for e in model['edges']}), 'log': canon_log(model['log']),
            'written': sorted(model['written'])}


def impl_view(obs):
    return {'modules': obs['modules'], 'errors': obs['errors'], 'ioDict': obs['ioDict'],
            'edges': sorted({tuple(e) for e in obs['edges']}),
            'log': obs['log'], 'written': sorted(obs['written'])}


def first_diff(a, b):
    for k in ('modules', 'errors', 'ioDict', 'log', 'edges', 'written'):
        if a[k] != b[k]:
            if k == 'log':
                for i, (x, y) in enumerate(zip(a[k], b[k])):
                    if x != y:
                        return {'field': 'log', 'index': i, 'model': a[k][max(0, i - 2):i + 3], 'impl': b[k][max(0, i - 2):i + 3]}
                i = min(len(a[k]), len(b[k]))
                return {'field': 'log', 'index': i, 'model': a[k][i - 2:i + 3], 'impl': b[k][i - 2:i + 3]}
            return {'field': k, 'model': a[k], 'impl': b[k]}
    return None


# ---- shrinking: a case as a list of independent features -------------------------------------------------
def features(case):
    items = []
    for sp in case['mods']:
        items.append(('mod', sp['name']))
    for sp in case.get('dyn', []):
        items.append(('dyn', sp['name']))
    for sp in case['mods'] + case.get('dyn', []):
        for a in sp['atts']:
            items.append(('att', sp['name'], a[0]))
        for f in ('te', 'ti'):
            for i, a in enumerate(sp[f]):
                items.append((f, sp['name'], i))
        for q in params_of(sp):
            items.append(('w', sp['name'], q[0]))
        for w, _c in sp.get('wfail') or []:
            items.append(('wf', sp['name'], w))
        for f in ('fe', 'fi', 'delay', 'uri', 'rfail', 'pfail'):
            if sp.get(f):
                items.append((f, sp['name']))
        if not sp['export']:
            items.append(('noexport', sp['name']))
        if sp['poll']:
            items.append(('poll', sp['name']))
    for i, c in enumerate(case.get('sched') or []):
        if c:
            items.append(('sched', i))
    if (case.get('rounds') or 1) > 1:
        items.append(('rounds',))
    if case.get('share'):
        items.append(('share',))
    return items


def rebuild(case, items):
    items = set(items)
    out = {'mods': [], 'dyn': [], 'sched': None}
    for key, lst in (('mods', case['mods']), ('dyn', case.get('dyn', []))):
        for sp in lst:
            if (('mod' if key == 'mods' else 'dyn'), sp['name']) not in items:
                continue
            n = sp['name']
            sp0 = sp
            atts = [list(a) for a in sp['atts'] if ('att', n, a[0]) in items]
            have = {a[0] for a in atts}
            sp = {k: v for k, v in sp.items() if k != 'writes'}
            new = dict(sp, atts=atts,
                       te=[a for i, a in enumerate(sp['te']) if ('te', n, i) in items and a in have],
                       ti=[a for i, a in enumerate(sp['ti']) if ('ti', n, i) in items and a in have],
                       params=[list(q) for q in params_of(sp0) if ('w', n, q[0]) in items],
                       wfail=[list(w) for w in sp.get('wfail') or [] if ('wf', n, w[0]) in items and ('w', n, w[0]) in items],
                       fe=sp['fe'] and ('fe', n) in items, fi=sp['fi'] and ('fi', n) in items,
                       delay=sp['delay'] if ('delay', n) in items else 0,
                       uri=sp['uri'] if ('uri', n) in items else None,
                       rfail=sp.get('rfail') if ('rfail', n) in items else None,
                       pfail=sp.get('pfail') if ('pfail', n) in items else None,
                       export=('noexport', n) not in items if sp['cls'] != 'PIN' else sp['export'],
                       poll=('poll', n) in items)
            out[key].append(new)
    names = {sp['name'] for sp in out['dyn']}
    for sp in out['mods']:
        sp['scan'] = [s for s in sp['scan'] if s in names]
    sched = case.get('sched') or []
    if sched:
        out['sched'] = [c if ('sched', i) in items else 0 for i, c in enumerate(sched)]
    if ('rounds',) in items:
        out['rounds'] = case['rounds']
    if ('share',) in items:
        out['share'] = True
    return out


def judge_case(ctx, case):
    """run the case; -> [(obs, model, judge)], one entry per round"""
    obs, _raw = observe(case)
    rounds = rounds_of(obs)
    ans = ctx.driver.batch([r for o in rounds for r in requests_for(case, o)])
    return [(o, ans[3 * i], ans[3 * i + 1]) for i, o in enumerate(rounds)]


def failing_round(rounds, clause):
    """the observation of the first round the Lean judge finds `clause` broken in (None: in no round)"""
    for o, _m, j in rounds:
        if clause in j.get('failed', []):
            return o
    return None


def shrink(ctx, case, clause):
    """-> smaller case, observation of its failing round"""
    def fails(items):
        c = rebuild(case, items)
        if not c['mods']:
            return False
        return failing_round(judge_case(ctx, c), clause) is not None
    try:
        small = ddmin(features(case), fails, max_tests=100)
        c = rebuild(case, small)
        o = failing_round(judge_case(ctx, c), clause)
        if o is not None:
            return c, o
    except Exception:
        pass
    return case, None


def signature(case, clause, obs):
    """short stable description of what fails"""
    specs = case['mods'] + case.get('dyn', [])
    if clause == 'attached_ready':
        failed = {e[1] for e in obs['errors'] if e[0] == 'init'}
        inits = set()
        for e in obs['log']:
            if e[0] == 'init':
                inits.add(e[1])
            if e[0] == 'get' and e[3] not in inits:
                return 'C15:attached_ready:' + ('attached-module-failed-init' if e[3] in failed else 'other')
    edges = [(sp['name'], a[1]) for sp in specs for a in sp['atts'] if a[1]]
    names = {sp['name'] for sp in specs}
    idx = {n: i for i, n in enumerate(sorted(names))}
    if not is_dag(len(idx), [(idx[u], idx[t]) for u, t in edges if t in idx and u != t]) or any(u == t for u, t in edges):
        tag = 'cyclic'
    elif any(t not in names for _u, t in edges) or any(a[2] and a[1] is None for sp in specs for a in sp['atts']):
        tag = 'missing'
    elif any(a[3] == 1 for sp in specs for a in sp['atts']):
        tag = 'typed'
    elif any(sp['fe'] or sp['fi'] for sp in specs):
        tag = 'failing-init'
    elif any(len(q) > 6 and (q[6] or q[7]) for sp in specs for q in params_of(sp)):
        tag = 'rejected-parameter'
    elif any(sp.get('wfail') for sp in specs):
        tag = 'write-fault'
    elif any(sp.get('rfail') or sp.get('pfail') for sp in specs):
        tag = 'startup-fault'
    elif obs['errors']:
        tag = 'errors'
    elif any(not sp['export'] for sp in specs if sp['cls'] != 'PIN'):
        tag = 'unexported'
    else:
        tag = 'plain'
    if obs.get('round'):
        tag += ':after-restart'
    return 'C15:%s:%s' % (clause, tag)


META = {
    'level_text': 'Proved on the Lean model (of the repaired code), for every configuration, fuel, schedule of start loop / poll '
                  'threads / clock and choice function of set.pop(): attached_ready, no_half_start, ready_after_first_round, '
                  'poll_threads_stopped (whole runs); hooks_at_most_once (FULL: in every life of a node - rejected ones, failing '
                  'early / late initialisation, bad attachments, cycles included - earlyInit, initModule and startModule of every '
                  'module run at most once and in that order); init_order_once_of_up (the clause InitOrderOnce itself for every '
                  'node that came up: every module of the node exactly one earlyInit, initModule, startModule, in that order) and '
                  'declared_modules_exist - via core_nothing_created_late (no module is created after the creation loop of a node '
                  'that comes up); sorted_modules_topological, shutdown_phase_order, shutdown_order_whole_run (resolved attachments '
                  'assumed acyclic); multievent_wait_sound (MultiEvent at the granularity of its primitives); acyclicB_iff.  '
                  'Start values: handle_writes_registers_start_values (Module._handle_writes registers exactly the configured start '
                  'values - value of the configuration, else value of the declaration - whatever the default is), '
                  'writes_before_first_poll (FULL against the module list of the configuration, Pinatas static: exactly once and '
                  'never after the first poll of the module, every schedule, ANY faults in write_<p>, initialReads, first polls, '
                  'communication failures included) and start_values_handed_over (the value handed to write_<p> is the configured '
                  'start value) - the former hypothesis Linked is discharged by configuration_linked (invariant LI of get_module / '
                  'create_modules: every module object carries the parameters of its description, a module with something to poll '
                  'or to write is registered with a poll thread that is started); write_faults_lose_no_write, '
                  'startup_sequence_complete, no_write_after_first_poll, comm_failure_writes_made_up, '
                  'unrepaired_prologue_skips_writes, repair_changes_only_broken_off_rounds; rejected_parameter_reported (a '
                  'configured value that is not of the datatype / a missing required value makes the node report an error).  '
                  'Restart (further rounds of Server.run on the same Server object): restart_same_configuration (FULL for nodes '
                  'without Pinatas: a round hands srv.module_cfg to the next one exactly as it was loaded), hence '
                  'restart_round_like_first (the life of round k is the first life: every whole-run theorem holds for every '
                  'round against the loaded configuration), restart_start_values_kept; restart_rounds_statement (nodes with '
                  'Pinatas, whose products are entries of module_cfg from round 2 on) is NOT proved (one checked instance).  '
                  'NOT proved, kept as statements: init_order_once_statement (missing: a clean configuration produces no error; '
                  'existence of Pinata products and automatic communicators), bad_attachment_reported first half, shutdown_order '
                  'against the declared attachments, writes_before_first_poll_statement without the hypothesis StaticPinatas; for '
                  'these the evidence is differential: the real Server._processCfg + '
                  'SecNode.shutdown_modules run with instrumented module classes (fault injection included) under the '
                  'deterministic scheduler on all attachment graphs up to 4 modules (thorough: all DAGs on 5 + sampled cyclic '
                  'graphs) and on every declaration x configuration of a parameter, the model predicts every log and every value '
                  'handed to a write method exactly, and the Lean monitors judge every implementation log.',
    'level_note': 'Trusted: Lean kernel + axioms propext/Classical.choice/Quot.sound; vlib.sched (virtual clock, gated threads); '
                  'multievent.py is re-executed from source with the scheduler\'s threading/time; the instrumented classes log '
                  'before calling super(); injected faults are raised by the instrumented write_/initialReads/read_ methods '
                  '(a communication failure is logged as part of the observation); the instrumented write_<p> records the value '
                  'it is handed (after the conversion by the datatype in the generated wrapper); the state of an attached module '
                  '(earlyInitDone, initModuleDone, _isinitialized) is read by the instrumented hook of its user at the moment of '
                  'the access; a restart is a further call of Server._processCfg / shutdown_modules on the same Server stub and '
                  'the same module_cfg objects.',
    'trusted': [
        'vlib.sched: gated real threads + virtual clock reproduce an admissible interleaving of the real threads',
        'the instrumented module classes (log, then super(), then the injected fault) do not change the lifecycle',
        'the abstract MultiEvent of the start-phase theorems is atomic; the harness checks on every run that the real primitives '
        'follow the protocol model for which multievent_wait_sound is proved',
    ],
    'modelled_not_verified': [
        'Module.__init__ - modelled: "mandatory attachment without value", and of the parameter configuration what '
        '_handle_writes does with declared / configured default and value (writeDict, datatype mismatch of the configured value, '
        'needscfg); not modelled: property configuration, limits, units, datatype properties given in the configuration, '
        'the initial value the node reports for a parameter',
        'a writeDict entry of a parameter without a write method of the driver is handed to the generated wrapper only: no event '
        'is observed for it (it keeps the module in a poll thread: modelled and compared)',
        'the poll loop after the first polls (only the late writeInitParams and the first poll of each module in the main loop '
        'after a broken-off start-up sequence are modelled); reconnect callbacks',
        'Dispatcher, interfaces, daemonising, signal handling; of Server.run only the sequence _processCfg ... '
        'shutdown_modules per round (restart_hook, systemd notifications, closing of the interfaces are not run)',
    ],
    'assumptions': ['Pinatas are declared statically and have no attachments of their own (hypothesis StaticPinatas of '
                    'writes_before_first_poll / start_values_handed_over / rejected_parameter_reported)',
                    'module names are distinct from the names of automatically created communicators; module names and parameter '
                    'names are dictionary keys (Nodup hypotheses)',
                    'exceptions raised by drivers are Exception subclasses (no BaseException)',
                    'restart: a round leaves the loaded descriptions (module_cfg entries, their parameter dictionaries) unchanged - '
                    'the modelling assumption behind restartCfg; not a theorem about the code, checked on every restarted case by '
                    'predicting and judging every round on its own'],
}


def run(ctx):
    res = Result()
    res.rule = ('a case = attachment graph x declaration order (labelled digraph) x variant decoration; non-trivial = at least 2 '
                'modules, at least one attachment, and the node either came up and was shut down or was rejected with errors')
    rng = ctx.rng
    thorough = ctx.tier == 'thorough' or ctx.escalated
    def gen_cases():
        cdir = os.path.join(ctx.verif, 'corpus', 'C15')
        if os.path.isdir(cdir):
            for fn in sorted(os.listdir(cdir)):
                with open(os.path.join(cdir, fn)) as f:
                    yield 'corpus', json.load(f)['case']
        # exhaustive part: every labelled digraph (= attachment graph x declaration order) on up to 3 modules with
        # every variant, on 4 modules with one (quick) / three (thorough) random variants
        for n in (1, 2, 3):
            for edges in all_graphs(n):
                for v in (['plain', 'touchy', 'fail', 'missing', 'hio', 'pin', 'slow', 'wfault', 'sfault'] if n > 1 else VARIANTS):
                    yield f'n{n}', build_case(rng, n, edges, v)
        for k in range(ctx.budget(1, 4)):           # restart: two or three rounds on the same Server object
            for c in restart_cases(rng):
                yield 'restart', c
        for k in range(ctx.budget(1, 4)):           # every declaration x configuration of a parameter (_handle_writes)
            for c in param_cases(rng):
                yield 'params', c
        for i in range(ctx.budget(400, 4000)):      # start-up faults on shared poll threads; every third under a random schedule
            c = fault_case(rng)
            if i % 3 == 2:
                c['_random_sched'] = True
            yield 'faults', c
        for _ in range(ctx.budget(300, 3000)):      # self loops, random schedules
            n = rng.choice([2, 3, 4])
            c = build_case(rng, n, random_graph(rng, n, rng.random() < 0.7), rng.choice(VARIANTS + ['slow', 'hio']))
            c['_random_sched'] = True
            yield 'sched', c
        for _ in range(ctx.budget(1, 3)):
            for edges in all_graphs(4):
                yield 'n4', build_case(rng, 4, edges, rng.choice(VARIANTS))
        if thorough:
            # 5 modules: all 29281 labelled DAGs, then random digraphs (cycles included) until the time is used up
            for edges in all_graphs(5):
                if is_dag(5, edges):
                    yield 'n5dag', build_case(rng, 5, edges, rng.choice(VARIANTS))
            while True:
                yield 'n5rnd', build_case(rng, 5, random_graph(rng, 5, False), rng.choice(VARIANTS))

    cases = gen_cases()
    t_end = time.time() + (36 if ctx.tier == 'quick' else 11 * 60)
    reqs, metas = [], []
    for kind, case in cases:
        if time.time() > t_end:
            res.notes.append(f'time budget reached after {len(metas)} cases (last kind: {kind})')
            break
        policy = None
        if kind not in ('corpus', 'restart') and rng.random() < 0.06:
            case['rounds'] = 2              # any case of any stream may be a node that is restarted
        if kind != 'corpus' and rng.random() < 0.1:
            case['share'] = True            # equal parameter dictionaries of the configuration are one Param object
        if case.pop('_random_sched', False):
            policy = vsched.RandomPolicy(random.Random(rng.random()), 0.3)
        obs, raw = observe(case, policy)
        if policy is not None:
            case['sched'] = raw['choices']
        for o in rounds_of(obs):        # a restarted node: every round is predicted and judged on its own
            reqs += requests_for(case, o)
            metas.append((kind, case, o))
    # systematic schedules (at most 2 preemptions) of "main thread registering start triggers" x "poll threads reporting
    # their first round": the MultiEvent protocol (lock / event.set / event.clear are yield points of the scheduler)
    scenarios = [
        {'mods': [mkspec('m0'), mkspec('m1')], 'dyn': [], 'sched': None},
        {'mods': [mkspec('m0', writes=['w0']), mkspec('m1', poll=False, writes=['w0']), mkspec('m2')], 'dyn': [], 'sched': None},
    ]
    t_exp = time.time() + (12 if ctx.tier == 'quick' else 150)
    for scen in scenarios:
        def make_run(policy, scen=scen):
            c = json.loads(json.dumps(scen))
            obs, raw = observe(c, policy)
            c['sched'] = raw['choices']
            return _state.sched, (c, obs)
        nrun = 0
        for _prefix, _s, (c, obs) in vsched.explore(make_run, max_preemptions=2, max_runs=ctx.budget(700, 12000)):
            nrun += 1
            reqs += requests_for(c, obs)
            metas.append(('explore', c, obs))
            if time.time() > t_exp:
                break
        res.count('explore.runs', nrun)
    answers = ctx.driver.batch(reqs, timeout=600)
    seen_sigs = set()
    try:        # recorded findings are reported as they are: no time is spent on shrinking them
        with open(os.path.join(ctx.verif, 'known_findings', 'C15.json')) as f:
            recorded = {k['signature'] for k in json.load(f).get('findings', [])}
    except (OSError, ValueError):
        recorded = set()
    for j, (kind, case, obs) in enumerate(metas):
        model, judge, follow = answers[3 * j], answers[3 * j + 1], answers[3 * j + 2]
        if 'driver_error' in model or 'driver_error' in judge or 'driver_error' in follow:
            raise RuntimeError(f'driver error: {model} {judge} {follow} {json.dumps(case)}')
        res.evaluations += 1
        res.traces += 1
        specs = case['mods'] + case.get('dyn', [])
        natt = sum(1 for sp in specs for a in sp['atts'] if a[1])
        res.count('kind.' + kind)
        res.count('round.%d' % obs['round'])
        res.count('outcome.' + ('crash' if obs['crash'] else 'errors' if obs['errors'] else 'up'))
        res.count('cfg.' + ('clean' if judge['clean'] else 'bad-attachment' if judge['bad'] else 'other-defect'))
        res.count('attachments.%s' % (natt if natt < 4 else '4+'))
        if not obs['errors']:
            comm = [sp for sp in specs for f in ('rfail', 'pfail') if sp.get(f) in COMM_CLASSES]
            other = [sp for sp in specs if sp.get('wfail') or sp.get('rfail') or sp.get('pfail')]
            res.count('faults.' + ('comm-failure' if comm else 'other-exception' if other else 'none'))
        if not obs['errors']:
            for sp in specs:
                if sp['name'] not in obs['modules']:
                    continue
                for _n, has_write, cls_default, cls_value, cfg_default, cfg_value in (q[:6] for q in params_of(sp)):
                    start = cfg_value if cfg_value is not None else cls_value
                    default = cfg_default if cfg_default is not None else cls_default
                    res.count('param.' + ('no-write-method' if not has_write else 'no-start-value' if start is None else
                                          'start-value-equals-default' if start == default else
                                          'start-value-declared-in-class' if cfg_value is None else
                                          'start-value-no-default' if default is None else 'start-value-differs-from-default'))
        if len(specs) >= 2 and natt >= 1:
            res.nontriv(wire_cfg(case))
        if len(res.samples) < 4 and natt >= 2 and len(obs['log']) < 40 and (len(res.samples) % 2 == 0) == bool(obs['errors']):
            res.samples.append({'cfg': wire_cfg(case), 'log': [' '.join(e) for e in obs['log']], 'errors': obs['errors']})
        if obs['crash'] or obs['thread_errors']:
            res.violations.append({'sig': 'C15:crash:%s' % (obs['crash'] or sorted(obs['thread_errors'].values())),
                                   'what': f'lifecycle crashed: {obs["crash"]} {obs["thread_errors"]}', 'case': case})
            continue
        if ctx.model_ok:
            if model['oof']:
                res.disagreements.append({'case': case, 'model': 'fuel exhausted', 'impl': None})
            else:
                d = first_diff(model_view(model), impl_view(obs))
                if d is None and follow['stuck'] is not None:
                    i = follow['stuck']
                    d = {'field': 'multievent-trace', 'index': i, 'model': 'label not enabled in the MultiEvent protocol',
                         'impl': obs['metrace'][max(0, i - 3):i + 2]}
                if d is not None:
                    res.disagreements.append({'case': case, 'model': d.get('model'), 'impl': d.get('impl'),
                                              'where': {k: v for k, v in d.items() if k not in ('model', 'impl')}})
        for clause in judge['failed']:
            sig0 = signature(case, clause, obs)
            res.count('violation.' + sig0)
            if sig0 in seen_sigs:
                continue
            seen_sigs.add(sig0)
            if sig0 in recorded:
                res.violations.append({'sig': sig0, 'what': f'{clause} broken: cfg={json.dumps(wire_cfg(case))} '
                                                            f'log={[" ".join(e) for e in obs["log"]]} errors={obs["errors"]}',
                                       'case': case, 'detail': {'clause': clause, 'original': case}})
                continue
            small, o2 = shrink(ctx, case, clause)
            if o2 is None:
                small, o2 = case, obs
            seen_sigs.add(signature(small, clause, o2))
            rnd = f' (round {o2["round"] + 1} of the same Server object: after a restart)' if o2['round'] else ''
            if small.get('share'):
                rnd += ' (equal parameter dictionaries of the configuration are one Param object)'
            res.violations.append({'sig': signature(small, clause, o2),
                                   'what': f'{clause} broken{rnd}: cfg={json.dumps(wire_cfg(small))} '
                                           f'log={[" ".join(e) for e in o2["log"]]} errors={o2["errors"]}'
                                           + (f' unready={o2["unready"]}' if o2['unready'] else ''),
                                   'case': small, 'detail': {'clause': clause, 'original': case}})
    res.notes.append('O02 (observation): HasIO.ioDict is a class-level dictionary shared by every node of the process; the harness '
                     'clears it before every case (not between the rounds of a restarted node: since 8136d1a a uri registered by an '
                     'earlier node is created again on the node that does not have the communicator)')
    return res


def replay(ctx, rp):
    case = rp['case']
    clause = (rp.get('detail') or {}).get('clause')
    bad = False
    print('cfg    :', json.dumps(wire_cfg(case)), ' rounds:', case.get('rounds') or 1, ' shared Param objects:', bool(case.get('share')))
    for obs, model, judge in judge_case(ctx, case):
        follow = ctx.driver.batch(requests_for(case, obs)[2:])[0]
        print('--- round', obs['round'] + 1)
        print('impl   :', ' '.join('.'.join(e) for e in obs['log']))
        print('errors :', obs['errors'], ' modules:', obs['modules'], ' unready:', obs['unready'])
        print('model  :', ' '.join('.'.join(e) for e in canon_log(model.get('log', []))), model.get('errors'))
        print('written:', obs['written'], ' model:', model.get('written'))
        print('judge  :', judge)
        print('multievent trace followed by the model:', follow.get('stuck') is None, follow)
        failed = judge.get('failed', ['driver_error'])
        if obs['crash'] or obs['thread_errors']:
            bad = True
        if clause in failed if clause else failed:
            bad = True
    return 1 if bad else 0
