"""C17 — Persistent parameters: crash-atomic, exact round trip, retried after failure.

Runs real `PersistentMixin` modules on a fault-injecting file layer (`FaultFS`, installed by assigning
`frappy.persistent.open` / `frappy.persistent.os` from outside, and - while a bench is alive - as `builtins.open`, `io.open`,
`os.rename/replace/remove/unlink`, so that pathlib, shutil etc. go through it, too).  The code gets Python's own buffered text file; what is
logged, may fail and is followed by a snapshot of the directory (read through an independent descriptor) are the
operations that reach the operating system: open, every write of the buffered writer on the raw file, its close,
os.rename, os.remove.  The Lean side (model `Small/Persist`, monitors `Spec/C17`) compares and judges.  Nothing about the
property is decided here."""
import builtins
import io
import json
import os
import shutil
import sys
import tempfile
from pathlib import Path

from check import Result
from vlib.shrink import ddmin

META = {
    'level_text': 'Theorems for every chunking in which the written text reaches the file descriptor, every crash point, every I/O fault '
                  'with any partial write (and any further, possibly failing, writes of the file object when it is closed on the way out: '
                  'disk full), every history of set/save/writeInit/load/factory-reset actions: crash_atomic, fault_atomic (target = complete old or '
                  'complete new snapshot, tmp removed - unless the remove of the clean-up fails as well: double_fault_target_complete), save_outcome, failed_save_retried, believed_on_disk and believed_on_disk_world '
                  '(persistentData always equals what a restart would read - for the save machine and for the whole module machine), '
                  'saved_when_done / save_leaves_current_file, auto_save_stays_registered (the callback that saves on every update of an '
                  '`auto` parameter stays registered whatever fails) and failed_auto_save_retried (after any history, failed automatic saves '
                  'included, the next undisturbed update of an `auto` parameter leaves a current file), startup_file_current, roundtrip (load after '
                  'save restores every persistent parameter under the codec law import(export v) = v), cfg_precedence, reload_restores '
                  '(loadParameters() in any state restores every usable stored value unless the write method refuses it), reload_from_this_run '
                  '(start-up, any history, then loadParameters(): every persistent parameter ends with a value of this run - a value an earlier '
                  'run stored never overrides what start-up decided from the configuration), reload_after_startup_keeps_values, load_total / '
                  'unusable_entry_removes_only_itself.  Where the file lives (Small/PersistPlace: name derived from equipment id and module name, '
                  'cut at every "/", directories on the way to it): save_same_wherever (for every set of existing directories __save_params is '
                  'the save of the flat model, fault for fault - so all theorems above hold wherever the file lives), '
                  'missing_dir_never_prevents_saving / _startup (every equipment id, every set of directories, even none), '
                  'saved_after_directory_removed (any state, the tree below any directory removed behind the module), model_saved_wherever (the '
                  'model satisfies the Spec clause SavedWherever), without_directory_nothing_is_saved (the counterpart).  The model is tied to frappy/persistent.py and the callback loop of '
                  'Module.announceUpdate by a correspondence run on real modules over all datatypes: the code writes through Python\'s own '
                  'buffered text file onto a raw file whose open / write / close, and os.rename / os.remove, are logged, can fail, and are each '
                  'followed by a snapshot of the directory taken by an independent reader; equipment ids with path separators, directories '
                  'missing at the first start and trees removed between the actions of a history are part of the generated cases, the path of '
                  'the file is taken from the Lean model, and the Lean monitor SavedWherever judges the whole tree below the log directory after '
                  'every undisturbed call; the Lean monitors judge every snapshot, retry trial '
                  '(explicit and automatic saves), restart, and every loadParameters() of the histories and on damaged files.',
    'level_note': 'Durability is modelled at the granularity of the operations that reach the operating system (open, each write of the '
                  'buffered writer on the descriptor, close, rename, remove), for the default buffering and for small buffers; rename is atomic; '
                  'the code issues no fsync, and page-cache write-back / power-loss reordering of data and metadata is NOT modelled.  Faults: one '
                  'failing operation per save, or a failing write followed by failing writes (disk full), each optionally with a failing remove in '
                  'the clean-up; other combinations of two failing operations are not injected.  Saves are single-threaded in the model (two threads saving the same module concurrently '
                  'share one tmp file; not covered).  json, the datatypes, Python == and the chunking done by Python\'s io layers are oracles of the '
                  'model (tables recorded from the real functions).  The reload clauses (ReloadRestores, ReloadFromThisRun) extend the '
                  'statement\'s loading / precedence clauses to loadParameters(); a parameter without usable stored entry is bound only by '
                  'ReloadFromThisRun.',
    'trusted': [
        'durability granularity: descriptor-level operations as issued by Python\'s io stack, atomic os.rename, no reordering (no fsync in the '
        'code; power loss not modelled); the file object contract "close() has handed everything written to the descriptor, or raises" is '
        'checked on every recorded save, not proved',
        'json.dump/json.load, datatype import_value/export_value/validate are oracles; the laws assumed of them by roundtrip and the reload '
        'theorems - import(export v) = v, and validate hands back unchanged (or refuses) a value an import produced - are tested on every '
        'imported value of every case (law.* counters; a broken law fails the check)',
        'json.load returns dictionaries with distinct keys (hypothesis of cfg_precedence and the reload theorems)',
        'import respects Python == of decoded files (hypothesis of reload_from_this_run, used only when a save found nothing to write); '
        'exercised through the monitors, not tested separately',
        'driver glue: Python == on decoded JSON is `pyEq` (True == 1, 1.0 == 1, exact decimal comparison)',
        'Module.__init__ (values, given flags, configured writes) is an input of the model (C10); the persistent / auto flags given to the '
        'model come from the declaration (class definition and configuration), not from the module',
        'announceUpdate is modelled for updates that are not omitted (the harness clock advances 10 s per reading): valid values, and '
        'updates without valid value (read error, refused value), which save nothing',
        'an OSError while *reading* the file and a failing pathlib mkdir are outside the statement and not injected',
        'place of the file: equipment ids starting with "/" (pathlib drops <logdir>/persistent) or with a component ".." are not modelled '
        'and not generated (the code under test would write outside the scratch directory); a regular file standing where a directory is '
        'needed is not modelled; PWorld.step runs the flat module machine - justified by save_same_wherever for the saves, and checked '
        'by the correspondence (operations, files, existing directories after every step)',
        'a module is not required to notice that its file was removed from outside: a save of data Python-== to what the file held '
        'when it was taken away may do nothing (excused in the silent-save round-trip judge, counted)',
    ],
    'modelled_not_verified': ['json', 'frappy.datatypes import_value/export_value/validate', 'Module.__init__/_handle_writes',
                              'os.rename atomicity', 'io.TextIOWrapper / io.BufferedWriter (chunking, behaviour of close() after a failed write)'],
    'assumptions': ['one save at a time per module', 'write methods accept and return the value'],
}

TARGET, TMP = 'T', 'T.tmp'
MODNAME = 'm'

# where the file of the module under test lives.  NOT computed here: `file` / `chain` (components below the log directory) are
# what the Lean model (`Small/PersistPlace`: persistentFile, prefixes of its directory) derives from equipment id and module
# name (driver verb `place`); the file layer calls *that* file `T`.  An implementation that puts its file elsewhere writes
# files that are not `T`.
_PLACE = {'eq': 'eq', 'file': ['persistent', 'eq.m.json'], 'chain': [[], ['persistent']]}
_places = {}


def use_place(ctx, eq):
    """every Bench created from now on belongs to a node with this equipment id"""
    if eq not in _places:
        a = ctx.driver.batch([{'p': 'C17', 'k': 'place', 'eq': eq, 'mod': MODNAME}])[0]
        if 'driver_error' in a:
            raise RuntimeError(f'driver error: {a}')
        if a['file'][:1] != ['persistent'] or any(c in ('', '.', '..') or '/' in c for c in a['file']):
            raise RuntimeError(f'place outside the scratch directory: {a}')
        _places[eq] = {'eq': eq, 'file': a['file'], 'chain': a['chain']}
    _PLACE.clear()
    _PLACE.update(_places[eq])

# the real functions, taken before anything is replaced: the file layer itself and everything the harness does on its own
# behalf (snapshots, preparing a directory) use these
_open, _rename, _replace, _remove, _unlink = builtins.open, os.rename, os.replace, os.remove, os.unlink


# ----------------------------------------------------------------------------------------
# stubs
# ----------------------------------------------------------------------------------------
class _SecNode:
    def __init__(self):
        self.equipment_id = _PLACE['eq']


class _Dispatcher:
    def announce_update(self, moduleobj, pobj):
        pass


class _Logger:
    handlers = []

    def debug(self, *a, **k):
        pass
    info = warning = exception = error = debug

    def getChild(self, *a):
        return self


class _Srv:
    def __init__(self):
        self.dispatcher = _Dispatcher()
        self.secnode = _SecNode()


class _Clock:
    """stands in for the `time` module inside frappy.modulebase: every reading is 10 s later"""

    def __init__(self, real):
        self._real = real
        self.now = 2.0e9

    def time(self):
        self.now += 10.0
        return self.now

    def __getattr__(self, name):
        return getattr(self._real, name)


class Injected(OSError):
    pass


# ----------------------------------------------------------------------------------------
# FaultFS
# ----------------------------------------------------------------------------------------
class FaultFS:
    """file layer seen by frappy.persistent: logs, injects one OSError, snapshots the directory"""

    def __init__(self, root, buf=None):
        self.root = str(root)
        self.pdir = os.path.join(self.root, 'persistent')
        self.tname = os.path.join(*_PLACE['file'][1:])      # relative to `pdir`; may lie in a subdirectory
        self.chain = [os.path.join(self.root, *c) for c in _PLACE['chain']]   # log directory ... directory of the file
        self.buf = buf         # None: the buffering of the builtin open; [buffer size, text chunk size]: a smaller one
        self.reset()

    def reset(self, fault=None):
        self.log = []          # write-side events, canonical
        self.snaps = []        # after each write-side event: (target, tmp, listing)
        self.reads = []
        self.n = 0
        self.fault = fault     # {'idx': k, 'part': fraction, 'sticky': bool, 'cleanup': bool}
        self.fired = False

    # -- helpers
    def canon(self, p):
        p = str(p)
        p = p[len(self.pdir) + 1:] if p.startswith(self.pdir + os.sep) else os.path.relpath(p, self.pdir)
        if p == self.tname:
            return TARGET
        if p == self.tname + '.tmp':
            return TMP
        return p

    def content(self, name):
        try:
            with _open(os.path.join(self.pdir, name), 'rb') as f:
                return f.read()
        except OSError:
            return None

    def files(self):
        """every regular file below the log directory: [(components below the log directory, path)]"""
        out = []
        for d, _, fns in os.walk(self.root):
            for fn in fns:
                path = os.path.join(d, fn)
                out.append((os.path.relpath(path, self.root).split(os.sep), path))
        return sorted(out)

    def tree(self):
        """-> [[components, content as hex]] of every regular file below the log directory"""
        out = []
        for comps, path in self.files():
            try:
                with _open(path, 'rb') as f:
                    out.append([comps, f.read().hex()])
            except OSError:
                pass
        return out

    def state(self):
        """(content of the file, content of its temporary neighbour, canonical names of all files below the log directory)"""
        return (self.content(self.tname), self.content(self.tname + '.tmp'), sorted(self.canon(path) for _, path in self.files()))

    def dirs(self):
        """which directories exist, from the log directory down to the directory of the file"""
        return [os.path.isdir(d) for d in self.chain]

    def set_dirs(self, have):
        """puts back a state of the directories in which fewer existed: the first one that was missing is removed with its tree"""
        for d, h in zip(self.chain, have):
            if not h:
                shutil.rmtree(d, ignore_errors=True)
                break

    def wipe(self, depth):
        """the tree below (and including) the `depth`-th directory on the way to the file disappears"""
        shutil.rmtree(self.chain[min(depth, len(self.chain) - 1)], ignore_errors=True)

    def set_state(self, target, tmp):
        """puts the two files into this state; directories are created only if a file is to be written"""
        for name, c in ((self.tname, target), (self.tname + '.tmp', tmp)):
            path = os.path.join(self.pdir, name)
            if c is None:
                try:
                    _remove(path)
                except OSError:
                    pass
            else:
                os.makedirs(os.path.dirname(path), exist_ok=True)
                with _open(path, 'wb') as f:
                    f.write(c)

    def _event(self, ev, action, partial=None):
        """one write-side operation: maybe fail instead of acting, then snapshot"""
        k = self.n
        self.n += 1
        self.log.append(ev)
        try:
            if self.fault is not None and self.fault['idx'] == k and not self.fired:
                self.fired = ev[0]
                if partial is not None:
                    partial(ev)
                ev.append('FAULT')
                raise Injected(5, 'injected I/O error')
            if self.fired and ev[0] == 'remove' and self.fault.get('cleanup'):
                # a second fault, in the clean-up path: the remove of the `finally` fails as well
                ev.append('FAULT')
                raise Injected(5, 'injected I/O error in the clean-up')
            if self.fired == 'write' and ev[0] == 'write' and self.fault.get('sticky'):
                # the disk is full: a write failed, and so does every later one (nothing of it reaches the file)
                ev[2] = ''
                ev.append('FAULT')
                raise Injected(28, 'injected: no space left on device')
            return action()
        finally:
            self.snaps.append(self.state())

    # -- the `os` facade
    def makedirs(self, p, mode=0o777, exist_ok=False):
        self.reads.append(['makedirs', self.canon(p)])
        return os.makedirs(p, mode, exist_ok)

    def inside(self, p):
        try:
            return os.fspath(p).startswith(self.pdir + os.sep)
        except TypeError:      # a file descriptor, bytes ...
            return False

    def rename(self, a, b, **kw):
        """os.rename / os.replace (and with them pathlib's rename / replace, shutil.move within a file system)"""
        if not (self.inside(a) or self.inside(b)):
            return _rename(a, b, **kw)
        return self._event(['rename', self.canon(a), self.canon(b)], lambda: _rename(a, b, **kw))

    def remove(self, p, **kw):
        """os.remove / os.unlink (and pathlib's unlink)"""
        if not self.inside(p):
            return _remove(p, **kw)
        return self._event(['remove', self.canon(p)], lambda: _remove(p, **kw))

    replace = rename
    unlink = remove

    def __getattr__(self, name):
        return getattr(os, name)

    # -- `open` (the builtin, io.open and with them pathlib's open / write_text / write_bytes, shutil's copies)
    def open(self, p, mode='r', buffering=-1, encoding=None, errors=None, newline=None, closefd=True, opener=None):
        if not self.inside(p):
            return _open(p, mode, buffering, encoding, errors, newline, closefd, opener)
        if 'w' in mode or 'a' in mode or '+' in mode or 'x' in mode:
            return self._event(['open', self.canon(p)],
                               lambda: self._wfile(p, mode, {'encoding': encoding, 'errors': errors, 'newline': newline}))
        self.reads.append(['open', self.canon(p)])
        return _open(p, mode, buffering, encoding, errors, newline, closefd, opener)

    def _wfile(self, p, mode, kwds):
        """what the builtin `open` returns for writing - Python's own text layer and buffered writer - on a raw file whose
        `write` and `close` (the operations that reach the file system) are logged, may fail, and are followed by a snapshot.
        Nothing is flushed on behalf of the code: what is on disk between two operations is what the real file object put there."""
        raw = _Raw(self, p, mode.replace('t', '').replace('b', ''))
        try:
            bs, chunk = self.buf if self.buf else (io.DEFAULT_BUFFER_SIZE, None)
            buffered = io.BufferedWriter(raw, bs)
            if 'b' in mode:
                return buffered
            text = io.TextIOWrapper(buffered, encoding=kwds.get('encoding'), errors=kwds.get('errors'), newline=kwds.get('newline'))
            if chunk:
                text._CHUNK_SIZE = chunk      # pylint: disable=protected-access
            return text
        except Exception:
            io.FileIO.close(raw)
            raise


class _Raw(io.FileIO):
    """the file descriptor level: `write` = bytes handed to the operating system, `close` = the descriptor is released"""

    def __init__(self, fs, p, mode):
        super().__init__(p, mode)
        self.fs = fs
        self.cname = fs.canon(p)
        self.released = False

    def write(self, b):
        b = bytes(b)

        def full():
            return io.FileIO.write(self, b)

        def partial(ev):
            n = int(len(b) * self.fs.fault.get('part', 0))
            if n:
                io.FileIO.write(self, b[:n])
            ev[2] = b[:n].hex()
        return self.fs._event(['write', self.cname, b.hex()], full, partial)

    def close(self):
        if self.released:
            return None
        self.released = True
        try:
            return self.fs._event(['close', self.cname], lambda: None)
        finally:
            io.FileIO.close(self)      # a close that reports an error has released the descriptor all the same


class InstrSnaps:
    """crash points at the granularity of the byte code of frappy/persistent.py, whatever API the code uses for its file
    operations: while active, the content of the persistent file is read (independent descriptor) before every instruction
    executed in a frame of that file; `seen` keeps the sequence of distinct contents with the line where each was first met.
    A process killed between two instructions leaves exactly one of these on disk."""

    def __init__(self, fs, fname, off=False):
        self.fs, self.fname, self.off = fs, fname, off
        self.seen = []
        self.path = None if off else os.path.join(fs.pdir, fs.tname)
        self.key = 0

    def __enter__(self):
        if not self.off:
            self.prev = sys.gettrace()
            sys.settrace(self._global)
        return self

    def __exit__(self, *a):
        if not self.off:
            sys.settrace(self.prev)

    def _global(self, frame, event, arg):
        if frame.f_code.co_filename == self.fname:
            frame.f_trace_opcodes = True
            return self._local
        return None

    def _local(self, frame, event, arg):
        try:
            st = os.stat(self.path)
            key = (st.st_ino, st.st_size, st.st_mtime_ns)
        except OSError:
            key = None
        if key != self.key:      # the content is read only when inode, size or modification time have changed
            self.key = key
            c = self.fs.content(self.fs.tname)
            if not self.seen or self.seen[-1][1] != c:
                self.seen.append((frame.f_lineno, c))
        return self._local


BUFFERINGS = [None, None, None, None, [16, 1], [16, 1], [64, 8], [64, 8], [256, 64], [1, 1]]


class _RecRaw(io.RawIOBase):
    def __init__(self):
        super().__init__()
        self.chunks = []

    def writable(self):
        return True

    def write(self, b):
        self.chunks.append(bytes(b))
        return len(b)


# ----------------------------------------------------------------------------------------
# datatypes, values, module classes
# ----------------------------------------------------------------------------------------
def build_dt(d):
    from frappy import datatypes as T
    k = d[0]
    if k == 'float':
        return T.FloatRange(d[1], d[2])
    if k == 'int':
        return T.IntRange(d[1], d[2])
    if k == 'scaled':
        return T.ScaledInteger(d[1], d[2], d[3])
    if k == 'bool':
        return T.BoolType()
    if k == 'enum':
        return T.EnumType('E', **d[1])
    if k == 'string':
        return T.StringType(0, d[1], isUTF8=d[2])
    if k == 'blob':
        return T.BLOBType(0, d[1])
    if k == 'array':
        return T.ArrayOf(build_dt(d[1]), d[2], d[3])
    if k == 'tuple':
        return T.TupleOf(*[build_dt(x) for x in d[1]])
    if k == 'struct':
        return T.StructOf(**{n: build_dt(x) for n, x in d[1].items()})
    raise ValueError(k)


def to_py(d, v):
    """plain (JSON-able) value -> python value fit for the datatype"""
    k = d[0]
    if k == 'blob':
        return bytes.fromhex(v)
    if k == 'array':
        return [to_py(d[1], x) for x in v]
    if k == 'tuple':
        return tuple(to_py(s, x) for s, x in zip(d[1], v))
    if k == 'struct':
        return {n: to_py(d[1][n], x) for n, x in v.items()}
    return v


STRINGS = ['', 'a', 'x y', 'quote"back\\slash', 'line\nfeed', 'ümläut €', '𝄞', '\t\u0001', '{"a": 1}', 'null']


def gen_dt(rng, depth=0):
    kinds = ['float', 'int', 'scaled', 'bool', 'enum', 'string', 'blob']
    if depth < 2:
        kinds += ['array', 'tuple', 'struct']
    k = rng.choice(kinds)
    if k == 'float':
        return rng.choice([['float', None, None], ['float', 0, 10], ['float', -1e3, 1e3], ['float', 1.5, 2.5]])
    if k == 'int':
        return rng.choice([['int', None, None], ['int', 0, 10], ['int', -5, 5], ['int', 0, 2 ** 40]])
    if k == 'scaled':
        return rng.choice([['scaled', 0.1, 0, 100], ['scaled', 0.25, -10, 10], ['scaled', 1, 0, 1000], ['scaled', 0.001, 0, 1]])
    if k == 'bool':
        return ['bool']
    if k == 'enum':
        return ['enum', rng.choice([{'off': 0, 'on': 1}, {'a': 1, 'b': 2, 'c': 5}, {'only': 7}])]
    if k == 'string':
        return ['string', rng.choice([None, 20, 40]), rng.random() < 0.5]
    if k == 'blob':
        return ['blob', rng.choice([8, 64])]
    if k == 'array':
        lo = rng.choice([0, 0, 1])
        return ['array', gen_dt(rng, depth + 1), lo, lo + rng.choice([1, 3, 5])]
    if k == 'tuple':
        return ['tuple', [gen_dt(rng, depth + 1) for _ in range(rng.choice([1, 2, 3]))]]
    return ['struct', {n: gen_dt(rng, depth + 1) for n in rng.sample(['i', 's', 'x', 'key2'], rng.choice([1, 2, 3]))}]


def dt_catalogue():
    """every container kind over every leaf kind, and the containers nested in each other over the leaves whose transport form
    differs from the value (scaled integers, blobs): the datatype combinations a round trip has to survive, each met in every
    run instead of when the random generator happens to build it"""
    leaves = [['float', 0, 10], ['int', 0, 2 ** 40], ['scaled', 0.1, 0, 100], ['bool'], ['enum', {'a': 1, 'b': 2, 'c': 5}],
              ['string', None, False], ['blob', 8]]
    out = []
    for leaf in leaves:
        out += [['array', leaf, 1, 3], ['tuple', [leaf, ['int', 0, 10]]], ['struct', {'x': leaf, 'i': ['int', 0, 10]}]]
    for leaf in (['scaled', 0.25, -10, 10], ['blob', 64]):
        out += [['array', ['array', leaf, 1, 2], 1, 2], ['array', ['tuple', [leaf, ['bool']]], 1, 3], ['array', ['struct', {'s': leaf}], 1, 2],
                ['tuple', [['array', leaf, 1, 3], ['string', 20, True]]], ['struct', {'key2': ['array', leaf, 1, 3]}],
                ['struct', {'x': ['tuple', [leaf, leaf]]}]]
    return out


def gen_val(rng, d, valid=True):
    """plain value; valid=False: may be outside the limits (a reading may be), still of the right type"""
    k = d[0]
    if k == 'float':
        lo = -1e6 if d[1] is None else d[1]
        hi = 1e6 if d[2] is None else d[2]
        c = [lo, hi, (lo + hi) / 2, lo + (hi - lo) * rng.random(), lo + (hi - lo) / 3]
        if d[1] is None:
            c += [1e300, -2.5e-300, 0.1 + 0.2, 5e-324]
        if not valid:
            c += [hi + 1 + abs(hi), lo - 7 - abs(lo)]
        return float(rng.choice(c))
    if k == 'int':
        lo = -2 ** 62 if d[1] is None else d[1]
        hi = 2 ** 62 if d[2] is None else d[2]
        c = [lo, hi, (lo + hi) // 2, rng.randint(lo, hi)]
        if not valid:
            c += [hi + 3, lo - 3]
        return rng.choice(c)
    if k == 'scaled':
        n0, n1 = int(round(d[2] / d[1])), int(round(d[3] / d[1]))
        c = [n0, n1, rng.randint(n0, n1), rng.randint(n0, n1)]
        if not valid:
            c += [n1 + 5, n0 - 5]
        return rng.choice(c) * d[1]
    if k == 'bool':
        return rng.choice([True, False])
    if k == 'enum':
        return rng.choice(list(d[1].values()))
    if k == 'string':
        s = rng.choice(STRINGS if d[2] else [x for x in STRINGS if x.isascii()])
        return s if d[1] is None else s[:d[1]]
    if k == 'blob':
        n = rng.randint(0, d[1])
        return bytes(rng.randrange(256) for _ in range(n)).hex()
    if k == 'array':
        return [gen_val(rng, d[1], valid) for _ in range(rng.randint(d[2], d[3]))]
    if k == 'tuple':
        return [gen_val(rng, s, valid) for s in d[1]]
    return {n: gen_val(rng, s, valid) for n, s in d[1].items()}


FLAG_SPELLINGS = {'on': ['on', 1, True], 'auto': ['auto', 2, 2.0], 'off': ['off', 0, False]}


def gen_spec(rng, big):
    n = rng.choice([1, 2, 2, 3, 4] + ([6] if big else []))
    params = []
    for i in range(n):
        d = gen_dt(rng)
        flag = rng.choice(['on', 'on', 'auto', 'auto', 'auto', 'off', None])
        write = rng.random() < 0.5
        params.append({'name': 'p%d' % i, 'dt': d, 'flag': flag, 'write': write,
                       'readonly': (not write) and rng.random() < 0.6, 'default': gen_val(rng, d)})
        if flag is not None:
            # how the flag is written: name, number or bool in the class definition; in 15 % the class says something else
            # and the configuration sets the property
            if rng.random() < 0.15:
                params[-1]['classflag'] = rng.choice(FLAG_SPELLINGS[rng.choice([k for k in FLAG_SPELLINGS if k != flag])])
                params[-1]['cfgflag'] = rng.choice(FLAG_SPELLINGS[flag][:2])
            else:
                params[-1]['classflag'] = rng.choice(FLAG_SPELLINGS[flag])
    cfg = {}
    for p in params:
        if rng.random() < 0.3:
            cfg[p['name']] = gen_val(rng, p['dt'])
    return {'params': params, 'cfg': cfg}


def edit_cfg(rng, spec):
    """the configuration of another run of the same module class: entries dropped, added, changed"""
    cfg = {}
    for p in spec['params']:
        r = rng.random()
        if p['name'] in spec['cfg'] and r < 0.3:
            cfg[p['name']] = spec['cfg'][p['name']]
        elif r < 0.6:
            cfg[p['name']] = gen_val(rng, p['dt'])
    return cfg


_classes = {}


def make_class(spec):
    key = json.dumps(spec['params'], sort_keys=True)
    if key in _classes:
        return _classes[key]
    from frappy.modules import Module
    from frappy.params import Parameter
    from frappy.persistent import PersistentParam, PersistentMixin
    attrs = {}
    for p in spec['params']:
        dt = build_dt(p['dt'])
        default = to_py(p['dt'], p['default'])
        if p['flag'] is None:
            attrs[p['name']] = Parameter('', dt, default=default, readonly=p['readonly'])
        else:
            attrs[p['name']] = PersistentParam('', dt, default=default, readonly=p['readonly'],
                                               persistent=p.get('classflag', p['flag']))
        if p['write']:
            def wfunc(self, value, _n=p['name']):
                self.wlog.append([_n, repr(value)])
                return value
            wfunc.__name__ = 'write_' + p['name']
            attrs['write_' + p['name']] = wfunc
    attrs['wlog'] = None
    cls = type('M', (PersistentMixin, Module), attrs)
    _classes[key] = cls
    if len(_classes) > 3000:
        _classes.clear()
    return cls


# ----------------------------------------------------------------------------------------
# running the implementation
# ----------------------------------------------------------------------------------------
class Bench:
    """one scratch directory + FaultFS + patched module namespaces"""

    def __init__(self, buf=None):
        import frappy.persistent as fp
        import frappy.modulebase as mb
        from frappy.lib import generalConfig
        self.fp, self.mb, self.gc = fp, mb, generalConfig
        self.root = tempfile.mkdtemp(prefix='verif-c17-')
        self.fs = FaultFS(self.root, buf)
        self.saved = (fp.__dict__.get('open'), fp.os, mb.time, getattr(generalConfig, '_config', None))
        generalConfig.testinit(logdir=Path(self.root))
        fp.open = self.fs.open
        fp.os = self.fs
        mb.time = _Clock(self.saved[2])
        # the same layer under every other way to the file system: the builtin open, io.open, os.rename / replace / remove /
        # unlink as looked up in their modules (pathlib, shutil ... find them there); paths outside the scratch directory pass through
        builtins.open = io.open = self.fs.open
        os.rename = os.replace = self.fs.rename
        os.remove = os.unlink = self.fs.remove

    def close(self):
        fp, mb = self.fp, self.mb
        builtins.open = io.open = _open
        os.rename, os.replace, os.remove, os.unlink = _rename, _replace, _remove, _unlink
        if self.saved[0] is None:
            fp.__dict__.pop('open', None)
        else:
            fp.open = self.saved[0]
        fp.os = self.saved[1]
        mb.time = self.saved[2]
        self.gc._config = self.saved[3]
        shutil.rmtree(self.root, ignore_errors=True)

    def instr(self):
        return InstrSnaps(self.fs, self.fp.__file__)

    def create(self, spec, fault=None, trace=False):
        """-> (module or None, exception class name or None)"""
        cls = make_class(spec)
        cfg = {'description': ''}
        for p in spec['params']:
            if p['name'] in spec['cfg']:
                cfg[p['name']] = {'value': to_py(p['dt'], spec['cfg'][p['name']])}
            if 'cfgflag' in p:
                cfg.setdefault(p['name'], {})['persistent'] = p['cfgflag']
        self.fs.reset(fault)
        self.created_instr = []
        try:
            if trace:
                with self.instr() as tr:
                    try:
                        m = cls('m', _Logger(), cfg, _Srv())
                    finally:
                        self.created_instr = tr.seen
            else:
                m = cls('m', _Logger(), cfg, _Srv())
        except Exception as e:  # pylint: disable=broad-except
            return None, type(e).__name__
        except RecursionError:
            return None, 'RecursionError'
        m.wlog = []
        return m, None


def values_of(m):
    return [[n, repr(p.value)] for n, p in m.parameters.items()]


def wd_of(m):
    return [[n, repr(v)] for n, v in m.writeDict.items()]


def hooks_of(m):
    """the parameters whose callback list holds the module's saveParameters (what `addCallback` registered and
    `announceUpdate` calls), in the order of the parameters"""
    return [n for n in m.parameters
            if any(getattr(cb, '__name__', None) == 'saveParameters' and getattr(cb, '__self__', None) is m
                   for cb, _ in m.paramCallbacks.get(n, ()))]


def hexo(b):
    return None if b is None else b.hex()


def do_action(m, spec, act):
    a = act['a']
    if a == 'set':
        p = next(x for x in spec['params'] if x['name'] == act['name'])
        m.announceUpdate(act['name'], m.parameters[act['name']].datatype(to_py(p['dt'], act['val'])))
    elif a == 'save':
        m.saveParameters()
    elif a == 'writeInit':
        m.writeInitParams()
    elif a == 'load':
        m.loadParameters()
    elif a == 'factoryReset':
        m.factory_reset()
    elif a == 'seterr':
        # an update that carries no valid value: a read error, or a value the datatype refuses
        if act.get('how') == 'invalid':
            m.announceUpdate(act['name'], object())
        else:
            from frappy.errors import HardwareError
            m.announceUpdate(act['name'], err=HardwareError('injected read error %s' % act.get('no', 0)))


def step_record(bench, m, exc):
    fs = bench.fs
    t, tmp, listing = fs.state()
    return {'evs': [list(e) for e in fs.log], 'snaps': list(fs.snaps), 'raised': exc is not None, 'exc': exc,
            'values': values_of(m) if m is not None else None, 'writeDict': wd_of(m) if m is not None else None,
            'writes': list(m.wlog) if m is not None else [], 'target': t, 'tmp': tmp, 'listing': listing,
            'hooks': hooks_of(m) if m is not None else None, 'dirs': fs.dirs(), 'tree': fs.tree()}


def litter_listing(rec):
    """the directory listing the litter monitor is to judge: when the remove of the temporary file was itself made to fail,
    the temporary file cannot be expected to be gone and is left out (anything else in the directory still counts)"""
    if any(e[0] == 'remove' and e[-1] == 'FAULT' for e in rec['evs']):
        return [x for x in rec['listing'] if x != TMP]
    return rec['listing']


def ser_chunks(data, buf=None):
    """the writes by which `json.dump(data, f, indent=2); f.write('\\n')` reaches the file descriptor when `f` is Python's
    text file with the given buffering, computed without the code under test: -> list of bytes"""
    raw = _RecRaw()
    bs, chunk = buf if buf else (io.DEFAULT_BUFFER_SIZE, None)
    f = io.TextIOWrapper(io.BufferedWriter(raw, bs), encoding='utf-8')
    if chunk:
        f._CHUNK_SIZE = chunk      # pylint: disable=protected-access
    json.dump(data, f, indent=2)
    f.write('\n')
    f.flush()
    chunks = list(raw.chunks)
    f.close()
    return chunks


def export_data(m):
    return {k: v.export_value() for k, v in m.parameters.items() if getattr(v, 'persistent', False)}


def run_impl(spec, case, trials=True, crash_budget=None, rng=None):
    """runs one history; returns dict with steps, fork trials, restarts"""
    bench = Bench(case.get('buf'))
    out = {'steps': [], 'trials': [], 'restarts': [], 'datas': [], 'objs': {}}
    try:
        fs = bench.fs
        init = case.get('file')
        fs.set_state(None if init is None else bytes.fromhex(init), None if case.get('stale') is None else bytes.fromhex(case['stale']))
        if case.get('have') is not None and init is None and case.get('stale') is None:
            # the first `have` directories on the way to the file exist, the others do not (0: not even the log directory)
            k = min(case['have'], len(fs.chain))
            if k:
                os.makedirs(fs.chain[k - 1], exist_ok=True)
            if k < len(fs.chain):
                shutil.rmtree(fs.chain[k], ignore_errors=True)
        pre = fs.state()
        pre_dirs = fs.dirs()
        m, exc = bench.create(spec, case.get('fault'), trace=True)
        rec = step_record(bench, m, exc)
        rec['pre'] = pre
        rec['pre_dirs'] = pre_dirs
        rec['instr'] = bench.created_instr
        out['steps'].append(rec)
        if m is None:
            return out
        out['module'] = m
        out['datas'].append(export_data(m))
        rec['data'] = out['datas'][-1]
        for act in case['acts']:
            pre = fs.state()
            pre_dirs = fs.dirs()
            if act['a'] == 'wipe':
                # not an action of the module: somebody removes a directory behind its back
                fs.wipe(act['depth'])
                fs.reset(None)
                m.wlog = []
                rec = step_record(bench, m, None)
                rec.update(pre=pre, pre_dirs=pre_dirs, instr=[], data=export_data(m))
                out['datas'].append(rec['data'])
                out['steps'].append(rec)
                continue
            believed = m.persistentData
            pstate = {n: (p.value, p.readerror, p.timestamp) for n, p in m.parameters.items()}
            wdstate = dict(m.writeDict)
            callbacks = {n: list(cbs) for n, cbs in m.paramCallbacks.items()}
            m.wlog = []
            fs.reset(act.get('fault'))
            exc = None
            with bench.instr() as tr:
                try:
                    do_action(m, spec, act)
                except Exception as e:  # pylint: disable=broad-except
                    exc = type(e).__name__
            rec = step_record(bench, m, exc)
            rec['pre'] = pre
            rec['pre_dirs'] = pre_dirs
            rec['instr'] = tr.seen
            rec['data'] = export_data(m)
            out['datas'].append(rec['data'])
            out['steps'].append(rec)
            # ---- fork: the same step under every single fault, each followed by a healthy next save.  The state of the module
            # (values, pending writes, persistentData, callback lists) and the disk are put back and the *action itself* is
            # repeated - so the save is triggered the way the step triggered it (saveParameters(), or through the callbacks of
            # announceUpdate for an update / writeInitParams / loadParameters / factory_reset) and that path meets every fault.
            # The next save is the next trigger of the same kind: for an update of an `auto` parameter the same value announced
            # again (as every poll does), otherwise an explicit saveParameters()
            if trials and act.get('fault') is None and rec['evs'] and not m.writeDict:
                post = fs.state()
                post_believed = m.persistentData
                post_callbacks = m.paramCallbacks
                nops = len(rec['evs'])
                via = act['a']

                def trigger(first):
                    if first:
                        for n, p in m.parameters.items():
                            p.value, p.readerror, p.timestamp = pstate[n]
                        m.writeDict.clear()
                        m.writeDict.update(wdstate)
                    if first or via == 'set':
                        do_action(m, spec, act)
                    else:
                        m.saveParameters()
                for k in range(nops):
                    # a write fails having written nothing / half of it / half of it and so does every later write (disk full)
                    kind = rec['evs'][k][0]
                    variants = [(0, False, False), (0.5, False, False), (0.5, True, False)] if kind == 'write' else [(0, False, False)]
                    if kind != 'remove' and (kind != 'write' or k % 3 == 1):
                        variants.append((0, False, True))      # ... and the remove of the clean-up fails as well
                    for part, sticky, cleanup in variants:
                        fs.set_dirs(pre_dirs)      # a save that had to create its directory meets every fault in that state, too
                        fs.set_state(pre[0], pre[1])
                        m.persistentData = believed
                        m.paramCallbacks = {n: list(cbs) for n, cbs in callbacks.items()}
                        fs.reset({'idx': k, 'part': part, 'sticky': sticky, 'cleanup': cleanup})
                        e1 = None
                        # instruction-level crash points: for the plain variant of each fault (they cost a traced run)
                        with (bench.instr() if (part, sticky, cleanup) == variants[0] else InstrSnaps(None, None, off=True)) as tr:
                            try:
                                trigger(True)
                            except Exception as e:  # pylint: disable=broad-except
                                e1 = type(e).__name__
                        t1 = step_record(bench, m, e1)
                        t1['instr'] = tr.seen
                        fs.reset(None)
                        e2 = None
                        try:
                            trigger(False)
                        except Exception as e:  # pylint: disable=broad-except
                            e2 = type(e).__name__
                        t2 = step_record(bench, m, e2)
                        out['trials'].append({'step': len(out['steps']) - 1, 'k': k, 'part': part, 'sticky': sticky, 'cleanup': cleanup, 'pre': pre, 'via': via,
                                              'first': t1, 'second': t2, 'data': rec['data']})
                fs.set_state(post[0], post[1])
                m.persistentData = post_believed
                m.paramCallbacks = post_callbacks
        return out
    finally:
        bench.close()


def restart(spec, target, tmp):
    """re-create the module from a directory holding these two files"""
    bench = Bench()
    try:
        bench.fs.set_state(target, tmp)
        cfg_spec = spec
        m, exc = bench.create(cfg_spec)
        rec = step_record(bench, m, exc)
        if m is not None:
            rec['hasWrite'] = {n: hasattr(m, 'write_' + n) for n in m.parameters}
            # what the model and the judges are told about the flags comes from the declaration (`flag` = what the class
            # definition and the configuration, in whatever spelling, mean), not from what the code made of it
            declared = {p['name']: p['flag'] for p in spec['params']}
            rec['persistent'] = {n: declared[n] in ('on', 'auto') if n in declared else bool(getattr(p, 'persistent', False))
                                 for n, p in m.parameters.items()}
            rec['auto'] = {n: declared[n] == 'auto' if n in declared else getattr(p, 'persistent', False) == 'auto'
                           for n, p in m.parameters.items()}
            rec['module'] = m
        return rec
    finally:
        bench.close()


def reload_from(spec, content):
    """a running module (started without file) finds `content` in its file when it calls loadParameters()"""
    bench = Bench()
    try:
        m, exc = bench.create(spec)
        if m is None:
            return None
        before = values_of(m)
        bench.fs.set_state(content, None)
        bench.fs.reset(None)
        m.wlog = []
        exc = None
        try:
            m.loadParameters()
        except Exception as e:  # pylint: disable=broad-except
            exc = type(e).__name__
        except RecursionError:
            exc = 'RecursionError'
        rec = step_record(bench, m, exc)
        rec['before'] = before
        rec['module'] = m
        return rec
    finally:
        bench.close()


# ----------------------------------------------------------------------------------------
# oracle tables for the Lean side
# ----------------------------------------------------------------------------------------
def tr(v):
    """decoded JSON -> JSON the Lean parser accepts (non-finite numbers tagged)"""
    if isinstance(v, float) and v != v:
        return {'__f__': 'nan'}
    if isinstance(v, float) and v in (float('inf'), float('-inf')):
        return {'__f__': 'inf' if v > 0 else '-inf'}
    if isinstance(v, list):
        return [tr(x) for x in v]
    if isinstance(v, dict):
        return {k: tr(x) for k, x in v.items()}
    return v


def top(v):
    if isinstance(v, dict):
        return {'kind': 'obj', 'pairs': [[k, tr(x)] for k, x in v.items()]}
    return {'kind': 'other', 'value': tr(v)}


def decode(b):
    """what open(..., encoding='utf-8') + json.load make of the bytes; None = not readable as JSON"""
    try:
        return True, json.loads(b.decode('utf-8'))
    except (ValueError, RecursionError):
        return False, None


class Tables:
    def __init__(self, spec, ref):
        self.spec = spec
        self.dts = {n: p.datatype for n, p in ref['module'].parameters.items()}
        self.vals = {n: {} for n in self.dts}       # name -> repr -> value
        self.parse = {}
        self.ser = {}
        self.imp = {}
        self.buf = None        # buffering of the file object of this case (decides the chunks in which a text reaches the file)

    def add_val(self, n, v):
        r = repr(v)
        if r not in self.vals[n]:
            self.vals[n][r] = v
            return True
        return False

    def add_file(self, b):
        if b is None or b.hex() in self.parse:
            return
        ok, dec = decode(b)
        self.parse[b.hex()] = (ok, dec)
        if ok and isinstance(dec, dict):
            for k, j in dec.items():
                self.add_json(k, j)

    def add_json(self, name, j):
        if name not in self.dts:
            return
        key = (name, json.dumps(j, sort_keys=True))
        if key in self.imp:
            return
        try:
            v = self.dts[name](self.dts[name].import_value(j))     # usable = the datatype can hold it
            self.add_val(name, v)
            self.imp[key] = (j, repr(v))
        except Exception:  # pylint: disable=broad-except
            self.imp[key] = (j, None)
        except RecursionError:
            self.imp[key] = (j, None)

    def add_data(self, data):
        key = json.dumps(data, sort_keys=False)
        if key not in self.ser:
            self.ser[key] = (data, ser_chunks(data, self.buf))
            self.add_file(b''.join(self.ser[key][1]))

    def close(self):
        """close the value sets under validate and export/import; returns the tables object for the driver"""
        for _ in range(4):
            grown = False
            for n, dt in self.dts.items():
                for v in list(self.vals[n].values()):
                    try:
                        grown |= self.add_val(n, dt.validate(dt.validate(v)))
                    except Exception:  # pylint: disable=broad-except
                        pass
                    try:
                        j = json.loads(json.dumps(dt.export_value(v)))
                    except Exception:  # pylint: disable=broad-except
                        continue
                    before = len(self.vals[n])
                    self.add_json(n, j)
                    grown |= len(self.vals[n]) != before
            if not grown:
                break
        exp, wval = [], []
        for n, dt in self.dts.items():
            for r, v in self.vals[n].items():
                try:
                    exp.append({'name': n, 'val': r, 'json': tr(json.loads(json.dumps(dt.export_value(v))))})
                except Exception:  # pylint: disable=broad-except
                    pass
                try:
                    res = repr(dt.validate(dt.validate(v)))
                except Exception:  # pylint: disable=broad-except
                    res = None
                wval.append({'name': n, 'val': r, 'res': res})
        # the laws the reload theorems assume of the datatypes, tested on every value an import produced:
        # (codec) import(export v) = v; (write path) validate accepts v unchanged or refuses it
        wv = {(e['name'], e['val']): e['res'] for e in wval}
        ex = {(e['name'], e['val']): e['json'] for e in exp}
        im = {(n, json.dumps(tr(j), sort_keys=True)): r for (n, _), (j, r) in self.imp.items()}
        self.laws = {'codec.ok': 0, 'codec.broken': [], 'wval.ok': 0, 'wval.broken': []}
        for (n, _), (_, r) in self.imp.items():
            if r is None:
                continue
            if wv.get((n, r)) in (None, r):
                self.laws['wval.ok'] += 1
            else:
                self.laws['wval.broken'].append([n, r, wv.get((n, r))])
            if (n, r) in ex:
                back = im.get((n, json.dumps(ex[(n, r)], sort_keys=True)), '<not imported>')
                if back == r:
                    self.laws['codec.ok'] += 1
                else:
                    self.laws['codec.broken'].append([n, r, back])
        return {
            'parse': [{'hex': h, 'dec': top(dec) if ok else None} for h, (ok, dec) in self.parse.items()],
            'ser': [{'dict': top(d), 'chunks': [c.hex() for c in ch]} for d, ch in self.ser.values()],
            'imp': [{'name': n, 'json': tr(j), 'val': r} for (n, _), (j, r) in self.imp.items()],
            'exp': exp, 'wval': wval}


# ----------------------------------------------------------------------------------------
# histories
# ----------------------------------------------------------------------------------------
EQ_SEGMENTS = ['eq', 'ex.frappy.demo', 'lab', 'cryo7', 'a', 'rack 3', 'x.y', 'ümlaut', '.hidden', 'unit_1', '...']


def gen_case(rng, spec, big):
    """a history without faults (`place_faults` adds them)"""
    acts = []
    names = [p['name'] for p in spec['params']]
    pers = [p for p in spec['params'] if p['flag'] in ('on', 'auto')]
    if rng.random() < 0.7:
        # what the poller does first; from then on no configured write is pending and saves are not deferred
        acts.append({'a': 'writeInit'})
    for _ in range(rng.randint(2, 9 if big else 6)):
        r = rng.random()
        if r < 0.41 and names:
            p = rng.choice(pers or spec['params'])
            act = {'a': 'set', 'name': p['name'], 'val': gen_val(rng, p['dt'], valid=rng.random() < 0.85)}
            if p['flag'] == 'on' and rng.random() < 0.5:
                # what a module with `persistent='on'` parameters does itself: save explicitly after the change
                acts.append(act)
                act = {'a': 'save'}
        elif r < 0.48 and names:
            act = {'a': 'seterr', 'name': rng.choice(pers or spec['params'])['name'], 'how': rng.choice(['err', 'err', 'invalid']),
                   'no': rng.randrange(2)}
        elif r < 0.65:
            act = {'a': 'save'}
        elif r < 0.8:
            act = {'a': 'writeInit'}
        elif r < 0.9:
            act = {'a': 'load'}
        else:
            act = {'a': 'factoryReset'}
        acts.append(act)
    case = {'acts': acts, 'file': None, 'stale': None, 'fault': None, 'buf': rng.choice(BUFFERINGS)}
    # where the file lives: the equipment id is free text; 40 % contain path separators (the file then lives in a subdirectory
    # of <logdir>/persistent), some with superfluous ones.  (Not generated: ids starting with '/' or with a component '..' -
    # the file would leave the scratch directory; outside the model, see Small/PersistPlace.)
    if rng.random() < 0.4:
        segs = [rng.choice(EQ_SEGMENTS) for _ in range(rng.randint(2, 3))]
        case['eq'] = rng.choice(['/', '/', '/', '//', '/./']).join(segs) + rng.choice(['', '', '', '/'])
    elif rng.random() < 0.5:
        case['eq'] = rng.choice(EQ_SEGMENTS)
    # which directories exist at the first start (None: whatever the preparation of the files left; 0: not even the log directory)
    if rng.random() < 0.5:
        case['have'] = rng.randint(0, 4)
    # directories disappear while the module runs (25 % of the histories): the tree below the log directory, <logdir>/persistent
    # or a subdirectory is removed; in 75 % a persistent parameter changes afterwards (saved at once if `auto`, else by an
    # explicit save), so that the next save has something to write
    if rng.random() < 0.25:
        for _ in range(rng.randint(1, 2)):
            at = rng.randint(0, len(acts))
            ins = [{'a': 'wipe', 'depth': rng.randint(0, 3)}]
            if pers and rng.random() < 0.75:
                p = rng.choice(pers)
                ins.append({'a': 'set', 'name': p['name'], 'val': gen_val(rng, p['dt'], valid=True)})
                if p['flag'] == 'on' or rng.random() < 0.3:
                    ins.append({'a': 'save'})
            acts[at:at] = ins
    if rng.random() < 0.15:
        case['fault'] = {'idx': rng.randint(0, 12), 'part': rng.choice([0, 0.5]), 'sticky': rng.random() < 0.3, 'cleanup': rng.random() < 0.2}
    if rng.random() < 0.25:
        case['stale'] = rng.choice([b'', b'{\n  "p0": 1', b'\xff\xfe garbage']).hex()
    return case


def place_faults(rng, spec, case):
    """decides which actions of the history meet an I/O error, and where.  A fault-free run of the history tells which steps
    save and with how many operations: 35 % of those get a fault aimed at the open, the first / last write, the close, the rename,
    the remove or a random operation of that very save (a step that does not save: 8 %, at a small index - it can only fire if the
    step saves after all because of an earlier fault).  What follows a failed save decides whether it "is attempted again by the
    next save instead of being considered done": after a failed *automatic* save (update of an `auto` parameter; the error is
    swallowed by announceUpdate) the history goes on, in 70 % of the cases, with 1-3 further updates of that same parameter and
    nothing else (but, sometimes, an update without valid value) - no explicit saveParameters(), no other parameter"""
    dry = run_impl(spec, dict(case, fault=None), trials=False)['steps']
    if dry[0]['values'] is None:
        return
    out = []
    for i, act in enumerate(case['acts']):
        out.append(act)
        n = len(dry[i + 1]['evs']) if i + 1 < len(dry) else 0
        if act['a'] == 'wipe':
            continue
        if n and rng.random() < 0.35:
            act['fault'] = {'idx': rng.choice([0, 1, n - 4, n - 3, n - 2, n - 1, rng.randrange(n)]) % n, 'part': rng.choice([0, 0.5, 1]),
                            'sticky': rng.random() < 0.3, 'cleanup': rng.random() < 0.2}
            if act['a'] == 'set' and rng.random() < 0.7:
                p = next(x for x in spec['params'] if x['name'] == act['name'])
                for _ in range(rng.randint(1, 3)):
                    if rng.random() < 0.2:
                        out.append({'a': 'seterr', 'name': p['name'], 'how': rng.choice(['err', 'invalid']), 'no': rng.randrange(2)})
                    out.append({'a': 'set', 'name': p['name'], 'val': gen_val(rng, p['dt'], valid=rng.random() < 0.85)})
        elif not n and rng.random() < 0.08:
            act['fault'] = {'idx': rng.choice([0, 1, 2, 3, 5, 8]), 'part': rng.choice([0, 0.5, 1])}
    case['acts'] = out


def model_request(spec, case, ref, impl, tables):
    """the `hist` request; faults carry the partial bytes the implementation really wrote"""
    steps = impl['steps']

    def fault_json(f, rec):
        if f is None:
            return None
        part, after = '', []
        for k, e in enumerate(rec['evs']):
            if e[-1] == 'FAULT' and e[0] == 'write':
                part = e[2]
                # what the file object still wrote (or tried to) when it was closed on the way out: an input of the model, like `part`
                for e2 in rec['evs'][k + 1:]:
                    if e2[0] != 'write':
                        break
                    after.append([e2[2], e2[-1] == 'FAULT'])
                break
        return {'idx': f['idx'], 'part': part, 'after': after, 'cleanup': bool(f.get('cleanup'))}
    given = {p['name']: p['name'] in spec['cfg'] for p in spec['params']}
    userwrite = {p['name']: p['write'] for p in spec['params']}
    dts = {p['name']: p['dt'] for p in spec['params']}
    params = [{'name': n, 'persistent': ref['persistent'][n], 'auto': ref['auto'][n], 'given': given.get(n, False),
               'hasWrite': ref['hasWrite'][n], 'driver': userwrite.get(n, False), 'value': v} for n, v in ref['values']]
    # what Module._handle_writes registered: the configured value as written in the configuration (not yet converted)
    wd0 = [[p['name'], repr(to_py(dts[p['name']], spec['cfg'][p['name']]))] for p in params if p['given'] and p['hasWrite']]
    acts = []
    for i, act in enumerate(case['acts']):
        rec = steps[i + 1] if i + 1 < len(steps) else {'evs': []}
        if act['a'] == 'wipe':
            acts.append({'a': 'wipe', 'depth': min(act['depth'], len(_PLACE['chain']) - 1)})
            continue
        a = {'a': act['a'], 'fault': fault_json(act.get('fault'), rec)}
        if act['a'] == 'set':
            a['name'] = act['name']
            p = next(x for x in spec['params'] if x['name'] == act['name'])
            dt = ref['module'].parameters[act['name']].datatype
            a['val'] = repr(dt(to_py(p['dt'], act['val'])))
        elif act['a'] == 'seterr':
            a['name'] = act['name']
        acts.append(a)
    return {'p': 'C17', 'k': 'hist', 'tables': tables, 'params': params, 'wd0': wd0, 'file': case.get('file'),
            'stale': case.get('stale'), 'fault': fault_json(case.get('fault'), steps[0]), 'acts': acts,
            'eq': _PLACE['eq'], 'mod': MODNAME, 'dirs0': steps[0]['pre_dirs']}


def obs_step(rec):
    return {'evs': rec['evs'], 'writes': rec['writes'], 'raised': rec['raised'], 'values': rec['values'],
            'writeDict': rec['writeDict'], 'hooks': rec['hooks'], 'target': hexo(rec['target']), 'tmp': hexo(rec['tmp']),
            'dirs': rec['dirs']}


def new_bytes(data):
    return b''.join(ser_chunks(data))


def nongiven_saved(spec, ref, values):
    given = set(spec['cfg'])
    return [[n, v] for n, v in values if ref['persistent'].get(n) and n not in given]


_laws = []   # law statistics of the tables built since the last call of `take_laws`


def take_laws(res, full):
    """moves the law statistics into the result; a broken law is a hypothesis of the theorems not met by the real datatypes"""
    for lw in _laws:
        res.count('law.codec.ok', lw['codec.ok'])
        res.count('law.wval-idempotent.ok', lw['wval.ok'])
        for kind in ('codec.broken', 'wval.broken'):
            for b in lw[kind][:3]:
                res.disagreements.append({'case': full, 'model': 'law ' + kind.split('.')[0] + ' assumed by the reload theorems',
                                          'impl': b})
    del _laws[:]


def history_tables(spec, case, ref, impl):
    """oracle tables (json, datatypes) covering every value and file content of one history"""
    steps = impl['steps']
    tb = Tables(spec, ref)
    tb.buf = case.get('buf')
    for n, v in ref['module'].parameters.items():
        tb.add_val(n, v.value)
    if case.get('file') is not None:
        tb.add_file(bytes.fromhex(case['file']))
    # values seen (python objects are needed for the oracle tables): re-derive from reprs is impossible, so collect live
    for p in spec['params']:
        dt = tb.dts[p['name']]
        tb.add_val(p['name'], dt(to_py(p['dt'], p['default'])))
        if p['name'] in spec['cfg']:
            tb.add_val(p['name'], dt(to_py(p['dt'], spec['cfg'][p['name']])))
            tb.add_val(p['name'], to_py(p['dt'], spec['cfg'][p['name']]))
    for act in case['acts']:
        if act['a'] == 'set':
            p = next(x for x in spec['params'] if x['name'] == act['name'])
            tb.add_val(act['name'], tb.dts[act['name']](to_py(p['dt'], act['val'])))
    for rec in steps:
        for c in (rec['pre'][0], rec['target']):
            tb.add_file(c)
    tb.close()
    for d in impl['datas']:
        tb.add_data(d)
    # datas of intermediate value combinations cannot be enumerated in advance: add what the closure found
    tables = tb.close()
    _laws.append(tb.laws)
    return tables


def reload_requests(spec, case, ref, impl, tables):
    """-> [(step index, request)] for every loadParameters() of the history"""
    steps = impl['steps']
    return [(i, reload_request(ref, rec['pre'][0], [r['values'] for r in steps[:i]], rec['values'], tables))
            for i, rec in enumerate(steps) if i > 0 and case['acts'][i - 1]['a'] == 'load']


_shrunk = [0]
_shrunk_place = [0]


def reload_findings(spec, case, kind, steps, verdicts):
    """violation records for the reloads the Lean monitors rejected; verdicts = [(step index, answer of judge_reload)]"""
    out = []
    for i, a in verdicts:
        full = {'kind': kind, 'spec': spec, 'case': case, 'where': ['step', i]}
        now = dict(map(tuple, steps[i]['values']))
        if a['thisrun']:
            n = a['thisrun'][0]
            held = list(dict.fromkeys(dict(map(tuple, r['values']))[n] for r in steps[:i]))
            out.append({'sig': 'C17:reload-resurrects-overridden-value',
                        'what': f'loadParameters() at step {i} gave {a["thisrun"]} a value the parameter never had in this run '
                                f'({n} = {now[n]}; since start-up it held {held}; given in the configuration: {sorted(spec["cfg"])}): '
                                f'a value stored by an earlier run overrides what start-up decided', 'case': full})
        if a['restores']:
            out.append({'sig': 'C17:reload-not-restored',
                        'what': f'loadParameters() at step {i} did not restore {a["restores"]} to the usable stored value',
                        'case': full})
    return out


def shrink_reload(ctx, spec, case, ref, key):
    """smallest sub-history for which the Lean monitor still rejects a reload under the same clause (`key`)"""
    def fails(acts):
        c = dict(case, acts=acts)
        impl = run_impl(spec, c, trials=False)
        if impl['steps'][0]['values'] is None:
            return False
        rq = reload_requests(spec, c, ref, impl, history_tables(spec, c, ref, impl))
        return any(a.get(key) for a in ctx.driver.batch([r for _, r in rq])) if rq else False
    small = ddmin(case['acts'], fails, max_tests=60)
    del _laws[:]
    return dict(case, acts=small)


def place_requests(case, steps):
    """-> [(step index, `judge_place` request)] for every call of the history that met no injected I/O failure"""
    out = []
    for i, rec in enumerate(steps):
        act = case['acts'][i - 1] if i > 0 else {'a': 'start', 'fault': case.get('fault')}
        if act['a'] == 'wipe' or act.get('fault') is not None or rec['values'] is None:
            continue
        out.append((i, {'p': 'C17', 'k': 'judge_place', 'eq': _PLACE['eq'], 'mod': MODNAME, 'new': new_bytes(rec['data']).hex(),
                        'raised': rec['raised'], 'ops': len(rec['evs']), 'tree': rec['tree']}))
    return out


def place_finding(case, full, steps, where, a):
    rec = steps[where]
    what = 'module creation' if where == 0 else f'step {where} ({case["acts"][where - 1]["a"]})'
    found = dict((tuple(c), h) for c, h in rec['tree']).get(tuple(a['file']))
    return {'sig': 'C17:not-saved-in-place',
            'what': f'{what} met no I/O failure and ' + (f'raised {rec["exc"]}' if rec['raised'] else 'returned')
                    + f' after {len(rec["evs"])} file operations ({[e[:2] for e in rec["evs"]][:3]} ...); '
                    + ('its file does not exist' if found is None else 'its file does not hold the snapshot of the current values'
                       if found != new_bytes(rec['data']).hex() else 'its file is in place')
                    + (f', other files: {a["stray"]}' if a['stray'] else '') + f' - {place_text(rec)}',
            'case': dict(full, case=case, where=['step', where])}


def shrink_place(ctx, spec, case):
    """smallest sub-history (faults dropped) in which the Lean monitor still rejects what a call left at the place of the file"""
    def verdicts(acts):
        c = dict(case, acts=acts, fault=None)
        impl = run_impl(spec, c, trials=False)
        rq = place_requests(c, impl['steps'])
        return c, impl['steps'], [(i, a) for (i, _), a in zip(rq, ctx.driver.batch([r for _, r in rq]) if rq else []) if not a['ok']]
    plain = [{k: v for k, v in a.items() if k != 'fault'} for a in case['acts']]
    small = ddmin(plain, lambda acts: bool(verdicts(acts)[2]), max_tests=40)
    return verdicts(small)


def judge_failed_startup(ctx, res, spec, case, ref, first, full):
    """the save at the end of start-up hit the injected fault and module creation raised: that save is a save like any
    other (and the only one that can meet a missing file) - the file must be the complete old or the complete new
    snapshot at every moment, nothing may be left behind, and the next start-up must work"""
    twin_case = dict(case, fault=None, acts=[])
    twin_impl = run_impl(spec, twin_case, trials=False)
    twin = twin_impl['steps'][0]
    if twin['values'] is None or not twin['evs']:
        return
    new = new_bytes(twin['data'])
    # correspondence of the failed call: operations, fault mark, "raised", both files
    if ctx.model_ok:
        tables = history_tables(spec, twin_case, ref, twin_impl)
        del _laws[:]
        mo = ctx.driver.batch([model_request(spec, dict(case, acts=[]), ref, {'steps': [first]}, tables)])[0]
        if 'driver_error' in mo:
            raise RuntimeError(f'driver error: {mo}')
        keys = ('evs', 'raised', 'target', 'tmp', 'dirs')
        got, want = obs_step(first), mo['steps'][0]
        if any(got[k] != want[k] for k in keys):
            res.disagreements.append({'case': full, 'first_bad_step': 0, 'model': {k: want[k] for k in keys},
                                      'impl': {k: got[k] for k in keys}})
    reqs = [{'p': 'C17', 'k': 'judge_snapshots', 'old': hexo(first['pre'][0]), 'new': new.hex(),
             'snaps': [hexo(s[0]) for s in first['snaps']]},
            {'p': 'C17', 'k': 'judge_litter', 'target': TARGET, 'listing': litter_listing(first)}]
    again = restart(spec, first['target'], first['tmp'])
    if again['values'] is None:
        res.violations.append({'sig': 'C17:startup-aborted-after-crash:' + str(again['exc']),
                               'what': f'after a start-up whose save failed ({first["exc"]}), the next module creation raised {again["exc"]}',
                               'case': full})
    else:
        old = restart(spec, first['pre'][0], None)
        reqs.append({'p': 'C17', 'k': 'judge_restore',
                     'saved': [nongiven_saved(spec, ref, old['values'] or []), nongiven_saved(spec, ref, twin['values'])],
                     'restored': again['values']})
    ans = ctx.driver.batch(reqs)
    res.traces += len(reqs)
    res.count('start.failed-save-judged')
    k = next((i for i, e in enumerate(first['evs']) if e[-1] == 'FAULT'), None)
    res.count('start.fault.at.' + (first['evs'][k][0] if k is not None else 'unreached'))
    if ans[0]['bad'] is not None:
        snap = first['snaps'][ans[0]['bad']][0]
        res.violations.append({'sig': 'C17:file-empty' if snap == b'' else 'C17:file-partial-or-foreign',
                               'what': f'after operation {ans[0]["bad"]} ({first["evs"][ans[0]["bad"]][:2]}) of the save of a start-up that failed '
                                       f'the persistent file holds neither the old nor the new snapshot: {snap[:80]!r}', 'case': full})
    if not ans[1]['ok']:
        res.violations.append({'sig': 'C17:tmp-left-behind',
                               'what': f'after the failed start-up the directory holds {first["listing"]}', 'case': full})
    if len(ans) > 2 and not ans[2]['ok']:
        res.violations.append({'sig': 'C17:crash-restore-mixed',
                               'what': 'values restored after a failed start-up are neither the old nor the new set', 'case': full})


def check_case(ctx, res, spec, case, quick_crash=3, kind='history'):
    """run one history on the implementation, compare with the model, judge; appends to res"""
    use_place(ctx, case.get('eq', 'eq'))
    try:
        return _check_case(ctx, res, spec, case, quick_crash, kind)
    finally:
        use_place(ctx, 'eq')


def place_text(rec):
    return ('the file ' + '/'.join(['<logdir>'] + _PLACE['file']) + ', of the directories '
            + str(['/'.join(['<logdir>'] + c) for c in _PLACE['chain']]) + ' there were ' + str(rec.get('pre_dirs')) + ' before the call')


def _check_case(ctx, res, spec, case, quick_crash, kind):
    rng = ctx.rng
    # the reference module (what Module.__init__ makes of the class and the configuration: an input of the model) is created
    # at the plain default place, not at the place under test
    use_place(ctx, 'eq')
    ref = restart(spec, None, None)
    use_place(ctx, case.get('eq', 'eq'))
    if ref.get('module') is None:
        raise RuntimeError(f'reference module cannot be created: {ref["exc"]} {spec}')
    impl = run_impl(spec, case)
    steps = impl['steps']
    res.evaluations += 1
    full = {'kind': kind, 'spec': spec, 'case': case}
    first = steps[0]
    if first['values'] is None:
        # creation failed.  With a healthy file system that is the start-up clause; with an injected fault in the
        # initial save the statement does not demand that creation succeeds.
        if case.get('fault') is None:
            res.violations.append({'sig': 'C17:startup-aborted:' + str(first['exc']),
                                   'what': f'module creation raised {first["exc"]} with stored file content '
                                           f'{bytes.fromhex(case["file"] or "")[:60]!r} ({place_text(first)})', 'case': full})
        else:
            judge_failed_startup(ctx, res, spec, case, ref, first, full)
        res.count('start.aborted')
        return
    tables = history_tables(spec, case, ref, impl)
    take_laws(res, full)

    reqs, tags = [], []
    reqs.append(model_request(spec, case, ref, impl, tables))
    tags.append(('model', None))
    # ---- judges on the main line
    for i, rec in enumerate(steps):
        if rec['evs']:
            new = new_bytes(rec['data'])
            reqs.append({'p': 'C17', 'k': 'judge_snapshots', 'old': hexo(rec['pre'][0]), 'new': new.hex(),
                         'snaps': [hexo(s[0]) for s in rec['snaps']]})
            tags.append(('snap', ('step', i)))
            res.traces += 1
            reqs.append({'p': 'C17', 'k': 'judge_snapshots', 'old': hexo(rec['pre'][0]), 'new': new.hex(),
                         'snaps': [hexo(c) for _, c in rec.get('instr', [])]})
            tags.append(('instr', ('step', i)))
        elif len(rec.get('instr', [])) > 1:
            # no operation was seen by the file layer, and yet the file changed while code of persistent.py was running
            reqs.append({'p': 'C17', 'k': 'judge_snapshots', 'old': hexo(rec['pre'][0]), 'new': new_bytes(rec['data']).hex(),
                         'snaps': [hexo(c) for _, c in rec['instr']]})
            tags.append(('instr', ('step', i)))
            res.count('instr.change-without-logged-operation')
            reqs.append({'p': 'C17', 'k': 'judge_litter', 'target': TARGET, 'listing': litter_listing(rec)})
            tags.append(('litter', ('step', i)))
    # ---- where the file lives: every call that met no injected I/O failure (start-up, every action) must not fail, and if it
    # touched the file system the snapshot of the current values is in place - at the path the Lean model derives from equipment
    # id and module name, whatever directories existed - and nothing else is in the tree
    for i, rq in place_requests(case, steps):
        reqs.append(rq)
        tags.append(('place', i))
        res.traces += 1
        if steps[i]['evs']:
            res.count('place.saved.dirs-before=%s/%s' % (sum(steps[i]['pre_dirs']), len(steps[i]['pre_dirs'])))
    # ---- fork trials
    for j, t in enumerate(impl['trials']):
        new = new_bytes(t['data'])
        reqs.append({'p': 'C17', 'k': 'judge_snapshots', 'old': hexo(t['pre'][0]), 'new': new.hex(),
                     'snaps': [hexo(s[0]) for s in t['first']['snaps']]})
        tags.append(('snap', ('trial', j)))
        reqs.append({'p': 'C17', 'k': 'judge_snapshots', 'old': hexo(t['pre'][0]), 'new': new.hex(),
                     'snaps': [hexo(c) for _, c in t['first'].get('instr', [])]})
        tags.append(('instr', ('trial', j)))
        reqs.append({'p': 'C17', 'k': 'judge_litter', 'target': TARGET, 'listing': litter_listing(t['first'])})
        tags.append(('litter', ('trial', j)))
        reqs.append({'p': 'C17', 'k': 'judge_retry', 'new': new.hex(), 'mid': hexo(t['first']['target']),
                     'fin': hexo(t['second']['target']), 'ops2': len(t['second']['evs'])})
        tags.append(('retry', ('trial', j)))
        res.traces += 2
        if t['k'] == 0 and not t.get('cleanup'):
            res.count('fork.via-' + str(t.get('via')))
        res.count('fault.at.' + t['first']['evs'][t['k']][0] + ('.disk-full' if t.get('sticky') else '') + ('.and-cleanup' if t.get('cleanup') else '')
                  if t['k'] < len(t['first']['evs']) else 'fault.unreached')
    # ---- "a save that failed is attempted again by the next save" along the history itself: after a step in which a save hit the
    # injected fault and did not get the snapshot onto the disk, the next step that is a save by the documented triggers
    # (saveParameters(), or an update of an `auto` parameter, undisturbed, no write pending) must work again
    flags = {p['name']: p['flag'] for p in spec['params']}
    # Not demanded by the statement: that a module notices that somebody took its file away.  From the moment a wipe removed the
    # file until the next snapshot reaches the disk, a step that touches no file while its data are Python-== to what the file held
    # when it was taken away is excused by the two judges that ask "why did this save do nothing?" (retry along the history, round
    # trip after a silent save).  With any other data they judge as ever.
    excused, taken_away, on_disk = [False] * len(steps), False, None
    for i, rec in enumerate(steps):
        if i > 0 and case['acts'][i - 1]['a'] == 'wipe':
            if rec['pre'][0] is not None and rec['target'] is None:
                taken_away = True
                try:
                    on_disk = json.loads(rec['pre'][0].decode('utf-8'))
                except ValueError:
                    on_disk = None
            continue
        if rec['evs'] and rec['target'] is not None and rec['target'] == new_bytes(rec['data']):
            taken_away = False
        excused[i] = taken_away and not rec['evs'] and rec['data'] == on_disk
    failed_at = None
    for i, rec in enumerate(steps):
        if i == 0 or case['acts'][i - 1]['a'] == 'wipe':
            continue
        act = case['acts'][i - 1]
        newb = new_bytes(rec['data'])
        due = (act.get('fault') is None and not steps[i - 1]['writeDict'] and not rec['raised']
               and (act['a'] == 'save' or (act['a'] == 'set' and flags.get(act['name']) == 'auto')))
        if failed_at is not None and due and excused[i]:
            res.count('retry.in-history.after-wipe.excused')
        elif failed_at is not None and due:
            reqs.append({'p': 'C17', 'k': 'judge_retry', 'new': newb.hex(), 'mid': hexo(rec['pre'][0]),
                         'fin': hexo(rec['target']), 'ops2': len(rec['evs'])})
            tags.append(('retry-line', (failed_at, i)))
            res.traces += 1
            res.count('retry.in-history.via-' + act['a'])
            failed_at = None
        fired = next((e for e in rec['evs'] if e[-1] == 'FAULT'), None)
        if fired is not None:
            res.count('fault.in-history.at.' + fired[0] + ('.swallowed' if not rec['raised'] else ''))
            if rec['target'] != newb:
                failed_at = i
        elif rec['evs'] and rec['target'] == newb:
            failed_at = None
    # ---- restarts: after every clean save (round trip) and from crash snapshots
    cache = {}

    def restarted(target, tmp):
        key = (target, tmp)
        if key not in cache:
            r = restart(spec, target, tmp)
            cache[key] = r
        return cache[key]
    for i, rec in enumerate(steps):
        if i > 0 and case['acts'][i - 1]['a'] == 'wipe':
            continue
        if not rec['evs']:
            # a step that is a save by the documented triggers (saveParameters(), or a change of an `auto` parameter, while
            # no configured write is pending), was not disturbed and returned normally, but touched no file: the file
            # must hold the values already ("loading after saving restores ...").  Not demanded: that the module notices
            # that somebody took its file away - after a wipe, a save of the very data that were last put on disk is excused
            act = case['acts'][i - 1] if i > 0 else None
            if (act is not None and act.get('fault') is None and not rec['raised'] and not steps[i - 1]['writeDict']
                    and (act['a'] == 'save' or (act['a'] == 'set' and flags.get(act['name']) == 'auto'))):
                if excused[i]:
                    res.count('roundtrip.silent-save-after-wipe.excused')
                    continue
                r = restarted(rec['target'], rec['tmp'])
                reqs.append({'p': 'C17', 'k': 'judge_restore', 'saved': [nongiven_saved(spec, ref, rec['values'])],
                             'restored': r['values'] if r['values'] is not None else []})
                tags.append(('roundtrip', ('step', i)))
                res.traces += 1
                res.count('roundtrip.after-silent-save')
            continue
        cur = nongiven_saved(spec, ref, rec['values'])
        if rec['target'] is not None and rec['target'] == new_bytes(rec['data']):
            r = restarted(rec['target'], rec['tmp'])
            reqs.append({'p': 'C17', 'k': 'judge_restore', 'saved': [cur],
                         'restored': r['values'] if r['values'] is not None else []})
            tags.append(('roundtrip', ('step', i)))
            res.traces += 1
        old = restarted(rec['pre'][0], None)
        oldvals = nongiven_saved(spec, ref, old['values'] or [])
        snaps = list(dict.fromkeys((s[0], s[1]) for s in rec['snaps']))
        if quick_crash is not None and len(snaps) > quick_crash:
            keep = [snaps[0], snaps[-1]] + rng.sample(snaps[1:-1], quick_crash - 2)
            snaps = keep
        for s in snaps:
            r = restarted(s[0], s[1])
            if r['values'] is None:
                res.violations.append({'sig': 'C17:startup-aborted-after-crash:' + str(r['exc']),
                                       'what': f'module creation raised {r["exc"]} from a crash snapshot', 'case': full})
                continue
            reqs.append({'p': 'C17', 'k': 'judge_restore', 'saved': [oldvals, cur], 'restored': r['values']})
            tags.append(('crash-restore', ('step', i)))
            res.traces += 1
            res.count('crash.restart')
    # ---- reloads (loadParameters() in the running module): restored values, and where they come from
    for i, rq in reload_requests(spec, case, ref, impl, tables):
        reqs.append(rq)
        tags.append(('reload', ('step', i)))
        res.traces += 1
        res.count('reload.after-start' if i == 1 else 'reload.later')
    # ---- start-up precedence of the first creation
    reqs.append(start_request(spec, ref, case.get('file'), first['values'], tables))
    tags.append(('start', None))

    answers = ctx.driver.batch(reqs)
    for a in answers:
        if 'driver_error' in a:
            raise RuntimeError(f'driver error: {a} for {json.dumps(full)[:2000]}')
    # ---- correspondence
    model_steps = answers[0]['steps']
    impl_obs = [obs_step(r) for r in steps]
    if ctx.model_ok and model_steps != impl_obs:
        bad = next((i for i, (a, b) in enumerate(zip(model_steps, impl_obs)) if a != b), min(len(model_steps), len(impl_obs)))
        res.disagreements.append({'case': full, 'first_bad_step': bad,
                                  'model': model_steps[bad] if bad < len(model_steps) else None,
                                  'impl': impl_obs[bad] if bad < len(impl_obs) else None})
    # ---- verdicts of the monitors
    bad_reloads, bad_places = [], []
    for (tag, where), a in zip(tags[1:], answers[1:]):
        if tag == 'snap' and a['bad'] is not None:
            rec = steps[where[1]] if where[0] == 'step' else impl['trials'][where[1]]['first']
            snap = rec['snaps'][a['bad']][0]
            sig = 'C17:file-empty' if snap == b'' else 'C17:file-partial-or-foreign'
            res.violations.append({'sig': sig, 'what': f'after operation {a["bad"]} ({rec["evs"][a["bad"]][:2]}) of a save the '
                                   f'persistent file holds neither the old nor the new snapshot: {snap[:80]!r}',
                                   'case': dict(full, where=where)})
        elif tag == 'instr' and a['bad'] is not None:
            rec = steps[where[1]] if where[0] == 'step' else impl['trials'][where[1]]['first']
            line, snap = rec['instr'][a['bad']]
            res.violations.append({'sig': 'C17:file-empty' if snap == b'' else 'C17:file-partial-or-foreign',
                                   'what': f'between two instructions of frappy/persistent.py (line {line}) the persistent file holds '
                                           f'neither the old nor the new snapshot: {(snap or b"<no file>")[:80]!r}',
                                   'case': dict(full, where=where)})
        elif tag == 'place' and not a['ok']:
            bad_places.append((where, a))
        elif tag == 'litter' and not a['ok']:
            rec = steps[where[1]] if where[0] == 'step' else impl['trials'][where[1]]['first']
            res.violations.append({'sig': 'C17:tmp-left-behind', 'what': f'after the save returned the directory holds {rec["listing"]}',
                                   'case': dict(full, where=where)})
        elif tag == 'retry' and not a['ok']:
            t = impl['trials'][where[1]]
            res.violations.append({'sig': 'C17:failed-save-not-retried',
                                   'what': f'save ({ {"set": "update of an auto parameter", "save": "saveParameters()", None: "saveParameters()"}.get(t.get("via"), "inside " + str(t.get("via")))}) failed '
                                           f'with {t["first"]["exc"] or "an error swallowed by announceUpdate"} at operation {t["k"]} '
                                           f'({(t["first"]["evs"] or [["?"]])[min(t["k"], len(t["first"]["evs"]) - 1)][:2]}); the next one performed '
                                           f'{len(t["second"]["evs"])} file operations and the file still holds the old snapshot',
                                   'case': dict(full, where=where)})
        elif tag == 'retry-line' and not a['ok']:
            j, i = where
            act = case['acts'][i - 1]
            fired = next((e for e in steps[j]['evs'] if e[-1] == 'FAULT'), ['?'])
            res.violations.append({'sig': 'C17:failed-save-not-retried',
                                   'what': f'the save of step {j} ({case["acts"][j - 1]["a"]}) failed at its {fired[0]}; the next save, step {i} '
                                           f'({act["a"]}{" " + act["name"] if "name" in act else ""}), performed {len(steps[i]["evs"])} file '
                                           f'operations and the file does not hold the current values', 'case': dict(full, where=['step', i])})
        elif tag == 'roundtrip' and not a['ok']:
            res.violations.append({'sig': 'C17:roundtrip', 'what': f'values restored after save differ from the values saved at step {where[1]}',
                                   'case': dict(full, where=where)})
        elif tag == 'crash-restore' and not a['ok']:
            res.violations.append({'sig': 'C17:crash-restore-mixed', 'what': 'values restored from a crash snapshot are neither the old nor the new set',
                                   'case': dict(full, where=where)})
        elif tag == 'start' and a['bad']:
            res.violations.append({'sig': 'C17:startup-precedence', 'what': f'start-up values of {a["bad"]} are not cfg > stored > default',
                                   'case': full})
        elif tag == 'reload' and (a['thisrun'] or a['restores']):
            bad_reloads.append((where[1], a))
    if bad_places:
        small, sm_steps, verdicts = case, steps, bad_places
        if _shrunk_place[0] < 3:
            _shrunk_place[0] += 1
            c2, st2, v2 = shrink_place(ctx, spec, case)
            if v2:
                small, sm_steps, verdicts = c2, st2, v2
        res.violations.extend(place_finding(small, full, sm_steps, i, a) for i, a in verdicts)
    if bad_reloads:
        small, sm_steps, verdicts = case, steps, bad_reloads
        if _shrunk[0] < 3:
            _shrunk[0] += 1
            key = 'thisrun' if any(a['thisrun'] for _, a in bad_reloads) else 'restores'
            cand = shrink_reload(ctx, spec, case, ref, key)
            impl2 = run_impl(spec, cand, trials=False)
            rq = reload_requests(spec, cand, ref, impl2, history_tables(spec, cand, ref, impl2))
            v2 = [(i, a) for (i, _), a in zip(rq, ctx.driver.batch([r for _, r in rq])) if a.get('thisrun') or a.get('restores')]
            del _laws[:]
            if v2:
                small, sm_steps, verdicts = cand, impl2['steps'], v2
        res.violations.extend(reload_findings(spec, small, kind, sm_steps, verdicts))
    # ---- statistics
    nsaves = sum(1 for r in steps if r['evs'])
    faulted = sum(1 for r in steps if any(e[-1] == 'FAULT' for e in r['evs']))
    res.count('history.saves=%s' % min(nsaves, 4))
    res.count('place.subdirs=%s' % (len(_PLACE['chain']) - 2))
    res.count('history.wipes=%s' % sum(1 for a in case['acts'] if a['a'] == 'wipe'))
    res.count('history.faulted-inline=%s' % min(faulted, 2))
    for p in spec['params']:
        res.count('dt.' + p['dt'][0])
    if nsaves >= 2 and impl['trials']:
        res.nontriv(full)
    if len(res.samples) < 3 and nsaves >= 2 and len(case['acts']) <= 4:
        res.samples.append({'kind': kind, 'params': [[p['name'], p['dt'], p['flag']] for p in spec['params']], 'acts': case['acts'],
                            'ops_per_step': [len(r['evs']) for r in steps]})
    return impl


def slim(tables, filehex):
    """the part of the oracle tables the judges of one file content look at (plumbing: a request carries the entries for its
    own file instead of those of the whole case; an entry missing by mistake yields the marked value that fails the judge)"""
    parse = [e for e in tables['parse'] if e['hex'] == filehex]
    wanted = set()
    for e in parse:
        d = e['dec']
        if d and d.get('kind') == 'obj':
            for k, j in d['pairs']:
                wanted.add((k, json.dumps(j, sort_keys=True)))
    imp = [e for e in tables['imp'] if (e['name'], json.dumps(e['json'], sort_keys=True)) in wanted]
    vals = {(e['name'], e['val']) for e in imp if e['val'] is not None}
    wval = [e for e in tables['wval'] if (e['name'], e['val']) in vals]
    return {'parse': parse, 'ser': [], 'imp': imp, 'exp': [], 'wval': wval}


def reload_request(ref, file, history_values, actual_values, tables):
    """one call of loadParameters(): `file` = content of the file when it was called, `history_values` = the value
    lists at the end of start-up and after every action before the call"""
    actual = dict(map(tuple, actual_values))
    hist = [dict(map(tuple, v)) for v in history_values]
    obs = [{'name': n, 'persistent': ref['persistent'][n], 'hasWrite': ref['hasWrite'][n], 'before': hist[-1][n],
            'held': [h[n] for h in hist], 'actual': actual[n]} for n, _ in ref['values']]
    return {'p': 'C17', 'k': 'judge_reload', 'tables': slim(tables, hexo(file)), 'file': hexo(file), 'obs': obs}


def start_request(spec, ref, filehex, actual_values, tables):
    given = set(spec['cfg'])
    obs = [{'name': n, 'persistent': ref['persistent'][n], 'given': n in given, 'init': v,
            'actual': dict(map(tuple, actual_values))[n]} for n, v in ref['values']]
    return {'p': 'C17', 'k': 'judge_start', 'tables': slim(tables, filehex), 'file': filehex, 'obs': obs}


# ----------------------------------------------------------------------------------------
# corruptions of the stored file
# ----------------------------------------------------------------------------------------
def corruptions(rng, good, spec, big):
    """(label, bytes) pairs derived from a file the code itself wrote"""
    out = []
    if len(good) <= 400 or big:
        for i in range(len(good)):
            out.append(('truncate', good[:i]))
    else:
        for i in sorted(rng.sample(range(len(good)), 60)):
            out.append(('truncate', good[:i]))
    for _ in range(60 if not big else 400):
        i = rng.randrange(len(good))
        b = bytearray(good)
        b[i] ^= 1 << rng.randrange(8)
        out.append(('bitflip', bytes(b)))
    for t in (b'[]', b'[1,2]', b'5', b'null', b'"text"', b'true', b'{}', b'', b' ', b'\xff\xfe\x00', b'{"a":', b'NaN', b'[' * 5000,
              b'{"p0": ' + b'[' * 3000 + b']' * 3000 + b'}', b'\xef\xbb\xbf{}'):
        out.append(('type', t))
    try:
        d = json.loads(good)
    except ValueError:
        d = {}
    if isinstance(d, dict):
        d2 = dict(d)
        d2['nosuch'] = 1
        d2['description'] = 'x'
        out.append(('unknown-key', json.dumps(d2).encode()))
        for p in spec['params']:
            n = p['name']
            for bad in (None, 'x', [], {}, 1e999, -5, 10 ** 30, [1, 2, 3, 4, 5, 6, 7, 8, 9], {'i': 'x'}, True, '!!!', 1.5, [[[]]]):
                d3 = dict(d)
                d3[n] = bad
                try:
                    out.append(('entry:' + type(bad).__name__, json.dumps(d3).encode()))
                except ValueError:
                    pass
            d4 = dict(d)
            d4.pop(n, None)
            out.append(('missing-key', json.dumps(d4).encode()))
        out.append(('reordered', json.dumps(dict(reversed(list(d.items()))), indent=None).encode()))
        out.append(('int-as-float', json.dumps(d).replace(': 1,', ': 1.0,').encode()))
    return out


def check_corruptions(ctx, res, spec, big):
    rng = ctx.rng
    ref = restart(spec, None, None)
    if ref.get('module') is None or ref['target'] is None:
        return
    # a file written by the code for other values than the defaults
    case = {'acts': [], 'file': None, 'stale': None, 'fault': None}
    for p in spec['params']:
        if p['flag'] in ('on', 'auto'):
            case['acts'].append({'a': 'set', 'name': p['name'], 'val': gen_val(rng, p['dt'])})
    case['acts'] += [{'a': 'writeInit'}, {'a': 'save'}]
    impl = run_impl(spec, case, trials=False)
    good = impl['steps'][-1]['target']
    if good is None:
        return
    cors = corruptions(rng, good, spec, big)
    budget = None if big else 150
    if budget is not None and len(cors) > budget:
        keep = [c for c in cors if c[0] != 'truncate' and c[0] != 'bitflip']
        rest = [c for c in cors if c[0] in ('truncate', 'bitflip')]
        if len(good) <= 400:
            keep += [c for c in rest if c[0] == 'truncate']
            rest = [c for c in rest if c[0] == 'bitflip']
        cors = keep + rng.sample(rest, max(0, min(len(rest), budget - len(keep))))
    tb = Tables(spec, ref)
    for n, v in ref['module'].parameters.items():
        tb.add_val(n, v.value)
    results = []
    for label, content in cors:
        r = restart(spec, content, None)
        # the same content met by loadParameters() of a running module
        rl = reload_from(spec, content) if (big or label.split(':')[0] not in ('truncate', 'bitflip') or rng.random() < 0.3) else None
        results.append((label, content, r, rl))
        tb.add_file(content)
        for x in (r, rl):
            if x is not None and x['values'] is not None:
                for n, p in x['module'].parameters.items():
                    tb.add_val(n, p.value)
    tables = tb.close()
    reqs, meta = [], []
    for label, content, r, rl in results:
        if rl is not None:
            # only the restoring clause applies: the content is foreign to this run by construction
            reqs.append(reload_request(ref, content, [rl['before']], rl['values'], tables))
            meta.append(('reload', {'kind': 'corrupt', 'spec': spec, 'content': content.hex(), 'label': label}, rl))
            res.traces += 1
            res.count('corrupt.reload' + ('.raised' if rl['exc'] else ''))
        res.evaluations += 1
        res.count('corrupt.' + label.split(':')[0])
        full = {'kind': 'corrupt', 'spec': spec, 'content': content.hex(), 'label': label}
        if r['values'] is None:
            res.count('corrupt.aborted')
            res.violations.append({'sig': 'C17:startup-aborted:' + str(r['exc']),
                                   'what': f'module creation raised {r["exc"]} with stored file content ({label}) {content[:60]!r}',
                                   'case': full})
            continue
        ok, dec = decode(content)
        res.count('corrupt.readable-dict' if ok and isinstance(dec, dict) else 'corrupt.unreadable-or-nondict')
        if ok and isinstance(dec, dict) and dec and r['values'] != ref['values']:
            res.nontriv(full)
        reqs.append(start_request(spec, ref, content.hex(), r['values'], tables))
        meta.append(('start', full, r))
        res.traces += 1
        # the save at the end of start-up: atomic as well, and nothing left behind
        if r['evs']:
            new = new_bytes(export_data(r['module']))
            reqs.append({'p': 'C17', 'k': 'judge_snapshots', 'old': content.hex(), 'new': new.hex(), 'snaps': [hexo(s[0]) for s in r['snaps']]})
            meta.append(('snap', full, r))
            reqs.append({'p': 'C17', 'k': 'judge_litter', 'target': TARGET, 'listing': r['listing']})
            meta.append(('litter', full, r))
    answers = ctx.driver.batch(reqs)
    for (tag, full, r), a in zip(meta, answers):
        if 'driver_error' in a:
            raise RuntimeError(f'driver error: {a}')
        if tag == 'start' and a['bad']:
            res.violations.append({'sig': 'C17:startup-precedence',
                                   'what': f'start-up from a corrupted file ({full["label"]}): values of {a["bad"]} are not '
                                           f'cfg > usable stored > default', 'case': full})
        elif tag == 'reload' and a['restores']:
            res.violations.append({'sig': 'C17:reload-not-restored',
                                   'what': f'loadParameters() on a damaged file ({full["label"]}) did not restore {a["restores"]} to the '
                                           f'usable stored value' + (f' (it raised {r["exc"]})' if r['exc'] else ''), 'case': full})
        elif tag == 'snap' and a['bad'] is not None:
            res.violations.append({'sig': 'C17:file-partial-or-foreign', 'what': 'start-up save left a partial file', 'case': full})
        elif tag == 'litter' and not a['ok']:
            res.violations.append({'sig': 'C17:tmp-left-behind', 'what': f'start-up left {r["listing"]}', 'case': full})


# ----------------------------------------------------------------------------------------
def load_corpus(ctx):
    cdir = os.path.join(ctx.verif, 'corpus', 'C17')
    cases = []
    if os.path.isdir(cdir):
        for fn in sorted(os.listdir(cdir)):
            with open(os.path.join(cdir, fn)) as f:
                cases.append(json.load(f))
    return cases


def run_one(ctx, res, c, big):
    if c['kind'] == 'corrupt-family':
        check_corruptions(ctx, res, c['spec'], big)
    elif c['kind'] == 'corrupt':
        check_single_corruption(ctx, res, c)
    else:
        check_case(ctx, res, c['spec'], c['case'], quick_crash=None if big else 4, kind=c['kind'])


def check_single_corruption(ctx, res, c):
    spec = c['spec']
    content = bytes.fromhex(c['content'])
    ref = restart(spec, None, None)
    r = restart(spec, content, None)
    res.evaluations += 1
    if r['values'] is None:
        res.violations.append({'sig': 'C17:startup-aborted:' + str(r['exc']),
                               'what': f'module creation raised {r["exc"]} with stored file content {content[:60]!r}', 'case': c})
        return r
    tb = Tables(spec, ref)
    for n, p in list(ref['module'].parameters.items()) + list(r['module'].parameters.items()):
        tb.add_val(n, p.value)
    tb.add_file(content)
    rl = reload_from(spec, content)
    if rl is not None and rl['values'] is not None:
        for n, p in rl['module'].parameters.items():
            tb.add_val(n, p.value)
    tables = tb.close()
    reqs = [start_request(spec, ref, c['content'], r['values'], tables)]
    if rl is not None:
        reqs.append(reload_request(ref, content, [rl['before']], rl['values'], tables))
    ans = ctx.driver.batch(reqs)
    res.traces += len(reqs)
    if ans[0].get('bad'):
        res.violations.append({'sig': 'C17:startup-precedence', 'what': f'values of {ans[0]["bad"]} are not cfg > usable stored > default', 'case': c})
    if rl is not None and ans[1].get('restores'):
        res.violations.append({'sig': 'C17:reload-not-restored',
                               'what': f'loadParameters() on a damaged file did not restore {ans[1]["restores"]} to the usable stored value'
                                       + (f' (it raised {rl["exc"]})' if rl['exc'] else ''), 'case': c})
    return r


def run(ctx):
    res = Result()
    res.rule = ('histories: generated module classes (1..6 parameters over float/int/scaled/bool/enum/string/blob/array/tuple/struct, '
                'flags on/auto/off/none, with and without write methods, configured values) x histories of set/save/writeInit/load/'
                'factoryReset, persistent flag in any spelling / set in the configuration; the file object is Python\'s buffered text file '
                '(default buffering in 40 %, small buffers otherwise), operations = open / write / close on its raw file, rename, remove; '
                'faults placed with the help of a fault-free run (35 % of the saving steps: open, first / last write, close, rename, remove, '
                'random; 30 % of them as disk-full: later writes fail too), a failed automatic save is followed in 70 % by further updates '
                'of the same parameter and nothing else; at every undisturbed saving step of the history: an injected OSError at EVERY '
                'operation (writes also with a partial effect and as disk-full), through the trigger of the step (saveParameters() or the '
                'update of the auto parameter), each followed by the next healthy trigger; a directory snapshot after EVERY operation '
                'judged by the Lean monitor, restarts from crash snapshots, retry judged along the history as well; non-trivial = at least '
                'two saves that touched the disk and a fork of fault trials.  corruptions: truncation at every byte (files <= 400 B), bit flips, type changes, unknown/missing keys, bad '
                'entries, each met by a restart and by loadParameters() of a running module (quick tier: 30 % of the truncations and bit flips '
                'for the latter); non-trivial = readable dictionary that '
                'changes some restored value.  place: 40 % of the histories with an equipment id containing path separators (1-3 subdirectories), '
                '50 % with only some (or none) of the directories existing at the first start, 25 % with 1-2 removals of a directory tree '
                '(log directory, persistent, a subdirectory) between the actions, mostly followed by a change and its save.  datatype '
                'catalogue: every container kind over every leaf kind, containers nested over scaled / blob, one history each.  40 % of the histories start from the file of an earlier run, 60 % of those written under '
                'an edited configuration, half of them with loadParameters() right after start-up; every loadParameters() is judged '
                '(restored values, provenance of the values)')
    big = ctx.tier == 'thorough' or ctx.escalated
    rng = ctx.rng
    for c in load_corpus(ctx):
        run_one(ctx, res, c, big)
    for _ in range(ctx.budget(110, 400)):
        spec = gen_spec(rng, big)
        case = gen_case(rng, spec, big)
        use_place(ctx, case.get('eq', 'eq'))
        if rng.random() < 0.4:
            # start from a file written by an earlier run for (possibly) other values, or a damaged one; the configuration
            # may have been edited between the two runs (values added, removed, changed)
            prev_spec = spec
            if rng.random() < 0.6:
                prev_spec = dict(spec, cfg=edit_cfg(rng, spec))
                res.count('file.from-run-with-other-cfg')
            else:
                res.count('file.from-run-with-same-cfg')
            prev = run_impl(prev_spec, gen_case(rng, prev_spec, False), trials=False)
            t = prev['steps'][-1]['target']
            if t is not None:
                if rng.random() < 0.3 and len(t) > 2:
                    t = t[:rng.randrange(len(t))]
                case['file'] = t.hex()
                if rng.random() < 0.5:
                    # the documented reaction to a power cycle found at the first poll: reload right after start-up
                    case['acts'].insert(rng.choice([0, 0, 1]), {'a': 'load'})
        place_faults(rng, spec, case)
        if case.get('fault') is not None:
            # a fault in the save of start-up: aim at every kind of operation (open, first / last write, close, rename, remove)
            n = len(run_impl(spec, dict(case, fault=None, acts=[]), trials=False)['steps'][0]['evs'])
            if n:
                case['fault']['idx'] = rng.choice([0, 1, n - 4, n - 3, n - 2, n - 1, rng.randrange(n)]) % n
        check_case(ctx, res, spec, case, quick_crash=None if big else 4)
    # ---- datatype catalogue: one persistent parameter of each combination, changed and saved twice; every save that reached
    # the disk is followed by a restart judged by the round-trip monitor (plus everything else check_case does)
    for d in dt_catalogue():
        spec = {'params': [{'name': 'p0', 'dt': d, 'flag': 'on', 'write': False, 'readonly': False, 'default': gen_val(rng, d),
                            'classflag': 'on'}], 'cfg': {}}
        acts = []
        for _ in range(2):
            acts += [{'a': 'set', 'name': 'p0', 'val': gen_val(rng, d)}, {'a': 'save'}]
        check_case(ctx, res, spec, {'acts': acts, 'file': None, 'stale': None, 'fault': None, 'buf': None},
                   quick_crash=None if big else 3, kind='history')
        res.count('catalogue.dt')
    for _ in range(ctx.budget(12, 40)):
        check_corruptions(ctx, res, gen_spec(rng, False), big)
    return res


def replay(ctx, rp):
    res = Result()
    c = rp['case']
    run_one(ctx, res, c, False)
    print('case      :', json.dumps({k: v for k, v in c.items() if k != 'spec'})[:1500])
    print('parameters:', [[p['name'], p['dt'], p['flag']] for p in c['spec']['params']], 'cfg:', c['spec']['cfg'])
    for v in res.violations:
        print('judge     :', v['sig'], '-', v['what'])
    for d in res.disagreements:
        print('model/impl:', json.dumps({k: d[k] for k in ('first_bad_step', 'model', 'impl')}, default=str)[:1500])
    if not res.violations and not res.disagreements:
        print('judge     : ok (model and implementation agree, all monitors accept)')
    return 1 if res.violations else 0
