"""C05 — The update stream always reconstructs the node's parameter cache."""
import json
import os
import queue
import shutil
import socket
import sys
import io
import tempfile
import threading as _threading

from check import Result
from vlib.shrink import ddmin

META = {
    'level_text': 'Theorems for all histories, all clock readings, all oracles (datatype conversion, Python ==): replay_eq_cache / '
                  'reconstructs (folding the emitted update and error_update messages over the initial value-or-error gives the cached '
                  'value-or-error, after every prefix), order_preserved, never_phantom, recovery_announced(+_trace), change_announced; '
                  'for a client that knows NOTHING before it activates: snapshot_covers (the snapshot gives a state for every '
                  'subscribed parameter, and it is the cached one), activate_then_history / activate_replay_eq_cache (snapshot followed '
                  'by any history); and for all schedules of any number of threads — funnel calls and activate requests — over the '
                  'small-step system cut at the lock / store / notify / register / snapshot primitives: '
                  'one_thread_inside, sub_lock_nested, interleaving_atomic (the per-parameter log of a connection activated all along is the '
                  'message list of a sequential run of the completed calls), hist_is_interleaving (those calls are a shuffle of the thread '
                  'programs), quiescent_is_sequential, conc_ok, activation_coherent (in every reachable state a connection subscribed before '
                  'the run or sent the snapshot during it knows exactly the cache of every parameter with no call in flight), '
                  'snapshot_after_registration, conc_ok_activation; requests through the dispatcher are thread programs of the same system '
                  '(change_request_coherent / read_request_coherent / do_request_coherent: the calls of the funnel a change / read / do '
                  'request makes — assignments made by the body of write_<p> before it raises included — are part of the sequential '
                  'history, and the connection that sent the request knows the cache like any other listener); '
                  'tolerant_compare_drifts / tolerant_compare_breaks (a comparison with a tolerance lets a drift walk the cache away '
                  'without a message: exactness is necessary); replay_eq_cache_canonical, activation_coherent_canonical, '
                  'conc_ok_activation_canonical, cache_canonical (only results of the datatype ever reach the cache or the comparison — an '
                  'invariant of the small-step system —, so exactness of != is needed on canonical values only; that law and the '
                  'hypotheses "initial values and validate=False arguments are canonical" are tested on every case).  The models are tied to modulebase.announceUpdate, the '
                  'read/write wrappers, Parameter.__set__/finish and dispatcher.make_update/broadcast_event/handle_request/handle_activate by a '
                  'correspondence run (sequential histories with activations of several connections + labelled scheduled runs) and generated '
                  'source facts (callbacks_all_caught, activate_shape, funnel_shape: the comparison and the early returns of announceUpdate, '
                  'fanout_shape: every selected listener is sent the message, the request handlers ignore the sending connection); '
                  'histories contain change / read / do requests of listening and other connections, driver methods that assign the '
                  'parameter themselves (observed after every call of the funnel), and values closer to each other than the resolution '
                  'of their datatype (drifts); the Lean monitors judge every implementation trace from the activation of each connection on.  '
                  'The TRANSPORT of the stream (TCPRequestHandler.send_reply, the handle loop, finish, Dispatcher.remove_connection; model '
                  'Node/Transport.lean, the socket is a parameter: every sendall succeeds or raises after any part of the frame): '
                  'transport_all_or_closed (any sequence of send_reply calls and rounds of the handler loop: a running connection has received '
                  'every frame handed to it, a stopped one a prefix and is closed and forgotten by the next round; never a garbled line; '
                  'listed = not closed), served_receives_all, transport_activate_replay_eq_cache (snapshot + any history of funnel calls through '
                  'any socket behaviour: what a still listed peer RECEIVED replays to the cache), transport_preserves_statement (TraceOkO at '
                  'send_reply implies TraceOkT at the peer, point by point), skip_on_failure_breaks / _garbles (a transport that skips a frame '
                  'and goes on breaks the statement: closing is necessary), send_shape (generated source facts: every handler of the try around '
                  'sendall sets running = False, sendall only under `if self.running`, both loops of handle test running, finish in a finally, '
                  'finish -> remove_connection -> out of _connections / _active_connections / subscriptions, socket closed); suite tcp: the '
                  'connections of a history are real TCPRequestHandler threads over scripted sockets (requests go through the socket; sendall '
                  'of the n-th event message / reply fails with time-out, broken pipe, reset, OSError or another exception after 0 / some / '
                  'all-but-one bytes; the peer reads again afterwards or not), model (verb tcp) vs. bytes received + open / listed, judged by judgeT.',
    'level_note': 'Trusted: Lean kernel + axioms propext/Quot.sound; hypothesis CanonExact (canonical values Python\'s != does not tell apart '
                  'have the same exported form) is tested on every case; callbacks re-entering the SAME parameter, callback trees deeper than one follower level, callbacks raising '
                  'BaseException, callbacks inside the small-step (concurrent) system, change requests with partial structs '
                  '(validate with previous=cache) and DEactivation / disconnection (C08) are not modelled; the small-step system has one module (the per-module update locks of a general activation are '
                  'taken one after the other; only one is modelled); CPython executes a single '
                  'attribute store / list append atomically; atomicity is proved for the model\'s lock structure and validated against '
                  'the code by scheduled runs whose label sequence the model must follow.',
    'trusted': [
        'CanonExact: two CANONICAL values (results of the datatype) of one exported datatype for which `a != b` is false have the same '
        'exported form — tested on every case (a breach is reported as a disagreement); the unrestricted law ExportExact, under which '
        'the other theorems are stated, is false for raw values of some pools (-0.0/0.0, 1/True): use the _canonical versions',
        'vlib.sched yields before every lock/send primitive; one bytecode-level attribute store is atomic (GIL)',
        'an element of the error carrier stands for what SECoPError.__eq__ compares; the harness identifies it by (name, text)',
        'the test connections hash by their number, so the set iteration order in broadcast_event is ascending (configuration of the run)',
    ],
    'modelled_not_verified': [
        'datatype conversion / validation (oracle tables computed by the real datatypes)',
        'what a callback function does (oracle: returns / TypeError / other Exception, optional call of another funnel)',
        'the socket under TCPRequestHandler.send_reply: a parameter of the transport model (each sendall sends the whole frame or raises '
        'after part of it); in the tcp suite a scripted object, not a kernel socket: a full output buffer is represented by its effect '
        '(sendall raising socket.timeout); framing / encoding of a message (encode_msg_frame, decode_msg) is C07',
        'other interfaces than TCP (a RequestHandler subclass brings its own send_reply)',
        'which parameters a specifier subscribes to (computed by the harness: all exported parameters of the module(s) / the named one)',
        'import_value of the datum of a change request (oracle: the imported value or "refused"); partial structs are not sent',
    ],
    'assumptions': ['a connection, once activated, stays activated unless the node gives it up after a failed send (then it must be closed '
                    'and forgotten: transport suite); deactivation and disconnection by the client: C08',
                    'the handler thread of a connection looks at `running` at least once per receive time-out (1 s): between a failed send and '
                    'that moment the connection is still listed but silent; the statement is judged at quiescent points (after that round)',
                    'the clock never returns 0'],
}

TICKS = 8            # clock ticks per second (dyadic, exact in binary64)
T0 = 1000 * TICKS    # start of the virtual clock, in ticks


# ----------------------------------------------------------------------------------------
# parameter catalogue: datatype, valid raw values (first = default), invalid raw values
# ----------------------------------------------------------------------------------------
def catalogue():
    from frappy.datatypes import FloatRange, IntRange, StringType, BoolType, EnumType, ArrayOf, TupleOf, StructOf, \
        ScaledInteger, BLOBType
    nan = float('nan')
    return {
        'float': (lambda: FloatRange(0, 100), [0.0, 1.5, 100.0, 3, -0.0, True, 3.0, nan, 250.0], ['x', None, [1]]),
        'int': (lambda: IntRange(-5, 5), [0, 1, -5, 1.0, True, 77], ['a', 2.5, None]),
        'string': (lambda: StringType(), ['', 'a', 'ä"\\', 'a'], [5, None, b'a']),
        'bool': (lambda: BoolType(), [False, True, 1, 0], ['x', 2, None]),
        'enum': (lambda: EnumType('e', a=1, b=2), [1, 'b', 2, 'a'], [7, 'zz', None]),
        'array': (lambda: ArrayOf(IntRange(0, 9), 0, 3), [[], [1, 2], (1, 2), [1.0, 2]], [[1, 2, 3, 4], 5, ['x']]),
        'tuple': (lambda: TupleOf(FloatRange(), StringType()), [(0.0, ''), (1.0, 'a'), [1, 'a'], (-0.0, '')], [(1,), 'ab', None]),
        'struct': (lambda: StructOf(a=IntRange(), b=BoolType()), [{'a': 0, 'b': False}, {'a': 1, 'b': True}, {'b': 1, 'a': 1.0}],
                   [{'a': 'x', 'b': True}, 3, {'a': 1, 'b': True, 'c': 0}]),
        'scaled': (lambda: ScaledInteger(0.5, 0, 10), [0.0, 0.5, 1, 0.6], ['q', None]),
        'blob': (lambda: BLOBType(), [b'', b'ab', b'\x00\xff'], ['str', 5]),
        # values that differ by LESS than what the datatype calls its resolution (and by one unit in the last place): all of
        # them are different values of the parameter; the first six of each pool are a drift (each one close to its neighbour,
        # the ends further apart than the resolution)
        'floatres': (lambda: FloatRange(0, 100, absolute_resolution=0.01),
                     [50.0, 50.004, 50.008, 50.012, 50.016, 50.02, 49.996, 50.00000000000001, 0.0, 0.004, 100.0, 99.999], ['x', None, 250.0]),
        'floatrel': (lambda: FloatRange(relative_resolution=1e-3),
                     [1000.0, 1000.4, 1000.8, 1001.2, 1001.6, 1002.0, 999.6, 1000.0000000000001, 0.0, 1e-9, -1000.4], ['x', None]),
        'floatulp': (lambda: FloatRange(), [1.5, 1.5000001, 1.5000002, 1.5000003, 1.5000004, 1.5000005, 1.4999999,
                                            1.5000000000000002, 0.0, 5e-324, 1e-7, -1.5000001], ['x', None]),
        'arrayres': (lambda: ArrayOf(FloatRange(0, 10, absolute_resolution=0.1), 0, 2),
                     [[1.0, 2.0], [1.04, 2.0], [1.08, 2.0], [1.08, 2.04], [1.12, 2.04], [1.16, 2.08], [1.0], []], [[1.0, 2.0, 3.0], 5]),
        'scaledres': (lambda: ScaledInteger(0.01, 0, 10, absolute_resolution=0.05), [1.0, 1.01, 1.02, 1.03, 1.04, 1.05, 0.99, 1.004],
                      ['q', None]),
    }


# kinds whose pool starts with a drift: DRIFT_LEN successive values, each closer to its neighbour than the resolution
DRIFT_KINDS = ['floatres', 'floatrel', 'floatulp', 'arrayres', 'scaledres']
DRIFT_LEN = 6


def error_pool():
    from frappy.errors import CommunicationFailedError, HardwareError, InternalError, RangeError
    return [CommunicationFailedError('E0'), CommunicationFailedError('E1'), HardwareError('E0'), ValueError('E2'),
            RuntimeError('E2'), InternalError('ValueError: E2'), RangeError('E3'), KeyError('E4')]


# window settings: (update_unchanged, module omit_unchanged_within, general omit_unchanged_within); seconds, dyadic
UU = ['default', 'default', 'always', 'never', 0.5, 2.0, 0.0]
MW = [None, None, 0.0, 0.25, 1.0, 64.0]
GW = [0.0, 0.125, 1.0, 16.0]


class Clock:
    """stands in for the `time` module inside frappy.modulebase; `auto` ticks are added after every read"""

    def __init__(self, ticks, auto=0):
        self.ticks = ticks
        self.auto = auto
        self.reads = 0

    def time(self):
        t = self.ticks
        self.ticks += self.auto
        self.reads += 1
        return t / TICKS

    def sleep(self, dt):
        pass


class Ids:
    """numbering of Python values (type + repr), exported forms (canonical JSON) and errors (name + text)"""

    def __init__(self, dts):
        self.dts = dts            # pid -> datatype
        self.v = {}
        self.vobj = []
        self.x = {}
        self.e = {}

    def vid(self, pid, obj):
        key = (pid, type(obj).__name__, repr(obj))
        if key not in self.v:
            self.v[key] = len(self.vobj)
            self.vobj.append((pid, obj))
        return self.v[key]

    def xid_json(self, pid, exported):
        key = (pid, json.dumps(exported, sort_keys=True, default=repr))
        return self.x.setdefault(key, len(self.x))

    def xid(self, pid, obj):
        try:
            exported = self.dts[pid].export_value(obj)
        except Exception as e:
            exported = ['unexportable', type(e).__name__, repr(obj)]
        return self.xid_json(pid, exported)

    def eid_key(self, name, text):
        return self.e.setdefault((name, text), len(self.e))

    def eid(self, exc):
        from frappy.errors import secop_error
        se = secop_error(exc)
        return self.eid_key(se.name, se.format(True) if not se.raising_methods else str(se))


def oracle_tables(ids, pid, dt, raws):
    """conv / valid tables for the raw values of one parameter"""
    conv, valid = [], []
    for raw in raws:
        rid = ids.vid(pid, raw)
        for table, fn in ((conv, dt), (valid, dt.validate)):
            try:
                table.append([rid, ids.vid(pid, fn(raw)), None])
            except Exception as e:
                table.append([rid, None, ids.eid(e)])
    return conv, valid


def eq_pairs(ids, canon=None):
    """all ordered pairs of known values of one parameter for which `a != b` is false, and the export map; `bad_law` counts
    the pairs that break ExportExact (same under `!=`, different exported form) among ALL values of the pools, raw ones
    included; with `canon` (ids of the values that can reach the cache: results of the datatype, initial and observed cache
    values) the last result lists the pairs that break it among these — the hypothesis of `replay_eq_cache_canonical`"""
    pairs, bad_law, bad_canon = [], 0, []
    n = len(ids.vobj)
    ex = [ids.xid(p, o) for p, o in ids.vobj]
    for i in range(n):
        for j in range(n):
            if ids.vobj[i][0] != ids.vobj[j][0]:
                continue
            try:
                same = not (ids.vobj[i][1] != ids.vobj[j][1])
            except Exception:
                same = False
            if same:
                pairs.append([i, j])
                if ex[i] != ex[j]:
                    bad_law += 1
                    if canon is not None and i in canon and j in canon:
                        bad_canon.append([repr(ids.vobj[i][1]), repr(ids.vobj[j][1])])
    if canon is None:
        return pairs, ex, bad_law
    return pairs, ex, bad_law, bad_canon


def unvalidated_ids(wire_ops):
    """ids of the values announced with validate=False in a list of wire operations (they must be canonical)"""
    return [op[1] for op in wire_ops if op and op[0] == 'announce' and op[2] is None and op[3] is False and op[1] is not None]


def canon_ids(conv, valid, caches):
    """ids of the values that can reach the cache: every result of the datatype's conversion / validation, and every
    value seen in a cache (`caches`: Python-level observations ['v', id] / ['e', id])"""
    out = {row[1] for row in conv + valid if row[1] is not None}
    out |= {c[1] for c in caches if c[0] == 'v'}
    return out


def window_ticks(x):
    return None if x is None else int(round(x * TICKS))


def uu_model(uu, tables):
    if uu == 'default':
        return None
    if uu == 'always':
        return tables['always'] * TICKS
    if uu == 'never':
        return tables['never'] * TICKS
    return window_ticks(uu)


def make_class(specs):
    """specs: {pname: (datatype, default or NODEFAULT, update_unchanged, has_write, has_check[, readonly])}
    every generated class also has the parameter `h` that is NOT exported: no message may ever name it"""
    from frappy.datatypes import FloatRange
    from frappy.modules import Module
    from frappy.params import Command, Parameter
    attrs = {'h': Parameter('not exported', FloatRange(), default=0.0, readonly=False, export=False, update_unchanged='always')}
    for pn, spec in specs.items():
        dt, default, uu, has_write, has_check = spec[:5]
        readonly = bool(spec[5]) if len(spec) > 5 else False
        kw = {} if default is NODEFAULT else {'default': default}
        attrs[pn] = Parameter('generated', dt, readonly=readonly, update_unchanged=uu, **kw)

        def rfunc(self, pn=pn):
            r = run_body(self, pn, self.script[_threading.get_ident(), pn, 'r'])
            if isinstance(r, BaseException):
                raise r
            return r
        attrs['read_' + pn] = rfunc
        if has_write:
            def wfunc(self, value, pn=pn):
                r = run_body(self, pn, self.script[_threading.get_ident(), pn, 'w'])
                if isinstance(r, BaseException):
                    raise r
                return r
            attrs['write_' + pn] = wfunc
        def dfunc(self, pn=pn):
            r = run_body(self, pn, self.script[_threading.get_ident(), pn, 'd'])
            if isinstance(r, BaseException):
                raise r
        attrs['cmd_' + pn] = Command(description='generated: assigns the parameter, then returns or raises')(dfunc)
        if has_check:
            def cfunc(self, value, pn=pn):
                r = self.script[_threading.get_ident(), pn, 'c']
                if isinstance(r, BaseException):
                    raise r
                return r
            attrs['check_' + pn] = cfunc
    cls = type('Gen', (Module,), attrs)
    cls.script = None
    cls.observe = None
    return cls


class Body:
    """what the body of a generated read_<p> / write_<p> does: it assigns the parameter (any number of times: a driver that
    takes a value over, reports intermediate values, ...), then it returns or raises `result`"""

    def __init__(self, inner, result):
        self.inner = inner
        self.result = result


def run_body(mod, pn, r):
    if isinstance(r, Body):
        for v in r.inner:
            try:
                setattr(mod, pn, v)
            except Exception:
                pass
            if mod.observe is not None:
                mod.observe()          # the driver looks at the connections and the cache between its own calls of the funnel
        return r.result
    return r


class _NoDefault:
    def __repr__(self):
        return 'NODEFAULT'


NODEFAULT = _NoDefault()
PNAMES = ['p', 'q']


def build(case, clock, sched=None):
    """real node for a case; returns node, module, datatypes"""
    import frappy.modulebase as mb
    from vlib.node import Node
    cat = catalogue()
    specs, dts = {}, {}
    for pid, ps in enumerate(case['params']):
        factory, valid, _ = cat[ps['kind']]
        dt = factory()
        default = NODEFAULT if ps['nodefault'] else valid[0]
        specs[PNAMES[pid]] = (dt, default, ps['uu'], ps['has_write'], ps['has_check'], ps.get('readonly', False))
    cls = make_class(specs)
    cfg = {'cls': cls, 'description': 'generated'}
    if case['mw'] is not None:
        cfg['omit_unchanged_within'] = case['mw']
    mb.time = clock
    node = Node({'m': cfg}, omit_unchanged_within=case['gw'])
    m = node.modules['m']
    m.script = {}
    for pid in range(len(case['params'])):
        dts[pid] = m.parameters[PNAMES[pid]].datatype
    return node, m, dts


def raw_of(case, pid, idx):
    cat = catalogue()
    _, valid, invalid = cat[case['params'][pid]['kind']]
    pool = valid + invalid
    return pool[idx % len(pool)]


def pool_size(kind):
    _, valid, invalid = catalogue()[kind]
    return len(valid), len(valid) + len(invalid)


def split_inner(op):
    """['inner', [value indices], base operation] -> (indices, base); any other operation has no inner assignments"""
    if op[0] == 'inner':
        return list(op[1]), op[2]
    return [], op


def change_datum(dt, raw):
    """what a client sends in a `change` request for the pool value `raw`: the exported form when there is one"""
    try:
        return dt.export_value(dt(raw))
    except Exception:
        return raw


def change_import(dt, raw):
    """(True, value handed on by `import_value`) or (False, None) when `import_value` refuses the datum"""
    try:
        return True, dt.import_value(change_datum(dt, raw))
    except Exception:
        return False, None


def do_op(m, case, pid, op, errs, node=None, conns=None):
    """perform one operation on the real module; exceptions of the operation are part of the behaviour"""
    from frappy.modulebase import Done
    pn = PNAMES[pid]
    me = _threading.get_ident()
    inner_idx, op = split_inner(op)
    inner = [raw_of(case, pid, i) for i in inner_idx]
    body = (lambda r: Body(inner, r)) if inner else (lambda r: r)
    kind = op[0]
    if kind in ('rread', 'change', 'do') and conns and hasattr(conns[op[1] % len(conns)], 'script_ident'):
        me = conns[op[1] % len(conns)].script_ident()     # the request is handled by the thread of that connection
    try:
        if kind in ('read', 'rread'):
            res = op[1:] if kind == 'read' else op[2:]
            if res[0] == 'ret':
                m.script[me, pn, 'r'] = body(raw_of(case, pid, res[1]))
            elif res[0] == 'raise':
                m.script[me, pn, 'r'] = body(clone_error(errs[res[1] % len(errs)]))
            else:
                m.script[me, pn, 'r'] = body(Done)
            if kind == 'read':
                getattr(m, 'read_' + pn)()
            else:      # the same through the dispatcher: a `read` request of connection op[1]
                node.request(conns[op[1] % len(conns)], 'read', 'm:_' + pn, None)
        elif kind in ('write', 'change'):
            ridx, ck, w = op[1:] if kind == 'write' else op[2:]
            m.script[me, pn, 'c'] = RuntimeError('check') if ck == 'raise' else (ck == 'stop')
            if w[0] == 'ret':
                m.script[me, pn, 'w'] = body(raw_of(case, pid, w[1]))
            elif w[0] == 'raise':
                m.script[me, pn, 'w'] = body(clone_error(errs[w[1] % len(errs)]))
            elif w[0] == 'done':
                m.script[me, pn, 'w'] = body(Done)
            else:
                m.script[me, pn, 'w'] = body(None)
            if kind == 'write':
                getattr(m, 'write_' + pn)(raw_of(case, pid, ridx))
            else:      # a `change` request of connection op[1]
                node.request(conns[op[1] % len(conns)], 'change', 'm:_' + pn,
                             change_datum(m.parameters[pn].datatype, raw_of(case, pid, ridx)))
        elif kind == 'do':       # a `do` request of connection op[1]: the command assigns the parameter, then returns / raises
            m.script[me, pn, 'd'] = Body(inner, clone_error(errs[op[3] % len(errs)]) if op[2] == 'raise' else None)
            node.request(conns[op[1] % len(conns)], 'do', 'm:_cmd_' + pn, None)
        elif kind == 'assign':
            setattr(m, pn, raw_of(case, pid, op[1]))
        elif kind == 'hidden':
            m.h = float(op[1])                 # the funnel of a parameter that is not exported
        elif kind == 'announce':
            _, vidx, eidx, validate = op[:4]
            value, validate = announce_arg(m.parameters[pn].datatype, case, pid, vidx, eidx, validate)
            kw = {'timestamp': ts_value(op[4], T0)} if len(op) > 4 and op[4] is not None else {}
            m.announceUpdate(pn, value, None if eidx is None else clone_error(errs[eidx % len(errs)]), validate=validate, **kw)
    except Exception:
        pass


def announce_arg(dt, case, pid, vidx, eidx, validate):
    """`validate=False` promises an already converted value (docstring of announceUpdate): convert it first; when
    that is impossible the call is made with validate=True"""
    if vidx is None:
        return None, validate
    raw = raw_of(case, pid, vidx)
    if validate or eidx is not None:
        return raw, validate
    try:
        return dt(raw), False
    except Exception:
        return raw, True


def clone_error(e):
    """a fresh, equal exception object (the real drivers raise new objects every time)"""
    return type(e)(*e.args)


def wire_op(ids, case, pid, op, errs, nconn=1):
    """the operation as the Lean side sees it (numbers instead of Python objects)"""
    inner_idx, base = split_inner(op)
    if base[0] == 'do':
        return ['inner', [ids.vid(pid, raw_of(case, pid, i)) for i in inner_idx], ['do', base[1] % nconn + 1]]
    if inner_idx:
        return ['inner', [ids.vid(pid, raw_of(case, pid, i)) for i in inner_idx], wire_op(ids, case, pid, base, errs, nconn)]
    kind = op[0]
    if kind in ('read', 'rread'):
        head = ['read'] if kind == 'read' else ['rread', op[1] % nconn + 1]
        res = op[1:] if kind == 'read' else op[2:]
        if res[0] == 'ret':
            return head + ['ret', ids.vid(pid, raw_of(case, pid, res[1]))]
        if res[0] == 'raise':
            return head + ['raise', ids.eid(errs[res[1] % len(errs)])]
        return head + ['done']
    if kind in ('write', 'change'):
        ridx, ck, w = op[1:] if kind == 'write' else op[2:]
        ps = case['params'][pid]
        checks_ok = not (ps['has_check'] and ck == 'raise')
        if not ps['has_write']:
            wres = ['absent']
        elif w[0] == 'ret' and raw_of(case, pid, w[1]) is not None:
            wres = ['ret', ids.vid(pid, raw_of(case, pid, w[1]))]
        elif w[0] == 'raise':
            wres = ['raise']
        elif w[0] == 'done':
            wres = ['done']
        else:
            wres = ['none']
        if kind == 'write':
            return ['write', ids.vid(pid, raw_of(case, pid, ridx)), checks_ok, wres]
        ok, imp = change_import(ids.dts[pid], raw_of(case, pid, ridx))
        return ['change', op[1] % nconn + 1, bool(ps.get('readonly', False)), ids.vid(pid, imp) if ok else None, checks_ok, wres]
    if kind == 'assign':
        return ['assign', ids.vid(pid, raw_of(case, pid, op[1]))]
    if kind == 'hidden':
        return ['hidden', int(op[1])]
    _, vidx, eidx, validate = op[:4]
    value, validate = announce_arg(ids.dts[pid], case, pid, vidx, eidx, validate)
    return ['announce', None if vidx is None else ids.vid(pid, value),
            None if eidx is None else ids.eid(errs[eidx % len(errs)]), bool(validate)]


def op_kind(op):
    return split_inner(op)[1][0]


def cache_obs(ids, m, pid):
    """(python-level value-or-error, export-level value-or-error, timestamp in ticks)"""
    po = m.parameters[PNAMES[pid]]
    ts = int(round((po.timestamp or 0) * TICKS))
    if po.readerror:
        e = ['e', ids.eid_key(po.readerror.name, str(po.readerror))]
        return e, e, ts
    return ['v', ids.vid(pid, po.value)], ['v', ids.xid(pid, po.value)], ts


def msg_obs(ids, pid, msg):
    """(export-level value-or-error, t in ticks) of an update / error_update message"""
    t = msg[2][-1].get('t', 0)
    t = int(round(t * TICKS))
    if msg[0] == 'error_update':
        return ['e', ids.eid_key(msg[2][0], msg[2][1])], t
    if msg[0] == 'update':
        return ['v', ids.xid_json(pid, msg[2][0])], t
    return ['other', msg[0]], t


def spec_pid(spec):
    for i, pn in enumerate(PNAMES):
        if spec == 'm:_' + pn:
            return i
    return None


# ----------------------------------------------------------------------------------------
# activation: every connection's stream starts with its `activate` request (the snapshot is part of the stream)
# an activation step is ['activate', connection index, kind, target]: kind 'all' (no specifier), 'mod' (module
# `target`), 'par' (parameter p of module `target`); in the one-module suites `target` is the parameter index
# ----------------------------------------------------------------------------------------
ACT_KINDS = ['all', 'all', 'mod', 'par']


def norm_steps(steps):
    """a history without any activation (recorded before activations were observed) starts with the general
    activation of connection 0"""
    if any(st[1][0] == 'activate' for st in steps):
        return [list(st) for st in steps]
    return [[0, ['activate', 0, 'all', 0]]] + [list(st) for st in steps]


def n_conns(steps):
    """connections of a history: those that activate and those that send requests"""
    n = 1
    for st in steps:
        base = split_inner(st[1])[1]
        if base[0] in ('activate', 'change', 'rread', 'do'):
            n = max(n, base[1] + 1)
    return n


def act_pids(op, npids):
    """the parameters an activation subscribes to (and gets the snapshot of), in the order they are sent"""
    return list(range(npids)) if op[2] == 'all' else [op[3] % npids]


def drain_conns(ids, conns, pid_of):
    """what every connection received since the last call: [[pid, value-or-error, t], ...] per connection"""
    recv, other = [], []
    for c in conns:
        got = []
        for item in c.msgs:
            msg = item[0] if isinstance(item, tuple) and len(item) == 2 and isinstance(item[0], tuple) else item
            pid = pid_of(msg[1]) if msg[0] in ('update', 'error_update') else None
            if pid is None:
                other.append(str(msg[0]))
            else:
                ve, t = msg_obs(ids, pid, msg)
                got.append([pid, ve, t])
        c.msgs.clear()
        recv.append(got)
    return recv, other


def stream_judge_reqs(steps, outs, init_x, npids):
    """one request per (connection, parameter it subscribed to): its stream from the first activation covering the
    parameter on; the client knows nothing before (`init: null`), `prev` = the cache when that activation starts.
    returns [(connection index, pid, first step, request)]"""
    reqs = []
    for ci in range(n_conns(steps)):
        for pid in range(npids):
            first = next((i for i, st in enumerate(steps)
                          if st[1][0] == 'activate' and st[1][1] == ci and pid in act_pids(st[1], npids)), None)
            if first is None:
                continue
            prev = init_x[pid] if first == 0 else outs[first - 1]['caches_x'][pid]
            trace = [{'msgs': [ve for q, ve, _ in o['recv'][ci] if q == pid], 'cache': o['caches_x'][pid]}
                     for o in outs[first:]]
            reqs.append((ci, pid, first, {'p': 'C05', 'k': 'judge_seq', 'init': None, 'prev': prev, 'trace': trace}))
    return reqs


def compare_recv(run_outs, ans_outs, ex):
    if len(run_outs) != len(ans_outs):
        return f'{len(ans_outs)} model steps, {len(run_outs)} implementation steps'
    for i, (mo, io) in enumerate(zip(ans_outs, run_outs)):
        mr = [[[pid, ex_ve(ex, ve), t] for pid, ve, t in per] for per in mo['recv']]
        if mr != io['recv']:
            return f'step {i}: per connection received: model {mr} impl {io["recv"]}'
    return None


def drop_loggers(node):
    """the `logging` module keeps every logger ever made, and `Logger.setLevel` walks over all of them: forget the
    loggers of a node that is thrown away (otherwise a run is quadratic in the number of cases)"""
    import logging
    d = logging.Logger.manager.loggerDict
    prefix = node.root.name
    for name in [n for n in d if n == prefix or n.startswith(prefix + '.')]:
        del d[name]


def pool_closure(dt, raws):
    """the pool and what a `change` request makes of its values: `import_value` of the datum, and the validated value (the
    write wrapper validates what `_setParameterValue` has validated already)"""
    out = list(raws)
    seen = {(type(r).__name__, repr(r)) for r in raws}
    for raw in raws:
        ok, imp = change_import(dt, raw)
        cand = [imp] if ok else []
        for _ in range(2):
            try:
                cand.append(dt.validate(cand[-1]))
            except Exception:
                break
        for c in cand:
            key = (type(c).__name__, repr(c))
            if key not in seen:
                seen.add(key)
                out.append(c)
    return out


def prepare(case, errs):
    """ids, oracle tables and the initial entries of a freshly built node (the node is thrown away)"""
    clock = Clock(T0)
    node, m, dts = build(case, clock)
    ids = Ids(dts)
    conv, valid = [], []
    for pid, ps in enumerate(case['params']):
        _, nall = pool_size(ps['kind'])
        c, v = oracle_tables(ids, pid, dts[pid], pool_closure(dts[pid], [raw_of(case, pid, i) for i in range(nall)]))
        conv += c
        valid += v
        ids.vid(pid, m.parameters[PNAMES[pid]].value)
    for e in errs:
        ids.eid(e)
    drop_loggers(node)
    return ids, conv, valid


def entry_json(ids, m, case, pid, tables):
    po = m.parameters[PNAMES[pid]]
    return {'value': ids.vid(pid, po.value),
            'err': None if not po.readerror else ids.eid_key(po.readerror.name, str(po.readerror)),
            'ts': int(round((po.timestamp or 0) * TICKS)),
            'uu': uu_model(case['params'][pid]['uu'], tables), 'mw': window_ticks(case['mw']), 'gw': window_ticks(case['gw'])}


# ----------------------------------------------------------------------------------------
# sequential histories
# ----------------------------------------------------------------------------------------
def impl_seq(case, errs, tables):
    """run a history on the real code: request for the model, observation per step (operations and activations)"""
    import frappy.modulebase as mb
    saved = mb.time
    saved_out = sys.stdout
    try:
        ids, conv, valid = prepare(case, errs)
        clock = Clock(T0)
        node, m, dts = build(case, clock)
        ids.dts = dts
        steps = norm_steps(case['ops'])
        tcp = case.get('tcp')
        if tcp is not None:
            sys.stdout = io.StringIO()      # the request loop prints the traceback of every unexpected exception of a request
        if tcp is None:
            conns = [node.connect() for _ in range(n_conns(steps))]          # cids 1..n
            router = node
        else:
            conns = [TcpConn(node, ci + 1, {(k, n): (exc, w) for c, k, n, w, exc in tcp['faults'] if c == ci}, tcp['back'])
                     for ci in range(n_conns(steps))]
            router = ReqRouter(node)
        replies = []
        entry = entry_json(ids, m, case, 0, tables)
        real_window = int(round(m.parameters['p'].omit_unchanged_within * TICKS))
        init_py, init_x, _ = cache_obs(ids, m, 0)
        now = T0
        ops, outs, fsteps = [], [], []

        def point(si, extra=()):
            # one observation point: what every connection received since the last one, and the cache
            if tcp is None:
                recv, other = drain_conns(ids, conns, spec_pid)
                status = None
            else:
                for c in conns:
                    c.tick()             # the receive call of the handler times out: the loop looks at its flags
                recv, status = drain_tcp(ids, conns, spec_pid, node.dispatcher)
                other = []
            py, x, ts = cache_obs(ids, m, 0)
            outs.append({'recv': recv, 'cache_py': py, 'cache_x': x, 'caches_x': [x], 'ts': ts, 'other': other + list(extra),
                         'step': si, 'tcp': status})
        for si, (dt, op) in enumerate(steps):
            now += dt
            clock.ticks = now
            failed = []
            if op[0] == 'activate' and tcp is not None:
                # the request goes through the socket; a client whose connection was closed cannot send anything
                alive = conns[op[1]].alive()
                ops.append({'now': now, 'op': ['activate', op[1] + 1 if alive else 99, [0] if alive else []]})
                replies.append(op[1] + 1 if alive else None)
                if alive:
                    conns[op[1]].request('activate', {'all': None, 'mod': 'm', 'par': 'm:_p'}[op[2]], None)
            elif op[0] == 'activate':
                ops.append({'now': now, 'op': ['activate', op[1] + 1, [0]]})
                reply = node.request(conns[op[1]], 'activate', {'all': None, 'mod': 'm', 'par': 'm:_p'}[op[2]], None)
                if reply[0] != 'active':
                    failed = ['activate:' + str(reply[0])]
            else:
                ops.append({'now': now, 'op': wire_op(ids, case, 0, op, errs, len(conns))})
                base = split_inner(op)[1]
                sender = conns[base[1] % len(conns)] if base[0] in ('change', 'rread', 'do') else None
                replies.append(sender.cid if tcp is not None and sender is not None and sender.alive() else None)
                m.observe = lambda si=si: (point(si), fsteps.append([0, ['body']]))
                do_op(m, case, 0, op, errs, router, conns)
                m.observe = None
            point(si, failed)
            fsteps.append([dt, op])
        main = next(st[1][1] for st in steps if st[1][0] == 'activate')
        for o in outs:
            o['msgs'] = [[ve, t] for _, ve, t in o['recv'][main]]
        canon = canon_ids(conv, valid, [init_py] + [o['cache_py'] for o in outs])
        pairs, ex, bad_law, bad_canon = eq_pairs(ids, canon)
        bad_canon += [['announced with validate=False but not a result of the datatype', repr(ids.vobj[i][1])]
                      for i in unvalidated_ids([o['op'] for o in ops]) if i not in canon_ids(conv, valid, [])]
        req = {'p': 'C05', 'k': 'seq', 'eq': pairs, 'conv': conv, 'valid': valid, 'entry': entry, 'ops': ops,
               'cids': list(range(1, len(conns) + 1))}
        if tcp is not None:
            req.update(k='tcp', replies=replies, faults=[[c + 1, k, n, w] for c, k, n, w, _ in tcp['faults']])
        return {'req': req, 'outs': outs, 'init_x': init_x, 'init_py': init_py, 'ex': ex, 'bad_law': bad_law, 'bad_canon': bad_canon,
                'real_window': real_window, 'steps': steps, 'fsteps': fsteps}
    finally:
        mb.time = saved
        sys.stdout = saved_out
        for c in locals().get('conns', []):
            if hasattr(c, 'stop'):
                c.stop()
        if 'node' in locals():
            drop_loggers(node)


def ex_ve(ex, ve):
    return ['v', ex[ve[1]]] if ve[0] == 'v' else ve


def compare_seq(run, ans):
    """model answer vs implementation, through the observation function; returns a description of the first difference"""
    if ans['window'] != run['real_window']:
        return f'window: model {ans["window"]} impl {run["real_window"]}'
    if ans['init'] != run['init_py']:
        return f'initial entry: model {ans["init"]} impl {run["init_py"]}'
    diff = compare_recv(run['outs'], ans['outs'], run['ex'])
    if diff:
        return diff
    for i, (mo, io) in enumerate(zip(ans['outs'], run['outs'])):
        if mo['cache'] != io['cache_py'] or mo['ts'] != io['ts']:
            return f'step {i}: cache model {mo["cache"]}@{mo["ts"]} impl {io["cache_py"]}@{io["ts"]}'
        if io['other']:
            return f'step {i}: unexpected messages {io["other"]}'
    return None


def judge_reqs_seq(run):
    return stream_judge_reqs(run['fsteps'], run['outs'], [run['init_x']], 1)


def first_bad(jreqs, answers, outs=None):
    """first stream the monitor rejects: (connection index, pid, step index, clause); with `outs` the index of the
    observation point is turned into the index of the step of the history it belongs to"""
    for (ci, pid, first, _), jd in zip(jreqs, answers):
        if jd.get('bad') is not None:
            at = first + jd['bad'][0]
            return [ci, pid, outs[at]['step'] if outs is not None else at, jd['bad'][1]]
    return None


# ----------------------------------------------------------------------------------------
# the transport: the connections of a sequential history are real TCPRequestHandlers (own thread each) over scripted
# sockets.  The peer may stop reading: a `sendall` of the node then raises (socket.timeout after the output buffer stayed
# full for the send time-out; or the peer is gone: broken pipe / reset / ...) after part of the frame went out, and later
# the peer reads again (`back`) or not.  case['tcp'] = {'faults': [[connection index, 'ev'|'rep', n, bytes written,
# exception kind], ...], 'back': bool}: the n-th sendall of an event message (update / error_update) resp. of any other
# message (the reply to a request) on that connection fails.
# ----------------------------------------------------------------------------------------
SEND_EXC = {'timeout': socket.timeout, 'pipe': BrokenPipeError, 'reset': ConnectionResetError, 'os': OSError, 'other': ValueError}
WAIT = 30.0
REPLIES = {'active', 'inactive', 'changed', 'reply', 'done', 'pong', 'describing', 'ISSE'}


class ScriptSock:
    """the node's end of a connection to a scripted peer; `wire` = the bytes the peer has received"""

    def __init__(self, faults, back):
        self.inq = queue.Queue()
        self.wire = bytearray()
        self.faults = faults          # {('ev'|'rep', n): (exception kind, bytes written)}
        self.back = back
        self.count = {'ev': 0, 'rep': 0}
        self.failed = False
        self.closed = False
        self.idle = _threading.Event()

    def settimeout(self, t):
        pass

    def recv(self, n):
        self.idle.set()               # the handler thread waits for the peer
        item = self.inq.get(timeout=WAIT)
        if item is None:
            raise socket.timeout('timed out')
        return item

    def sendall(self, b):
        b = bytes(b)
        kind = 'ev' if b.startswith((b'update ', b'error_update ')) else 'rep'
        n = self.count[kind]
        self.count[kind] += 1
        f = self.faults.get((kind, n))
        if f is None and self.failed and not self.back:
            f = ('pipe', 0)
        if f is not None:
            self.failed = True
            self.wire += b[:max(0, min(f[1], len(b) - 1))]
            raise SEND_EXC[f[0]]('scripted failure of sendall')
        self.wire += b

    def shutdown(self, how):
        pass

    def close(self):
        self.closed = True
        self.idle.set()


class TcpServerStub:
    """what TCPRequestHandler needs from TCPServer"""
    detailed_errors = False

    def __init__(self, node):
        self.log = node.log.getChild('tcp')
        self.dispatcher = node.dispatcher


class TcpConn:
    def __init__(self, node, cid, faults, back):
        from frappy.protocol.interface.tcp import TCPRequestHandler
        self.cid = cid
        self.sock = ScriptSock(faults, back)
        self.seen = 0
        before = list(node.dispatcher._connections)
        self.thread = _threading.Thread(target=TCPRequestHandler, args=(self.sock, ('127.0.0.1', 50000 + cid), TcpServerStub(node)),
                                        daemon=True)
        self.thread.start()
        if not self.sock.idle.wait(WAIT):
            raise RuntimeError('the handler thread does not start')
        new = [c for c in node.dispatcher._connections if c not in before]
        self.handler = new[0] if new else None

    def alive(self):
        return not self.sock.closed

    def script_ident(self):
        return self.thread.ident if self.alive() else _threading.get_ident()

    def feed(self, item):
        """hand something to the receive call of the handler thread and wait until it waits for the peer again (or has finished)"""
        if self.sock.closed:
            return
        self.sock.idle.clear()
        self.sock.inq.put(item)
        if not self.sock.idle.wait(WAIT):
            raise RuntimeError('the handler thread does not come back')

    def tick(self):
        self.feed(None)

    def request(self, action, spec, data):
        from frappy.protocol.interface import encode_msg_frame
        self.feed(encode_msg_frame(action, spec, data))

    def stop(self):
        if not self.sock.closed:
            self.sock.inq.put(b'')
        self.thread.join(WAIT)

    def new_lines(self):
        data = bytes(self.sock.wire)
        end = data.rfind(b'\n') + 1
        lines = data[self.seen:end].split(b'\n')[:-1] if end > self.seen else []
        self.seen = max(end, self.seen)
        return lines


class ReqRouter:
    """`node.request` for connections over the transport: the request goes through the socket of a living connection;
    for a connection that was closed the same request is made by an anonymous other client (the history stays the same)"""

    def __init__(self, node):
        from vlib.node import Conn
        self.node = node
        self.anon = Conn(0)

    def request(self, conn, action, spec=None, data=None):
        if conn.alive():
            return conn.request(action, spec, data)
        return self.node.request(self.anon, action, spec, data)


def drain_tcp(ids, conns, pid_of, dispatcher):
    """what every peer received since the last call (complete lines, decoded), and how the node treats the connection"""
    from frappy.protocol.interface import decode_msg
    recv, status = [], []
    for c in conns:
        got, garbled, nrep = [], 0, 0
        for line in c.new_lines():
            try:
                msg = decode_msg(line)
                pid = pid_of(msg[1]) if msg[0] in ('update', 'error_update') else None
                if pid is not None:
                    ve, t = msg_obs(ids, pid, msg)
                    got.append([pid, ve, t])
                elif msg[0] in REPLIES or (msg[0].startswith('error_') and msg[0] != 'error_update'):
                    nrep += 1
                else:
                    garbled += 1
            except Exception:
                garbled += 1
        h = c.handler
        listed = (h in dispatcher._connections or h in dispatcher._active_connections
                  or any(h in v for v in dispatcher._subscriptions.values()))
        recv.append(got)
        status.append({'garbled': garbled, 'open': not c.sock.closed, 'listed': listed, 'replies': nrep})
    return recv, status


def compare_tcp(run, ans):
    if ans['window'] != run['real_window']:
        return f'window: model {ans["window"]} impl {run["real_window"]}'
    if ans['init'] != run['init_py']:
        return f'initial entry: model {ans["init"]} impl {run["init_py"]}'
    if len(ans['outs']) != len(run['outs']):
        return f'{len(ans["outs"])} model steps, {len(run["outs"])} implementation steps'
    for i, (mo, io) in enumerate(zip(ans['outs'], run['outs'])):
        if mo['cache'] != io['cache_py'] or mo['ts'] != io['ts']:
            return f'step {i}: cache model {mo["cache"]}@{mo["ts"]} impl {io["cache_py"]}@{io["ts"]}'
        for ci, (mc, ic, ir) in enumerate(zip(mo['tcp'], io['tcp'], io['recv'])):
            mr = [[pid, ex_ve(run['ex'], ve), t] for pid, ve, t in mc['recv']]
            mine = [mr, mc['garbled'], mc['open'], mc['listed']]
            theirs = [ir, ic['garbled'], ic['open'], ic['listed']]
            if mine != theirs:
                return f'step {i}: connection {ci + 1} [received, garbled lines, open, listed]: model {mine} impl {theirs}'
    return None


def judge_reqs_tcp(run):
    reqs = []
    for ci, pid, first, q in stream_judge_reqs(run['fsteps'], run['outs'], [run['init_x']], 1):
        trace = [dict(t, garbled=o['tcp'][ci]['garbled'], open=o['tcp'][ci]['open'], listed=o['tcp'][ci]['listed'])
                 for t, o in zip(q['trace'], run['outs'][first:])]
        reqs.append((ci, pid, first, {'p': 'C05', 'k': 'judge_tcp', 'prev': q['prev'], 'trace': trace}))
    return reqs


def tcp_fails(ctx, case, errs, tables):
    run = impl_seq(case, errs, tables)
    jreqs = judge_reqs_tcp(run)
    return first_bad(jreqs, ctx.driver.batch([r[3] for r in jreqs]), run['outs'])


def gen_tcp(rng, big):
    """a history of single-call operations (driver side and requests) with 1-3 connections over the transport, and a fault
    script: which sendall calls fail, how, after how many bytes, and whether the peer takes data again afterwards"""
    params = gen_params(rng, 1)
    case = {'params': params, 'mw': rng.choice(MW), 'gw': rng.choice(GW), 'ops': []}
    nvalid, nall = pool_size(params[0]['kind'])
    nerr = len(error_pool())
    uu = params[0]['uu']
    w = {'default': case['mw'] if case['mw'] is not None else case['gw'], 'always': 0, 'never': 10 ** 9}.get(uu, uu)
    wt = min(int(w * TICKS), 10 ** 6)
    steps = [0, 1, 1, wt, wt + 1, wt + 1, 3 * wt + 5]
    for _ in range(rng.randint(3, 24 if big else 12)):
        case['ops'].append([rng.choice(steps), gen_base_op(rng, params[0], nvalid, nall, nerr)])
    case['ops'].insert(0, [0, ['activate', 0, rng.choice(ACT_KINDS), 0]])
    for _ in range(rng.choice([0, 0, 1, 1, 2])):
        case['ops'].insert(rng.randrange(len(case['ops']) + 1),
                           [rng.choice(steps), ['activate', rng.choice([0, 1, 1, 2]), rng.choice(ACT_KINDS), 0]])
    faults = []
    for _ in range(rng.choice([0, 1, 1, 1, 2, 3])):
        f = [rng.choice([0, 0, 0, 1, 1, 2]), rng.choice(['ev', 'ev', 'ev', 'ev', 'rep']), rng.choice([0, 1, 1, 2, 2, 3, 4, 6]),
             rng.choice([0, 0, 1, 7, 10 ** 6]), rng.choice(['timeout', 'timeout', 'timeout', 'pipe', 'reset', 'os', 'other'])]
        if f[1] == 'rep':
            f[2] = rng.choice([0, 0, 1, 2])
        if not any(g[:3] == f[:3] for g in faults):
            faults.append(f)
    case['tcp'] = {'faults': faults, 'back': rng.random() < 0.75}
    return case


def gen_op(rng, ps, nvalid, nall, nerr):
    if rng.random() < 0.05:
        # a `do` request: the command assigns the parameter (0-2 times) and returns or raises
        val = lambda: rng.randrange(nvalid) if rng.random() < 0.85 else rng.randrange(nall)   # noqa: E731
        return ['inner', [val() for _ in range(rng.choice([0, 1, 1, 2]))],
                ['do', rng.choice([0, 0, 0, 1]), rng.choice(['ret', 'ret', 'raise']), rng.randrange(nerr)]]
    op = gen_base_op(rng, ps, nvalid, nall, nerr)
    # a driver method that assigns the parameter itself before it returns / raises
    if op[0] in ('read', 'write', 'change', 'rread') and rng.random() < 0.15:
        val = lambda: rng.randrange(nvalid) if rng.random() < 0.85 else rng.randrange(nall)   # noqa: E731
        op = ['inner', [val() for _ in range(rng.choice([1, 1, 2]))], op]
    return op


def gen_base_op(rng, ps, nvalid, nall, nerr):
    r = rng.random()
    val = lambda: rng.randrange(nvalid) if rng.random() < 0.8 else rng.randrange(nall)   # noqa: E731
    who = lambda: rng.choice([0, 0, 0, 1])                                                # noqa: E731
    wres = lambda: rng.choice([['none'], ['none'], ['ret', val()], ['ret', val()], ['raise', rng.randrange(nerr)], ['done']])  # noqa: E731
    if r < 0.26:
        return ['read', 'ret', val()]
    if r < 0.39:
        return ['read', 'raise', rng.choice([0, 0, 1, 3]) if rng.random() < 0.7 else rng.randrange(nerr)]
    if r < 0.42:
        return ['read', 'done']
    if r < 0.56:
        return ['write', val(), rng.choice(['ok', 'ok', 'ok', 'stop', 'raise']), wres()]
    # the same through the dispatcher: `change` / `read` requests of a connection (usually one that listens itself)
    if r < 0.65:
        return ['change', who(), val(), rng.choice(['ok', 'ok', 'ok', 'ok', 'stop', 'raise']), wres()]
    if r < 0.70:
        return ['rread', who()] + rng.choice([['ret', val()], ['ret', val()], ['raise', rng.choice([0, 1, 3])], ['done']])
    if r < 0.82:
        return ['assign', val()]
    if r < 0.85:
        return ['hidden', rng.randrange(3)]
    if r < 0.92:
        return ['announce', None if rng.random() < 0.5 else val(), rng.choice([0, 0, 1, 3, 6]), True]
    return ['announce', val(), None, rng.random() < 0.6]


def gen_params(rng, n):
    kinds = list(catalogue())
    return [{'kind': rng.choice(kinds), 'uu': rng.choice(UU), 'nodefault': rng.random() < 0.2,
             'has_write': rng.random() < 0.7, 'has_check': rng.random() < 0.3, 'readonly': rng.random() < 0.3}
            for _ in range(n)]


def gen_drift(rng, n, steps):
    """n successive operations that move the value along the drift of the pool, one neighbour at a time"""
    idx = rng.randrange(DRIFT_LEN)
    up = rng.random() < 0.7
    out = []
    for _ in range(n):
        if idx == DRIFT_LEN - 1:
            up = False
        elif idx == 0:
            up = True
        idx += 1 if up else -1
        op = rng.choice([['read', 'ret', idx], ['read', 'ret', idx], ['assign', idx], ['write', idx, 'ok', ['none']],
                         ['write', 0, 'ok', ['ret', idx]], ['announce', idx, None, rng.random() < 0.5]])
        out.append([rng.choice([0, 0, 1, 1, rng.choice(steps)]), op])
    return out


def gen_seq(rng, big):
    params = gen_params(rng, 1)
    case = {'params': params, 'mw': rng.choice(MW), 'gw': rng.choice(GW), 'ops': []}
    nvalid, nall = pool_size(params[0]['kind'])
    nerr = len(error_pool())
    # time steps around the effective window
    uu = params[0]['uu']
    w = {'default': case['mw'] if case['mw'] is not None else case['gw'], 'always': 0, 'never': 10 ** 9}.get(uu, uu)
    wt = min(int(w * TICKS), 10 ** 6)
    steps = [0, 0, 1, 1, max(wt - 1, 0), wt, wt + 1, 3 * wt + 5]
    sticky = None
    for _ in range(rng.randint(3, 30 if big else 14)):
        op = gen_op(rng, params[0], nvalid, nall, nerr)
        if sticky is not None and rng.random() < 0.35:
            op = list(sticky)                      # repeat the previous operation (unchanged value / identical error)
        sticky = op
        case['ops'].append([rng.choice(steps), op])
    # drift: successive values each closer to the previous one than the resolution of the datatype, at short intervals
    if params[0]['kind'] in DRIFT_KINDS and rng.random() < 0.7:
        at = rng.randrange(len(case['ops']) + 1)
        case['ops'][at:at] = gen_drift(rng, rng.randint(2, 12 if big else 7), steps)
    # activations: most histories start with one; more connections join (or re-activate) at random places
    if rng.random() < 0.85:
        case['ops'].insert(0, [0, ['activate', 0, rng.choice(ACT_KINDS), 0]])
    for _ in range(rng.choice([0, 0, 1, 1, 2, 3])):
        case['ops'].insert(rng.randrange(len(case['ops']) + 1),
                           [rng.choice(steps), ['activate', rng.choice([0, 1, 1, 2]), rng.choice(ACT_KINDS), 0]])
    return case


# ----------------------------------------------------------------------------------------
# concurrent runs
# ----------------------------------------------------------------------------------------
def make_snapconn():
    from vlib.node import Conn

    class SnapConn(Conn):
        """recording connection that also notes what the cache holds at the instant of delivery"""
        snap = None

        # `broadcast_event` visits its listeners in the iteration order of a set: with the connection number as hash the
        # order is a function of the numbers (ascending, no collisions for small numbers), not of memory addresses
        def __hash__(self):
            return self.cid

        def __eq__(self, other):
            return self is other

        def send_reply(self, msg):
            if self.sched is not None:
                self.sched.yield_(('send', self.cid))
            self.msgs.append((msg, self.snap(msg) if self.snap else None))
    return SnapConn


def impl_conc(case, errs, tables, policy):
    """run the threads of a case under the scheduler; returns request for the model, observation, scheduler"""
    import frappy.modulebase as mb
    import frappy.protocol.dispatcher as disp
    from vlib.sched import Scheduler
    saved = mb.time
    try:
        ids, conv, valid = prepare(case, errs)
        s = Scheduler(policy=policy, max_steps=5000)
        clock = Clock(T0, auto=case['tick'])
        with s.patched(mb, threading=s.threading, mkthread=s.mkthread), s.patched(disp, threading=s.threading):
            node, m, dts = build(case, clock)
            ids.dts = dts
            SnapConn = make_snapconn()
            conns = []
            npar = len(case['params'])
            nconn = case['nconn']
            for cid in range(1, nconn + 1):
                c = SnapConn(cid, s)
                node.conns[cid] = c
                node.dispatcher.add_connection(c)
                conns.append(c)
            for ci, kind, target in conc_pre(case):
                node.request(conns[ci % nconn], 'activate', conc_spec(kind, target, npar), None)
            for c in conns:
                c.msgs.clear()

            def snap(msg):
                pid = spec_pid(msg[1])
                return None if pid is None else cache_obs(ids, m, pid)[1]
            for c in conns:
                c.snap = snap
            entries = [entry_json(ids, m, case, pid, tables) for pid in range(npar)]
            init_x = [cache_obs(ids, m, pid)[1] for pid in range(npar)]
            clock0 = clock.ticks
            # the order in which broadcast_event visits the listeners is the iteration order of a set built the
            # way broadcast_event builds it (hash order of the connection objects): configuration data of the run
            listeners = set().copy()
            listeners.update(conns)
            visit_order = [c.cid for c in listeners]
            roles = {m.updateLock.name: 'U', m.accessLock.name: 'A', node.dispatcher._lock.name: 'D'}
            sublock = getattr(node.dispatcher, '_subscription_lock', None)
            if sublock is not None:
                roles[sublock.name] = 'S'

            def runprog(prog):
                for pid, op in prog:
                    if op[0] == 'activate':
                        node.request(conns[op[1] % nconn], 'activate', conc_spec(op[2], op[3], npar), None)
                    else:
                        do_op(m, case, pid, op, errs, node, conns)
                s.yield_(('end',))        # makes the end of the thread's last segment visible in the trace
            for i, prog in enumerate(case['progs']):
                s.spawn(f't{i}', runprog, (prog,))
            out = s.run(wall_timeout=20.0)
        labels, unknown = [], []
        for tname, lab in s.trace:
            tid = int(tname[1:])
            if lab[0] == 'send':
                labels.append([tid, 'send', lab[1]])
            elif lab[0] == 'end':
                labels.append([tid, 'end'])
            elif lab[0] in ('acquire', 'release') and lab[1] in roles:
                labels.append([tid, ('acq' if lab[0] == 'acquire' else 'rel') + roles[lab[1]]])
            else:
                unknown.append([tname, list(map(str, lab))])
        logs_x = []     # per connection, per parameter: [[msg ve, seen ve], ...]
        logs_t = []
        for c in conns:
            per = [[] for _ in range(npar)]
            pert = [[] for _ in range(npar)]
            for msg, seen in c.msgs:
                pid = spec_pid(msg[1])
                if pid is None or msg[0] not in ('update', 'error_update'):
                    unknown.append(['message', str(msg[0]), str(msg[1])])
                    continue
                ve, t = msg_obs(ids, pid, msg)
                per[pid].append([ve, seen])
                pert[pid].append([ve, t])
            logs_x.append(per)
            logs_t.append(pert)
        final = [cache_obs(ids, m, pid) for pid in range(npar)]
        pairs, ex, bad_law, bad_canon = eq_pairs(ids, canon_ids(conv, valid, [f[0] for f in final]))
        bad_canon += [['announced with validate=False but not a result of the datatype', repr(ids.vobj[i][1])]
                      for prog in case['progs'] for pid, op in prog if op[0] == 'announce'
                      for i in unvalidated_ids([wire_op(ids, case, pid, op, errs, nconn)]) if i not in canon_ids(conv, valid, [])]
        req = {'p': 'C05', 'k': 'conc', 'eq': pairs, 'conv': conv, 'valid': valid, 'entries': entries,
               'conns': visit_order, 'tick': case['tick'], 'clock': clock0,
               'progs': [[{'activate': op[1] % nconn + 1, 'ps': conc_pids(op[2], op[3], npar)} if op[0] == 'activate' else
                          {'p': pid, 'op': wire_op(ids, case, pid, op, errs, nconn),
                           'ts': ts_wire(op[4], T0) if op[0] == 'announce' and len(op) > 4 else None}
                         for pid, op in prog] for prog in case['progs']],
               'act0': [[ci % nconn + 1, conc_pids(kind, target, npar)] for ci, kind, target in conc_pre(case)],
               'labels': labels}
        obs = {'init_x': init_x, 'logs_x': logs_x, 'logs_t': logs_t, 'final': final, 'ex': ex, 'bad_law': bad_law, 'bad_canon': bad_canon,
               'sched': out, 'unknown': unknown, 'visit_order': visit_order, 'choices': [c[1] for c in s.choices]}
        return req, obs, s
    finally:
        mb.time = saved
        if 'node' in locals():
            drop_loggers(node)


def compare_conc(obs, ans):
    if obs['unknown']:
        return f'labels/messages outside the model: {obs["unknown"][:3]}'
    if obs['sched']['deadlock'] or obs['sched']['aborted'] or obs['sched']['errors']:
        return f'scheduler: {obs["sched"]}'
    if not ans.get('ok'):
        return f'model cannot follow the labels: {ans.get("err")}'
    for ci, per in enumerate(obs['logs_t']):
        for pid, log in enumerate(per):
            ml = [[ex_ve(obs['ex'], ve), t] for ve, t in ans['logs'][obs['visit_order'].index(ci + 1)][pid]]
            if ml != log:
                return f'conn {ci + 1} param {pid}: log model {ml} impl {log}'
    for pid, (py, _, ts) in enumerate(obs['final']):
        if ans['final'][pid] != py or ans['ts'][pid] != ts:
            return f'param {pid}: final cache model {ans["final"][pid]}@{ans["ts"][pid]} impl {py}@{ts}'
    return None


def conc_pre(case):
    """the connections activated before the threads start: [[connection index, kind, target], ...]"""
    if 'pre' in case:
        return case['pre']
    return [[ci, 'all', 0] for ci in range(case['nconn'])]


def conc_pids(kind, target, npar):
    """one module: general activation and module subscription cover all its parameters"""
    return list(range(npar)) if kind in ('all', 'mod') else [target % npar]


def conc_spec(kind, target, npar):
    return {'all': None, 'mod': 'm', 'par': 'm:_' + PNAMES[target % npar]}[kind]


def judge_reqs_conc(case, obs):
    """per parameter: what every connection knew at the start, whether it is activated at the end, what it received"""
    reqs = []
    npar = len(obs['init_x'])
    nconn = case['nconn']
    complete = not (obs['sched']['deadlock'] or obs['sched']['aborted'])
    for pid in range(npar):
        cl = []
        for ci in range(nconn):
            pre = any(c % nconn == ci and pid in conc_pids(kind, target, npar) for c, kind, target in conc_pre(case))
            during = any(op[0] == 'activate' and op[1] % nconn == ci and pid in conc_pids(op[2], op[3], npar)
                         for prog in case['progs'] for _, op in prog)
            cl.append({'known': obs['init_x'][pid] if pre else None, 'activated': pre or (during and complete),
                       'fromStart': pre and not during, 'log': obs['logs_x'][ci][pid]})
        reqs.append({'p': 'C05', 'k': 'judge_conc_a', 'final': obs['final'][pid][1], 'conns': cl})
    return reqs


def gen_kernel(rng):
    """race kernel: two threads with ONE operation each on the same parameter (every pair of: equal / different value
    by assignment, read, write, announce; failing read), sometimes a third thread that activates a second connection;
    small enough that all schedules with one preemption are enumerated"""
    cat = [['assign', 0], ['assign', 1], ['read', 'ret', 0], ['read', 'ret', 1], ['read', 'raise', 0],
           ['write', 1, 'ok', ['none']], ['announce', 0, None, False],
           # requests of the connection that listens (0) or of the other one, also with a write_ that takes the value over
           # and fails then
           ['change', 0, 1, 'ok', ['none']], ['change', 0, 0, 'ok', ['raise', 2]], ['change', 1, 1, 'ok', ['ret', 2]],
           ['inner', [1], ['change', 0, 0, 'ok', ['raise', 2]]], ['inner', [2], ['write', 1, 'ok', ['raise', 0]]],
           ['rread', 0, 'ret', 1], ['inner', [1], ['read', 'raise', 0]], ['inner', [1], ['do', 0, 'ret', 0]],
           ['inner', [2, 1], ['do', 0, 'raise', 2]]]
    params = [{'kind': rng.choice(['float', 'int', 'enum', 'string', 'floatres']), 'uu': rng.choice(['default', 'never', 2.0, 'always']),
               'nodefault': False, 'has_write': rng.random() < 0.7, 'has_check': False, 'readonly': False}]
    progs = [[[0, json.loads(json.dumps(rng.choice(cat)))]], [[0, json.loads(json.dumps(rng.choice(cat)))]]]
    if rng.random() < 0.4:
        progs.append([[None, ['activate', 1, rng.choice(ACT_KINDS), 0]]])
    return {'params': params, 'mw': rng.choice([None, 1.0]), 'gw': rng.choice([0.0, 1.0]), 'nconn': 2, 'pre': [[0, 'all', 0]],
            'tick': rng.choice([0, 1]), 'progs': progs, 'kernel': True}


def conc_shrink(ctx, case, errs, tables, clause, runs=40):
    """fewer operations / threads / earlier activations that still show the same clause under SOME schedule with at most
    two preemptions (the schedule is searched again for every candidate); returns the small case with its schedule"""
    from vlib.sched import explore
    found = {}

    def build_case(items):
        progs = [[] for _ in case['progs']]
        pre = []
        for it in items:
            if it[0] == 'pre':
                pre.append(it[1])
            else:
                progs[it[1]].append(it[2])
        return dict({k: v for k, v in case.items() if k != 'choices'}, progs=[p for p in progs if p], pre=pre)

    def fails(items):
        c2 = build_case(items)
        if not c2['progs']:
            return False

        def make_run(policy):
            req, obs, s = impl_conc(c2, errs, tables, policy)
            return s, obs
        for _, _, obs in explore(make_run, max_preemptions=2, max_runs=runs):
            jds = ctx.driver.batch(judge_reqs_conc(c2, obs))
            if any(jd.get('bad') == clause for jd in jds):
                found[json.dumps(items)] = (dict(c2, choices=obs['choices']), obs)
                return True
        return False
    items = [['pre', p] for p in conc_pre(case)] + [['op', ti, step] for ti, prog in enumerate(case['progs']) for step in prog]
    small = ddmin(items, fails)
    return found.get(json.dumps(small))


def gen_conc(rng, big):
    npar = rng.choice([1, 1, 2])
    params = gen_params(rng, npar)
    for ps in params:
        ps['kind'] = rng.choice(['float', 'int', 'enum', 'string', 'tuple', 'floatres', 'floatulp'])
    nthreads = rng.choice([1, 2, 2, 2, 3])
    nerr = len(error_pool())
    progs = []
    for _ in range(nthreads):
        prog = []
        for _ in range(rng.randint(1, 3 if not big else 4)):
            pid = rng.randrange(npar)
            nvalid, nall = pool_size(params[pid]['kind'])
            op = gen_op(rng, params[pid], min(nvalid, 3), nall, nerr)
            if op[0] == 'hidden':          # the parameter that is not exported is not part of the small-step system
                op = ['assign', rng.randrange(min(nvalid, 3))]
            if op[0] == 'announce' and rng.random() < 0.5:
                op.append(rng.choice(TS_ARGS))
            prog.append([pid, op])
        progs.append(prog)
    nconn = rng.choice([1, 2, 2, 3])
    # connections activated before the threads start, and activation requests handled while the funnel is in use
    # (most runs have a connection that is activated all along: it is the one that sees every race between funnel calls)
    pre = [[ci, 'all' if ci == 0 else rng.choice(ACT_KINDS), rng.randrange(npar)] for ci in range(nconn)
           if rng.random() < (0.85 if ci == 0 else 0.5)]
    for _ in range(rng.choice([0, 1, 1, 1, 2])):
        if len(progs) < 3 and rng.random() < 0.4:
            progs.append([])                      # a handler thread that only activates
        prog = rng.choice(progs)
        prog.insert(rng.randrange(len(prog) + 1),
                    [None, ['activate', rng.randrange(nconn), rng.choice(ACT_KINDS), rng.randrange(npar)]])
    progs = [p for p in progs if p]
    return {'params': params, 'mw': rng.choice(MW), 'gw': rng.choice(GW), 'nconn': nconn, 'pre': pre,
            'tick': rng.choice([0, 1, 1, 3, 40]), 'progs': progs}


# ----------------------------------------------------------------------------------------
# framework-provided drivers that touch the cache themselves (simulation, persistent)
# ----------------------------------------------------------------------------------------
def impl_builtin(case):
    """histories on frappy's own SimModule extra parameter / PersistentMixin.loadParameters; observation only"""
    import pathlib
    import frappy.modulebase as mb
    from vlib.node import Node
    from frappy.errors import CommunicationFailedError
    saved = mb.time
    tmp = tempfile.mkdtemp(prefix='verif-c05-')
    try:
        clock = Clock(T0)
        mb.time = clock
        if case['which'] == 'sim':
            from frappy.simulation import SimModule
            node = Node({'m': {'cls': SimModule, 'description': 'x', 'extra_params': {'value': 'p'}}},
                        omit_unchanged_within=case['gw'])
        else:
            from frappy.persistent import PersistentMixin, PersistentParam
            from frappy.modules import Module
            from frappy.datatypes import FloatRange

            class PM(PersistentMixin, Module):
                p = PersistentParam('p', FloatRange(), default=1.0, readonly=False)

                def read_p(self):
                    r = self.script
                    if isinstance(r, BaseException):
                        raise r
                    return r
            if case['which'] == 'persistentw':      # the same with a write_p (loadParameters writes to the hardware)
                class PM(PM):
                    def write_p(self, value):
                        return value
            node = Node({'m': {'cls': PM, 'description': 'x'}}, omit_unchanged_within=case['gw'],
                        general={'logdir': pathlib.Path(tmp)})
        m = node.modules['m']
        ids = Ids({0: m.parameters['p'].datatype})
        conn = node.connect()
        init_x = cache_obs(ids, m, 0)[1]
        node.request(conn, 'activate', None, None)
        snap = [msg_obs(ids, 0, msg)[0] for msg in conn.msgs if spec_pid(msg[1]) == 0]
        conn.msgs.clear()
        now = T0
        outs = [{'msgs': [[ve, 0] for ve in snap], 'cache_x': cache_obs(ids, m, 0)[1]}]      # step 0: the activation
        for dt, op in case['ops']:
            now += dt
            clock.ticks = now
            try:
                if op[0] == 'write':
                    m.write_p(float(op[1]))
                elif op[0] == 'read':
                    if case['which'] == 'sim':
                        m.read_p()
                    else:
                        m.script = CommunicationFailedError('E0') if op[1] is None else float(op[1])
                        m.read_p()
                elif op[0] == 'assign':
                    m.p = float(op[1])
                elif op[0] == 'save':
                    m.saveParameters()
                elif op[0] == 'load':
                    m.loadParameters()
            except Exception:
                pass
            msgs = [msg_obs(ids, 0, msg)[0] for msg in conn.msgs if spec_pid(msg[1]) == 0]
            conn.msgs.clear()
            outs.append({'msgs': [[ve, 0] for ve in msgs], 'cache_x': cache_obs(ids, m, 0)[1]})
        return {'init_x': init_x, 'outs': outs}
    finally:
        mb.time = saved
        if 'node' in locals():
            drop_loggers(node)
        shutil.rmtree(tmp, ignore_errors=True)


def builtin_judge_req(r):
    """the stream from the activation on (step 0); the client knows nothing before"""
    return {'p': 'C05', 'k': 'judge_seq', 'init': None, 'prev': r['init_x'],
            'trace': [{'msgs': [ve for ve, _ in o['msgs']], 'cache': o['cache_x']} for o in r['outs']]}


def gen_builtin(rng, which):
    ops = []
    for _ in range(rng.randint(2, 8)):
        if which == 'sim':
            op = rng.choice([['write', rng.randint(0, 3)], ['write', rng.randint(0, 3)], ['read'], ['assign', rng.randint(0, 3)]])
        else:
            op = rng.choice([['assign', rng.randint(0, 3)], ['read', rng.choice([None, 0, 1, 2])], ['save'], ['load'], ['load']])
        ops.append([rng.choice([0, 1, 1, 9, 40]), op])
    return {'which': which, 'gw': rng.choice([0.0, 1.0, 4.0]), 'ops': ops}



# ----------------------------------------------------------------------------------------
# followers: modules attached with registerCallbacks, and the timestamp argument
# ----------------------------------------------------------------------------------------
FEXC = ['ValueError', 'KeyError', 'TypeError', 'ZeroDivisionError', 'HardwareError', 'RuntimeError']


def _exc(name):
    if name == 'HardwareError':
        from frappy.errors import HardwareError
        return HardwareError
    return {'ValueError': ValueError, 'KeyError': KeyError, 'TypeError': TypeError,
            'ZeroDivisionError': ZeroDivisionError, 'RuntimeError': RuntimeError}[name]


def follower_outcome(fs, triggers, obj, is_err):
    """what the generated callback of follower `fs` does with a value (or an error): (outcome, nested)
    nested: None | 'value' | 'error'.  The same function drives the real callback and fills the oracle table."""
    bad = 'typeError' if fs['exc'] == 'TypeError' else 'other'
    if fs['kind'] == 'autoupdate':
        return 'ok', ('error' if is_err else 'value')
    if is_err:
        if fs['kind'] == 'update_noerr':
            return 'typeError', None          # update_p(value) called with (value, err)
        if fs['on_err'] == 'raise':
            return bad, None
        return 'ok', ('error' if fs['target'] else None)
    hit = False
    for t in triggers:
        try:
            hit = hit or not (obj != t)
        except Exception:
            pass
    if hit:
        return bad, None
    return 'ok', ('value' if fs['target'] else None)


def make_follower_class(dt, default, fs, triggers):
    from frappy.modules import Module
    from frappy.params import Parameter
    attrs = {'p': Parameter('follower', dt, default=default, readonly=False, update_unchanged=fs['uu'])}
    exc = _exc(fs['exc'])

    def body(self, value, err):
        oc, nested = follower_outcome(fs, triggers, value, err is not None)
        if oc != 'ok':
            raise exc('callback')
        if nested == 'error':
            self.announceUpdate('p', None, err)
        elif nested == 'value':
            self.p = value
    if fs['kind'] == 'update':
        def update_p(self, value, err=None):
            body(self, value, err)
        attrs['update_p'] = update_p
    elif fs['kind'] == 'update_noerr':
        def update_p(self, value):
            body(self, value, None)
        attrs['update_p'] = update_p
    return type('Follower', (Module,), attrs)


def build_follow(case, clock):
    import frappy.modulebase as mb
    from vlib.node import Node
    cat = catalogue()
    ps = case['params'][0]
    factory, valid, _ = cat[ps['kind']]
    dt = factory()
    cls = make_class({'p': (dt, NODEFAULT if ps['nodefault'] else valid[0], ps['uu'], ps['has_write'], ps['has_check'],
                            ps.get('readonly', False))})
    cfg = {'m': {'cls': cls, 'description': 'source'}}
    if case['mw'] is not None:
        cfg['m']['omit_unchanged_within'] = case['mw']
    for j, fs in enumerate(case['followers']):
        fdt = factory()
        triggers = []
        for k in fs['raise_idx']:
            try:
                triggers.append(dt(valid[k % len(valid)]))
            except Exception:
                pass
        cfg[f'f{j + 1}'] = {'cls': make_follower_class(fdt, valid[0], fs, triggers), 'description': 'follower'}
    mb.time = clock
    node = Node(cfg, omit_unchanged_within=case['gw'])
    m = node.modules['m']
    m.script = {}
    mods = [m] + [node.modules[f'f{j + 1}'] for j in range(len(case['followers']))]
    for j, fs in enumerate(case['followers']):
        m.registerCallbacks(mods[j + 1], autoupdate=['p'] if fs['kind'] == 'autoupdate' else ())
    return node, mods


def fspec_pid(spec):
    if spec == 'm:_p':
        return 0
    if spec.startswith('f') and spec.endswith(':_p') and spec[1:-3].isdigit():
        return int(spec[1:-3])
    return None


def cache_obs_of(ids, mod, pid):
    po = mod.parameters['p']
    ts = int(round((po.timestamp or 0) * TICKS))
    if po.readerror:
        e = ['e', ids.eid_key(po.readerror.name, str(po.readerror))]
        return e, e, ts
    return ['v', ids.vid(pid, po.value)], ['v', ids.xid(pid, po.value)], ts


TS_ARGS = [None, None, None, 0, 0.0, 'nan', 'inf', '-inf', 'past', 'future']


def ts_value(ts, now):
    if ts in ('nan', 'inf', '-inf'):
        return float(ts)
    if ts == 'past':
        return (now - 24) / TICKS
    if ts == 'future':
        return (now + 80) / TICKS
    return ts


def ts_wire(ts, now):
    if ts in ('nan', 'inf', '-inf'):
        return 'nonfinite'
    if ts == 'past':
        return now - 24
    if ts == 'future':
        return now + 80
    return None if ts is None else 0


def impl_follow(case, errs, tables):
    import frappy.modulebase as mb
    saved = mb.time
    try:
        n = 1 + len(case['followers'])
        clock = Clock(T0)
        node, mods = build_follow(case, clock)
        dts = {pid: mods[pid].parameters['p'].datatype for pid in range(n)}
        ids = Ids(dts)
        ps = case['params'][0]
        _, nall = pool_size(ps['kind'])
        conv, valid = oracle_tables(ids, 0, dts[0], pool_closure(dts[0], [raw_of(case, 0, i) for i in range(nall)]))
        for pid in range(n):
            ids.vid(pid, mods[pid].parameters['p'].value)
        for e in errs:
            ids.eid(e)
        steps = norm_steps(case['ops'])
        conns = [node.connect() for _ in range(n_conns(steps))]
        m = mods[0]
        modnames = ['m'] + [f'f{j + 1}' for j in range(len(case['followers']))]

        def entry(pid):
            po = mods[pid].parameters['p']
            uu = ps['uu'] if pid == 0 else case['followers'][pid - 1]['uu']
            return {'value': ids.vid(pid, po.value),
                    'err': None if not po.readerror else ids.eid_key(po.readerror.name, str(po.readerror)),
                    'ts': int(round((po.timestamp or 0) * TICKS)), 'uu': uu_model(uu, tables),
                    'mw': window_ticks(case['mw']) if pid == 0 else None, 'gw': window_ticks(case['gw'])}
        entries = [entry(pid) for pid in range(n)]
        real_windows = [int(round(mods[pid].parameters['p'].omit_unchanged_within * TICKS)) for pid in range(n)]
        init = [cache_obs_of(ids, mods[pid], pid) for pid in range(n)]
        now = T0
        ops, outs, fsteps = [], [], []

        def point(si, extra=()):
            recv, other = drain_conns(ids, conns, fspec_pid)
            caches = [cache_obs_of(ids, mods[pid], pid) for pid in range(n)]
            outs.append({'recv': recv, 'other': other + list(extra), 'caches': caches, 'caches_x': [c[1] for c in caches],
                         'step': si})
        for si, step in enumerate(steps):
            dt, op = step[0], step[1]
            ts = step[2] if len(step) > 2 else None
            now += dt
            clock.ticks = now
            failed = []
            if op[0] == 'activate':
                pids = act_pids(op, n)
                ops.append({'now': now, 'ts': None, 'op': ['activate', op[1] + 1, pids]})
                mn = modnames[pids[0]]
                reply = node.request(conns[op[1]], 'activate', {'all': None, 'mod': mn, 'par': mn + ':_p'}[op[2]], None)
                if reply[0] != 'active':
                    failed = ['activate:' + str(reply[0])]
            else:
                ops.append({'now': now, 'ts': ts_wire(ts, now) if op[0] == 'announce' else None,
                            'op': wire_op(ids, case, 0, op, errs, len(conns))})
                if op[0] == 'announce' and ts is not None:
                    _, vidx, eidx, validate = op
                    value, validate = announce_arg(dts[0], case, 0, vidx, eidx, validate)
                    try:
                        m.announceUpdate('p', value, None if eidx is None else clone_error(errs[eidx % len(errs)]),
                                         timestamp=ts_value(ts, now), validate=validate)
                    except Exception:
                        pass
                else:
                    m.observe = lambda si=si: (point(si), fsteps.append([0, ['body']]))
                    do_op(m, case, 0, op, errs, node, conns)
                    m.observe = None
            point(si, failed)
            fsteps.append(list(step))
        main = next(st[1][1] for st in steps if st[1][0] == 'activate')
        for o in outs:
            o['msgs'] = o['recv'][main]
        # oracle table of the callbacks: for every value the source can hold and every error
        followers = []
        src_vals = [(i, obj) for i, (pid, obj) in enumerate(list(ids.vobj)) if pid == 0]
        for j, fs in enumerate(case['followers']):
            q = j + 1
            triggers = []
            for k in fs['raise_idx']:
                cat_valid = catalogue()[ps['kind']][1]
                try:
                    triggers.append(dts[0](cat_valid[k % len(cat_valid)]))
                except Exception:
                    pass
            rows = []
            for i, obj in src_vals:
                oc, nested = follower_outcome(fs, triggers, obj, False)
                ne = None
                if nested == 'value':
                    c, v = oracle_tables(ids, q, dts[q], [obj])
                    conv += c
                    valid += v
                    ne = ['value', ids.vid(q, obj), True]
                rows.append([['v', i], oc, ne])
            for (name, text), eid in list(ids.e.items()):
                oc, nested = follower_outcome(fs, triggers, None, True)
                rows.append([['e', eid], oc, ['error', eid] if nested == 'error' else None])
            followers.append({'q': q, 'rows': rows})
        pairs, ex, bad_law, bad_canon = eq_pairs(ids, canon_ids(conv, valid, [i[0] for i in init] + [c[0] for o in outs for c in o['caches']]))
        req = {'p': 'C05', 'k': 'seqm', 'eq': pairs, 'conv': conv, 'valid': valid, 'entries': entries,
               'followers': followers, 'ops': ops, 'cids': list(range(1, len(conns) + 1))}
        return {'req': req, 'outs': outs, 'init': init, 'ex': ex, 'bad_law': bad_law, 'bad_canon': bad_canon, 'real_windows': real_windows, 'n': n,
                'steps': steps, 'fsteps': fsteps}
    finally:
        mb.time = saved
        if 'node' in locals():
            drop_loggers(node)


def compare_follow(run, ans):
    if ans['windows'] != run['real_windows']:
        return f'windows: model {ans["windows"]} impl {run["real_windows"]}'
    if ans['init'] != [i[0] for i in run['init']]:
        return f'initial entries: model {ans["init"]} impl {[i[0] for i in run["init"]]}'
    diff = compare_recv(run['outs'], ans['outs'], run['ex'])
    if diff:
        return diff
    for i, (mo, io) in enumerate(zip(ans['outs'], run['outs'])):
        if mo['caches'] != [c[0] for c in io['caches']] or mo['ts'] != [c[2] for c in io['caches']]:
            return f'step {i}: caches model {mo["caches"]}@{mo["ts"]} impl {[(c[0], c[2]) for c in io["caches"]]}'
        if io['other']:
            return f'step {i}: unexpected messages {io["other"]}'
    return None


def judge_reqs_follow(run):
    return stream_judge_reqs(run['fsteps'], run['outs'], [i[1] for i in run['init']], run['n'])


def gen_follow(rng, big):
    case = gen_seq(rng, big)
    nvalid, _ = pool_size(case['params'][0]['kind'])
    case['followers'] = []
    for _ in range(rng.choice([0, 1, 1, 1, 2, 2])):
        case['followers'].append({'kind': rng.choice(['update', 'update', 'update_noerr', 'autoupdate']),
                                  'exc': rng.choice(FEXC), 'on_err': rng.choice(['pass', 'pass', 'raise']),
                                  'target': rng.random() < 0.7, 'uu': rng.choice(UU),
                                  'raise_idx': rng.sample(range(nvalid), rng.choice([0, 1, 1, 2]))})
    n = 1 + len(case['followers'])
    for step in case['ops']:
        if step[1][0] == 'announce' and rng.random() < 0.5:
            step.append(rng.choice(TS_ARGS))
        if step[1][0] == 'activate':
            step[1][3] = rng.randrange(n)          # module the 'mod' / 'par' subscription is for
    return case


def follow_fails(ctx, case, errs, tables):
    run = impl_follow(case, errs, tables)
    jreqs = judge_reqs_follow(run)
    return first_bad(jreqs, ctx.driver.batch([r[3] for r in jreqs]), run['outs'])

# ----------------------------------------------------------------------------------------
def _tables(ctx):
    return ctx.driver.batch([{'p': 'C05', 'k': 'tables'}])[0]


def seq_fails(ctx, case, errs, tables):
    run = impl_seq(case, errs, tables)
    jreqs = judge_reqs_seq(run)
    return first_bad(jreqs, ctx.driver.batch([r[3] for r in jreqs]), run['outs'])


def run(ctx):
    from vlib.sched import explore, RandomPolicy
    res = Result()
    res.rule = ('every connection is judged from its own activate request on (general / module / parameter subscription, at the '
                'start or in the middle of the history, 1-3 connections, re-activation included).  sequential: generated histories (read ok / raising / invalid / Done, write with every write_ outcome and check '
                'function, assignment, explicit announceUpdate with and without error, repeats; change / read / do requests of a '
                'listening or another connection through the dispatcher; driver methods and commands whose body assigns the parameter '
                'before it returns or raises, observed after every call of the funnel; drifts of values closer than the resolution '
                'of the datatype) on one generated parameter of 15 '
                'datatypes under every update_unchanged / module / general window setting with clock steps inside, at and outside the '
                'window; non-trivial = at least one message suppressed, one error announced and one recovery.  concurrent: 1-3 threads '
                'x 1-3 operations on 1-2 parameters, 1-3 connections, systematic exploration with <= 2 preemptions plus random '
                'schedules; non-trivial = two threads touched the same parameter and at least two messages were delivered.  tcp: histories '
                'of single-call operations with 1-3 real TCP handler threads over scripted sockets, 0-3 scripted sendall failures; '
                'non-trivial = the node closed a connection, another one is still served and more than two messages arrived')
    big = ctx.tier == 'thorough' or ctx.escalated
    rng = ctx.rng
    errs = error_pool()
    tables = _tables(ctx)
    if 'driver_error' in tables:
        raise RuntimeError(f'driver: {tables}')

    # ---------------- sequential ----------------
    seq_cases = []
    cdir = os.path.join(ctx.verif, 'corpus', 'C05')
    conc_corpus, builtin_corpus, follow_corpus, tcp_corpus = [], [], [], []
    if os.path.isdir(cdir):
        for fn in sorted(os.listdir(cdir)):
            c = json.load(open(os.path.join(cdir, fn)))
            {'seq': seq_cases, 'conc': conc_corpus, 'builtin': builtin_corpus, 'follow': follow_corpus,
             'tcp': tcp_corpus}[c['kind']].append(c['case'])
    for _ in range(ctx.budget(3000, 20000)):
        seq_cases.append(gen_seq(rng, big))
    shrunk = 0
    CH = 1000
    for start in range(0, len(seq_cases), CH):
        chunk = seq_cases[start:start + CH]
        runs = [impl_seq(case, errs, tables) for case in chunk]
        reqs, pos = [], []
        for r in runs:
            r['jreqs'] = judge_reqs_seq(r)
            pos.append(len(reqs))
            reqs.append(r['req'])
            reqs += [q[3] for q in r['jreqs']]
        answers = ctx.driver.batch(reqs)
        for case, r, at in zip(chunk, runs, pos):
            ans, jds = answers[at], answers[at + 1: at + 1 + len(r['jreqs'])]
            if any('driver_error' in a for a in [ans] + jds):
                raise RuntimeError(f'driver error: {ans} {jds} {json.dumps(r["req"])[:400]}')
            res.evaluations += 1
            res.traces += 1
            ps = case['params'][0]
            res.count('seq.kind=' + ps['kind'])
            res.count('seq.uu=' + str(ps['uu']))
            nmsg = sum(len(o['msgs']) for o in r['outs'])
            nsup = sum(1 for o, st in zip(r['outs'], r['fsteps']) if not o['msgs'] and st[1][0] != 'activate')
            nerr = sum(1 for o in r['outs'] for ve, _ in o['msgs'] if ve[0] == 'e')
            nrec = sum(1 for a, b in zip([{'cache_x': r['init_x']}] + r['outs'], r['outs'])
                       if a['cache_x'][0] == 'e' and b['cache_x'][0] == 'v')
            nact = sum(1 for st in r['steps'] if st[1][0] == 'activate')
            late = sum(1 for i, st in enumerate(r['steps']) if st[1][0] == 'activate' and i > 0)
            res.count('seq.messages=' + ('0' if nmsg == 0 else '1-3' if nmsg < 4 else '4+'))
            res.count('seq.suppressed=' + ('0' if nsup == 0 else '1-3' if nsup < 4 else '4+'))
            res.count('seq.recoveries=' + ('0' if nrec == 0 else '1+'))
            res.count('seq.activations=' + ('1' if nact == 1 else '2' if nact == 2 else '3+'))
            res.count('seq.activation-mid-history=' + ('yes' if late else 'no'))
            res.count('seq.snapshot-of=' + ('error' if any(st[1][0] == 'activate' and o['cache_x'][0] == 'e'
                                                           for o, st in zip(r['outs'], r['fsteps'])) else 'value'))
            if r['bad_law']:
                res.count('seq.export-law-broken-by-raw-values')
            bases = [split_inner(st[1])[1] for st in r['steps']]
            nreq = sum(1 for b in bases if b[0] in ('change', 'rread', 'do'))
            listening = {st[1][1] for st in r['steps'] if st[1][0] == 'activate'}
            res.count('seq.requests=' + ('0' if nreq == 0 else '1-2' if nreq < 3 else '3+'))
            if nreq:
                res.count('seq.requester-listens=' + ('yes' if any(b[0] in ('change', 'rread', 'do') and b[1] in listening for b in bases)
                                                      else 'no'))
            res.count('seq.driver-body-assigns=' + ('yes' if any(st[1][0] == 'inner' for st in r['steps']) else 'no'))
            near = sum(1 for a, b in zip([{'cache_py': r['init_py'], 'cache_x': r['init_x']}] + r['outs'], r['outs'])
                       if a['cache_py'][0] == 'v' and b['cache_py'][0] == 'v' and a['cache_py'] != b['cache_py']
                       and ps['kind'] in DRIFT_KINDS)
            if ps['kind'] in DRIFT_KINDS:
                res.count('seq.value-steps-on-resolution-kinds=' + ('0' if near == 0 else '1-3' if near < 4 else '4+'))
            if nsup and nerr and nrec:
                res.nontriv(case)
                if len(res.samples) < 3 and len(case['ops']) < 8:
                    res.samples.append({'kind': 'seq', 'case': case,
                                        'obs': [[o['recv'], o['cache_x']] for o in r['outs']]})
            if r['bad_canon']:
                res.disagreements.append({'case': {'kind': 'seq', 'case': case}, 'impl': 'see replay',
                                          'model': f'hypothesis CanonExact broken: values that reach the cache, equal under != '
                                                   f'but exported differently: {r["bad_canon"][:3]}'})
            if ctx.model_ok:
                diff = compare_seq(r, ans)
                if diff:
                    res.disagreements.append({'case': {'kind': 'seq', 'case': case}, 'model': diff, 'impl': 'see replay'})
            bad0 = first_bad(r['jreqs'], jds, r['outs'])
            if bad0 is not None:
                small = case
                if shrunk < 3:
                    shrunk += 1
                    ops = ddmin(r['steps'], lambda o, case=case: seq_fails(ctx, dict(case, ops=o), errs, tables))
                    small = dict(case, ops=ops)
                bad = (seq_fails(ctx, small, errs, tables) if small is not case else None) or bad0
                res.violations.append({'sig': 'C05:seq:' + bad[3], 'case': {'kind': 'seq', 'case': small},
                                       'what': f'history on a {ps["kind"]} parameter (update_unchanged={ps["uu"]}): step '
                                               f'{bad[2]} breaks "{bad[3]}" for connection {bad[0] + 1}: '
                                               f'steps={norm_steps(small["ops"])}',
                                       'detail': {'original': case}})

    # ---------------- the transport: connections = real TCP handlers over sockets whose peer stops reading ----------------
    tcases = list(tcp_corpus)
    for _ in range(ctx.budget(600, 8000)):
        tcases.append(gen_tcp(rng, big))
    tshrunk = 0
    for start in range(0, len(tcases), CH):
        chunk = tcases[start:start + CH]
        runs = [impl_seq(case, errs, tables) for case in chunk]
        reqs, pos = [], []
        for r in runs:
            r['jreqs'] = judge_reqs_tcp(r)
            pos.append(len(reqs))
            reqs.append(r['req'])
            reqs += [q[3] for q in r['jreqs']]
        answers = ctx.driver.batch(reqs)
        for case, r, at in zip(chunk, runs, pos):
            ans, jds = answers[at], answers[at + 1: at + 1 + len(r['jreqs'])]
            if any('driver_error' in a for a in [ans] + jds):
                raise RuntimeError(f'driver error: {ans} {jds} {json.dumps(r["req"])[:400]}')
            res.evaluations += 1
            res.traces += 1
            ps = case['params'][0]
            faults = case['tcp']['faults']
            res.count('tcp.faults=%d' % len(faults))
            for f in faults:
                res.count('tcp.fault=' + f[1] + '/' + f[4] + '/' + ('nothing' if f[3] == 0 else 'part') + ' written')
            last = r['outs'][-1]['tcp']
            nclosed = sum(1 for st in last if not st['open'])
            res.count('tcp.connections-closed-by-the-node=%d of %d' % (nclosed, len(last)))
            res.count('tcp.peer-reads-again=' + ('yes' if case['tcp']['back'] else 'no'))
            nmsg = sum(len(per) for o in r['outs'] for per in o['recv'])
            res.count('tcp.messages-received=' + ('0' if nmsg == 0 else '1-5' if nmsg < 6 else '6+'))
            if nclosed and nmsg > 2 and any(st['open'] for st in last):
                res.nontriv(case)
            if ctx.model_ok:
                diff = compare_tcp(r, ans)
                if diff:
                    res.disagreements.append({'case': {'kind': 'tcp', 'case': case}, 'model': diff, 'impl': 'see replay'})
            bad0 = first_bad(r['jreqs'], jds, r['outs'])
            if bad0 is not None:
                small = case
                if tshrunk < 3:
                    tshrunk += 1
                    ops = ddmin(r['steps'], lambda o, case=case: tcp_fails(ctx, dict(case, ops=o), errs, tables))
                    small = dict(case, ops=ops)
                    keep = ddmin(small['tcp']['faults'], lambda f, small=small: tcp_fails(
                        ctx, dict(small, tcp=dict(small['tcp'], faults=f)), errs, tables))
                    small = dict(small, tcp=dict(small['tcp'], faults=keep))
                bad = (tcp_fails(ctx, small, errs, tables) if small is not case else None) or bad0
                res.violations.append({'sig': 'C05:tcp:' + bad[3], 'case': {'kind': 'tcp', 'case': small},
                                       'what': f'history on a {ps["kind"]} parameter, connections over TCP handlers, sendall failing '
                                               f'as scripted {small["tcp"]}: step {bad[2]} breaks "{bad[3]}" for connection '
                                               f'{bad[0] + 1}: steps={norm_steps(small["ops"])}',
                                       'detail': {'original': case}})

    # ---------------- followers attached with registerCallbacks; explicit time stamps ----------------
    fcases = list(follow_corpus)
    for _ in range(ctx.budget(1000, 10000)):
        fcases.append(gen_follow(rng, big))
    for start in range(0, len(fcases), CH):
        chunk = fcases[start:start + CH]
        runs = [impl_follow(case, errs, tables) for case in chunk]
        reqs, pos = [], []
        for r in runs:
            r['jreqs'] = judge_reqs_follow(r)
            pos.append(len(reqs))
            reqs.append(r['req'])
            reqs += [q[3] for q in r['jreqs']]
        answers = ctx.driver.batch(reqs)
        for case, r, at in zip(chunk, runs, pos):
            ans, jds = answers[at], answers[at + 1: at + 1 + len(r['jreqs'])]
            if any('driver_error' in a for a in [ans] + jds):
                raise RuntimeError(f'driver error: {ans} {jds} {json.dumps(r["req"])[:600]}')
            res.evaluations += 1
            res.traces += 1
            res.count('follow.followers=%d' % len(case['followers']))
            for fs in case['followers']:
                res.count('follow.kind=' + fs['kind'])
            for st in r['steps']:
                if st[1][0] == 'activate':
                    res.count('follow.activate=' + st[1][2])
            escaped = sum(1 for f in r['req']['followers'] for row in f['rows'] if row[1] != 'ok')
            nested = sum(1 for o in r['outs'] for q, _, _ in o['msgs'] if q > 0)
            res.count('follow.raising-callback-possible=' + ('yes' if escaped else 'no'))
            res.count('follow.nested-messages=' + ('0' if nested == 0 else '1+'))
            if escaped and nested:
                res.nontriv(case)
            if r['bad_canon']:
                res.disagreements.append({'case': {'kind': 'follow', 'case': case}, 'impl': 'see replay',
                                          'model': f'hypothesis CanonExact broken: {r["bad_canon"][:3]}'})
            if ctx.model_ok:
                diff = compare_follow(r, ans)
                if diff:
                    res.disagreements.append({'case': {'kind': 'follow', 'case': case}, 'model': diff, 'impl': 'see replay'})
            bad0 = first_bad(r['jreqs'], jds, r['outs'])
            if bad0 is not None:
                small = case
                if shrunk < 6:
                    shrunk += 1
                    ops = ddmin(r['steps'], lambda o, case=case: follow_fails(ctx, dict(case, ops=o), errs, tables))
                    small = dict(case, ops=ops)
                bad = (follow_fails(ctx, small, errs, tables) if small is not case else None) or bad0
                who = 'source' if bad[1] == 0 else f'follower {bad[1]}'
                res.violations.append({'sig': f'C05:follow:{"source" if bad[1] == 0 else "follower"}:{bad[3]}',
                                       'case': {'kind': 'follow', 'case': small},
                                       'what': f'{len(case["followers"])} follower module(s) {[f["kind"] + "/" + f["exc"] for f in case["followers"]]} '
                                               f'attached with registerCallbacks to a {case["params"][0]["kind"]} parameter: '
                                               f'step {bad[2]} breaks "{bad[3]}" for the {who} parameter on connection '
                                               f'{bad[0] + 1}: steps={norm_steps(small["ops"])}'})

    # ---------------- framework drivers that store into the cache themselves ----------------
    bcases = list(builtin_corpus)
    for _ in range(ctx.budget(60, 300)):
        bcases.append(gen_builtin(rng, rng.choice(['sim', 'persistent', 'persistentw'])))
    bruns = [impl_builtin(c) for c in bcases]
    answers = ctx.driver.batch([builtin_judge_req(r) for r in bruns])
    for case, r, jd in zip(bcases, bruns, answers):
        res.evaluations += 1
        res.traces += 1
        res.count('builtin.' + case['which'])
        if jd.get('bad') is not None:
            def fails(ops, case=case):
                rr = impl_builtin(dict(case, ops=ops))
                return ctx.driver.batch([builtin_judge_req(rr)])[0].get('bad') is not None
            small = dict(case, ops=ddmin(case['ops'], fails)) if shrunk < 6 else case
            shrunk += 1
            res.violations.append({'sig': f'C05:builtin:{case["which"]}:{jd["bad"][1]}',
                                   'case': {'kind': 'builtin', 'case': small},
                                   'what': f'frappy\'s own {case["which"]} code changes the cache outside the update funnel: '
                                           f'"{jd["bad"][1]}" with ops={small["ops"]} (general window {case["gw"]} s)'})

    # ---------------- concurrent ----------------
    n_sched = ctx.budget(600, 5000)
    conc_cases = list(conc_corpus)
    ncases = max(6, n_sched // 25)
    for _ in range(ncases):
        conc_cases.append(gen_conc(rng, big))
    per_case = max(4, n_sched // max(1, len(conc_cases)))
    for _ in range(ctx.budget(40, 400)):
        conc_cases.append(gen_kernel(rng))
    reqs, meta = [], []
    for case in conc_cases:
        def make_run(policy, case=case):
            req, obs, s = impl_conc(case, errs, tables, policy)
            return s, (req, obs)
        n = 0
        if 'choices' in case:      # corpus entry with a fixed schedule
            from vlib.sched import ReplayThenDefault
            req, obs, s = impl_conc(case, errs, tables, ReplayThenDefault(case['choices']))
            runs = [(req, obs)]
        elif case.get('kernel'):
            runs = [ro for _, s, ro in explore(make_run, max_preemptions=1, max_runs=80)]
            res.count('conc.kernel-schedules=' + ('<40' if len(runs) < 40 else '40-79' if len(runs) < 80 else '80 (cut)'))
        else:
            runs = []
            for _, s, ro in explore(make_run, max_preemptions=2, max_runs=(per_case * 2) // 3, rng=rng):
                runs.append(ro)
            while len(runs) < per_case:
                _, ro = make_run(RandomPolicy(rng, 0.5))
                runs.append(ro)
        for req, obs in runs:
            n += 1
            meta.append((case, obs, len(reqs)))
            reqs.append(req)
            reqs += judge_reqs_conc(case, obs)
    answers = ctx.driver.batch(reqs)
    conc_shrunk = 0
    for case, obs, pos in meta:
        ans = answers[pos]
        jds = answers[pos + 1: pos + 1 + len(obs['init_x'])]
        if any('driver_error' in a for a in [ans] + jds):
            raise RuntimeError(f'driver error: {ans} {jds}')
        res.evaluations += 1
        res.traces += 1
        res.count('conc.threads=%d' % len(case['progs']))
        res.count('conc.conns=%d' % case['nconn'])
        nmsg = sum(len(l) for l in obs['logs_x'][0])
        res.count('conc.messages=' + ('0' if nmsg == 0 else '1' if nmsg == 1 else '2+'))
        touched = {}
        nact = 0
        for ti, prog in enumerate(case['progs']):
            for pid, op in prog:
                if op[0] == 'activate':
                    nact += 1
                else:
                    touched.setdefault(pid, set()).add(ti)
        res.count('conc.activations-during-run=%d' % nact)
        nreq = sum(1 for prog in case['progs'] for _, op in prog if split_inner(op)[1][0] in ('change', 'rread', 'do'))
        res.count('conc.requests-during-run=' + ('0' if nreq == 0 else '1' if nreq == 1 else '2+'))
        res.count('conc.pre-activated=%d' % len({c % case['nconn'] for c, _, _ in conc_pre(case)}))
        if any(len(v) > 1 for v in touched.values()) and nmsg >= 2:
            res.nontriv({'case': case, 'choices': obs['choices']})
            if sum(1 for x in res.samples if x.get('kind') == 'conc') < 2:
                res.samples.append({'kind': 'conc', 'progs': case['progs'], 'choices': obs['choices'],
                                    'log_conn1': obs['logs_x'][0]})
        fixed = dict(case, choices=obs['choices'])
        if obs['bad_canon']:
            res.disagreements.append({'case': {'kind': 'conc', 'case': fixed}, 'impl': 'see replay',
                                      'model': f'hypothesis CanonExact broken: {obs["bad_canon"][:3]}'})
        if ctx.model_ok:
            diff = compare_conc(obs, ans)
            if diff:
                res.disagreements.append({'case': {'kind': 'conc', 'case': fixed}, 'model': diff, 'impl': 'see replay'})
        for pid, jd in enumerate(jds):
            if jd['bad'] is not None:
                if conc_shrunk < 2:
                    conc_shrunk += 1
                    sm = conc_shrink(ctx, case, errs, tables, jd['bad'])
                    if sm is not None:
                        c2, o2 = sm
                        j2 = ctx.driver.batch(judge_reqs_conc(c2, o2))
                        p2 = next(i for i, a in enumerate(j2) if a.get('bad') == jd['bad'])
                        res.violations.append({'sig': 'C05:conc:' + jd['bad'], 'case': {'kind': 'conc', 'case': c2},
                                               'what': f'threads {c2["progs"]}, connections activated before {conc_pre(c2)}, '
                                                       f'{c2["nconn"]} connections, schedule {o2["choices"]}: parameter {p2}: '
                                                       f'"{jd["bad"]}": per connection [message, cache at delivery]='
                                                       f'{[per[p2] for per in o2["logs_x"]]} final={o2["final"][p2][1]}',
                                               'detail': {'original': fixed}})
                        continue
                res.violations.append({'sig': 'C05:conc:' + jd['bad'], 'case': {'kind': 'conc', 'case': fixed},
                                       'what': f'{len(case["progs"])} threads {case["progs"]}, connections activated before '
                                               f'{conc_pre(case)}, schedule {obs["choices"]}: parameter {pid}: '
                                               f'"{jd["bad"]}": per connection [message, cache at delivery]='
                                               f'{[per[pid] for per in obs["logs_x"]]} final={obs["final"][pid][1]}'})
    return res


def replay(ctx, rp):
    from vlib.sched import ReplayThenDefault
    errs = error_pool()
    tables = _tables(ctx)
    case = rp['case']
    if 'kind' not in case and rp.get('kind') in ('seq', 'builtin', 'conc', 'follow', 'tcp'):
        case = {'kind': rp['kind'], 'case': case}      # a corpus file
    if case['kind'] == 'seq':
        r = impl_seq(case['case'], errs, tables)
        jreqs = judge_reqs_seq(r)
        answers = ctx.driver.batch([r['req']] + [q[3] for q in jreqs])
        print('case  :', json.dumps(case['case']))
        for i, o in enumerate(r['outs']):
            print(f'  step {o["step"]}: {r["fsteps"][i]} -> per connection {o["recv"]} cache {o["cache_x"]}@{o["ts"]}')
        print('model :', compare_seq(r, answers[0]) or 'agrees with the implementation')
        print('judge :', [(f'conn {ci + 1}', f'from step {first}', jd) for (ci, _, first, _), jd in zip(jreqs, answers[1:])])
        return 0 if all(a.get('bad') is None for a in answers[1:]) else 1
    if case['kind'] == 'tcp':
        r = impl_seq(case['case'], errs, tables)
        jreqs = judge_reqs_tcp(r)
        answers = ctx.driver.batch([r['req']] + [q[3] for q in jreqs])
        print('case  :', json.dumps(case['case']))
        for i, o in enumerate(r['outs']):
            print(f'  step {o["step"]}: {r["fsteps"][i]} -> per connection received {o["recv"]} status {o["tcp"]} cache {o["cache_x"]}@{o["ts"]}')
        print('model :', compare_tcp(r, answers[0]) or 'agrees with the implementation')
        print('judge :', [(f'conn {ci + 1}', f'from step {first}', jd) for (ci, _, first, _), jd in zip(jreqs, answers[1:])])
        return 0 if all(a.get('bad') is None for a in answers[1:]) else 1
    if case['kind'] == 'follow':
        r = impl_follow(case['case'], errs, tables)
        jreqs = judge_reqs_follow(r)
        answers = ctx.driver.batch([r['req']] + [q[3] for q in jreqs])
        print('case  :', json.dumps(case['case']))
        for i, o in enumerate(r['outs']):
            print(f'  step {o["step"]}: {r["fsteps"][i]} -> per connection {o["recv"]} caches {o["caches_x"]}')
        print('model :', compare_follow(r, answers[0]) or 'agrees with the implementation')
        print('judge :', [(f'conn {ci + 1}', f'param {pid}', f'from step {first}', jd)
                          for (ci, pid, first, _), jd in zip(jreqs, answers[1:])])
        return 0 if all(a.get('bad') is None for a in answers[1:]) else 1
    if case['kind'] == 'builtin':
        r = impl_builtin(case['case'])
        jd = ctx.driver.batch([builtin_judge_req(r)])[0]
        print('case  :', json.dumps(case['case']))
        print('init  :', r['init_x'])
        for i, o in enumerate(r['outs']):
            print(f'  step {i}: {(["activate"] + case["case"]["ops"])[i]} -> msgs {[ve for ve, _ in o["msgs"]]} cache {o["cache_x"]}')
        print('judge :', jd)
        return 0 if jd.get('bad') is None else 1
    c = case['case']
    req, obs, s = impl_conc(c, errs, tables, ReplayThenDefault(c.get('choices', [])))
    answers = ctx.driver.batch([req] + judge_reqs_conc(c, obs))
    print('case  :', json.dumps(c))
    print('trace :', s.trace)
    print('logs  :', obs['logs_x'])
    print('final :', [f[1] for f in obs['final']])
    print('model :', compare_conc(obs, answers[0]) or 'follows the labels and agrees with the implementation')
    print('judge :', answers[1:])
    return 0 if all(a.get('bad') is None for a in answers[1:]) else 1
