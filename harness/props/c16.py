"""C16 — Communicator: atomic request/reply pairing, stale data discarded, self-healing."""
import json
import os

from check import Result
from vlib.shrink import ddmin

META = {
    'level_text': 'Proved for ALL accepted runs of the transaction model (= all schedules of any number of callers, all device behaviours, all '
                  'non-decreasing clocks; the model is an acceptor of time-stamped event sequences with one event per primitive on shared '
                  'state and per-caller program counters following io.py, INCLUDING the identification made on every connect (checkHWIdent: '
                  'one communicate per entry, retry of the first, close on mismatch, a reconnect from within an identification request) and '
                  'replies of variable length (getFullReply -> readBytes)), for ANY configuration: lock_exclusive; multicomm_atomic and '
                  'exchange_atomic (+ monitor soundness); transaction_uninterrupted (between two sends of one call nobody else touches the '
                  'connection); last_delay_protected_run and transaction_protected_full (= transaction_protected_statement, the monitor form: a '
                  'multicomm that returns its replies keeps the connection to itself until the delay of its last request has elapsed); '
                  'delays_honoured_run/_return and delays_honoured (= delays_honoured_statement, the monitor form); state_not_overwritten_run '
                  '(= state_visible_statement, the monitor form: is_connected=true is published only after a successful connect that follows '
                  'every earlier closeConnection); closed_visible_run; reconnect_rate_limited (under AttemptsAtomic, a monitored clause with '
                  'proved monitor soundness; rate tests of identification requests included); callbacks_once_ident_run (after checkHWIdent has '
                  'passed on a reconnect the registered callbacks run one by one, in order, once); fails_within_timeout_all (an empty recv ends no later '
                  'than one recv period after the time-out of the read it belongs to - of a command, an identification request or a readBytes of '
                  'getFullReply); stale_discarded_run, reply_pairing_run '
                  '(every reply completed is the first line / first rlen bytes of what ARRIVED AFTER the caller\'s own send, unless the '
                  'connection was replaced or dropped since).  For accepted runs of communicators WITHOUT identification in addition: '
                  'state_visible_run, callbacks_once_run, fails_within_timeout_run (the special case of _all); for replies of fixed length: '
                  'reply_own_ret.  Step level (any configuration): reconnect_mark_kept_partial, callbacks_after_ident_partial, ident_failed_partial, '
                  'variable_reply_partial and the *_partial guards.  Proved for all inputs: framing_chunk_independent (+_bytes, _eq_unchunked); '
                  'polling_resumes_partial.  Glue models (Timed/CommGlue.lean), proved for all inputs: send_plan_intact (the sends of one '
                  'communicate put together are the command + send terminator, any terminator), send_plan_one_line (wait_before != 0, terminator of '
                  'one byte: every send is exactly one line), comm_plan_paced (a pause of wait_before before EVERY send of the plan), '
                  'connect_targets_same / reconnect_same_target (every connect - first and reconnects - goes to the same port: uri, else class '
                  'default_settings, else SECoP default; the settings are only read).  Transaction model, every accepted run: wait_before_paced_run / wait_before_paced '
                  '(= wait_before_paced_statement, the monitor form: every send is preceded by a sleep of wait_before of its caller with no send of that caller in between).  Every clause is judged by its Lean monitor on every run of the real StringIO/BytesIO under the '
                  'deterministic scheduler (every access of a thread to shared state is a scheduling point), and every run is replayed through '
                  'the model (0 rejected events).',
    'level_note': 'Trusted: Lean kernel + axioms propext/Classical.choice/Quot.sound; the scripted device behind fake `socket`/`select` modules '
                  '(the REAL AsynTcp - address resolution, connect, send, recv, flush_recv, disconnect - runs in every scenario; only sockets, select and '
                  'kernel buffering are replaced); a command that goes out as several sends (wait_before with several lines) is NOT in the transaction '
                  'model: such runs are judged by all monitors (requests read line by line, reply windows from the first line) and compared with the '
                  'glue model commPlan; four clauses are proved in the window form of their '
                  'monitors (transaction_protected, delays_honoured, state_not_overwritten, wait_before_paced), two more have a proved monitor soundness '
                  '(multicomm_atomic, exchange_atomic); the other run-level theorems are stated at the events where the facts arise, their link '
                  'to the `ret`-window form of the monitors is by the model\'s `ret` guard, not a separate theorem (the `*_statement` definitions '
                  'keep the monitor forms); with an identification configured state_visible_run (closed_visible_run is the general form), '
                  'callbacks_once_run (callbacks_once_ident_run is the form with identification) do not apply; reply_own_ret is NOT proved for '
                  'replies of variable length - covered by the monitors and the correspondence; polling_resumes is judged on the real poll '
                  'thread only.',
    'trusted': [
        'the fake socket: recv blocks at most its time-out (AsynConn.timeout, 1 s) and returns one device chunk at a time, select(…, 0) tells whether a '
        'chunk or the end of file has arrived; a socket closed on the host side by another thread makes recv return b\'\' / sendall raise (as a socket '
        'that was shut down); a connect to an address where no scripted device listens is refused',
        'no byte arrives between the end of flush_recv and the send (same virtual instant)',
        'the virtual clock of vlib.sched (one tick per clock read); clock slack of 300 us per step in the time clauses',
        'instrumentation from outside: lock proxies (_lock, accessLock), time proxy of frappy.io, wrappers of check_connection/doPoll/'
        'registerReconnectCallback/checkHWIdent/announceUpdate (an update is_connected=True that did not take effect is the event `drop`), '
        'parameter callback on is_connected, a BytesIO subclass whose getFullReply reads the rest of a reply',
        'the model has no accessLock: AttemptsAtomic is a hypothesis of reconnect_rate_limited and a monitored clause on the implementation; a refused '
        'non-blocking acquisition of accessLock is the event `busy`',
        'identification patterns are literal prefixes followed by wildcards (`prefix.*`, `p r e ?? ??`)',
        'no scheduling point between the update is_connected=True and the test of the reconnect mark that follows it (updateLock does not yield when it is given back; the model decides about the '
        'callbacks at that event); the accesses of `_last_error` are scheduling points only in the `yattr` scenario, which is judged by the monitors only',
    ],
    'modelled_not_verified': [
        'kernel sockets / select; serial lines (AsynSerial) - AsynTcp itself runs in every scenario',
        'a command of several lines with wait_before (several sends per communicate): glue model commPlan + monitors, not the transaction model; '
        'send_plan_one_line is stated for terminators of one byte (a terminator that overlaps itself makes lines ambiguous)',
        'write_is_connected from a client, the generic read wrapper of modulebase (only its late announce of is_connected - discarded since the repair of F39 - is modelled)',
        'the real poll thread (only polling_resumes is judged on it)',
        'with identification: state_visible_run, callbacks_once_run are replaced by closed_visible_run / callbacks_once_ident_run; replies of variable length: reply_own_ret',
        'a caller that closes a connection another thread has just opened but not yet published (is_connected is still false: the update false is no event); '
        'modelled on the side of the connecting thread (event `drop`), not observed in the runs',
    ],
    'assumptions': [
        'wait_before_honoured: before every send the sending caller has slept >= wait_before (a slp of that caller, begun >= wait_before earlier, '
        'no send of the caller in between) and the send carries exactly one line (send terminator at its end and nowhere before)',
        'stale_discarded / reply_pairing for a command of several lines: the command is ONE command, sent from its first line on (the receive buffer is '
        'flushed once, before the first line - io.py "read garbage only once"); what arrives after the first line went out counts as fresh',
        'reconnect_same_target: every connect attempt of a run goes to the address (host, port) of the first one',
        'reply_pairing: in the window of a command the device sends nothing but its answer to that command (a late reply that arrives after '
        'the next send is indistinguishable from a reply and outside the statement)',
        'fails_within_timeout: bound = max(start of the read + timeout, last byte of the device in the window) + one recv period + delay + wait_before, '
        'where every readBytes of getFullReply starts a read of its own; a device that keeps trickling bytes without completing a reply is not '
        '"silent" and extends the wait (AsynConn checks the clock only after an empty recv); the exchange of an identification request ends when '
        'the lock is given back',
        'reconnect_rate_limited: attempts on behalf of communicate calls come >= pollinterval after the previous attempt of any origin; poll-driven '
        'attempts follow the poll schedule (the stricter "any two attempts" is evaluated as reconnect_rate_limited_all, informative only)',
        'stale_discarded/reply_pairing theorems: no successful connect and no closeConnection between the send and the completion of the reply',
        'callbacks_once: a reconnect with an identification configured counts as successful when checkHWIdent has passed',
        'state_visible: the update is_connected=false follows the detection before the detecting call returns - or another caller has dropped the '
        'connection in between (then closed_visible applies to that caller)',
        'transaction_protected: the delay of a request counts from its send (as in delays_honoured); a multicomm that fails gives the connection '
        'back at once - the pause after its last command is owed only by a call that returns its replies',
    ],
}


# ----------------------------------------------------------------------------------------
# running one scenario on the real code
# ----------------------------------------------------------------------------------------
class LockProxy:
    """logs acquisitions/releases of the communicator lock at the moment of their effect"""

    def __init__(self, lock, log):
        self.lock = lock
        self.log = log

    def acquire(self, *a, **k):
        ok = self.lock.acquire(*a, **k)
        if ok:
            self.log.add('acq', depth=self.lock.depth)
        return ok

    def release(self):
        self.lock.release()
        self.log.add('rel', depth=self.lock.depth)

    def __enter__(self):
        return self.acquire()

    def __exit__(self, *exc):
        self.release()
        return False


class AccessLockProxy(LockProxy):
    """the module's accessLock: only a refused non-blocking acquisition is an event (check_connection does not wait for a
    thread that is connecting)"""

    def acquire(self, *a, **k):
        ok = self.lock.acquire(*a, **k)
        if not ok:
            self.log.add('busy')
        return ok

    def release(self):
        self.lock.release()


def quiet_lock(sched, name):
    """a re-entrant scheduler lock that is a scheduling point when it is taken, but not when it is given back.
    Used for the module's updateLock: another thread may run BEFORE a parameter update (the lock is taken first); the
    update itself (value stored, callbacks called) up to the next statement of the caller is one step, the scheduling
    points after it are the explicit ones of the instrumentation"""
    from vlib.sched import SLock

    class QuietLock(SLock):
        def acquire(self, blocking=True, timeout=-1):
            who = self._who()
            self.sched.yield_(('acquire', self.name))
            if not self._free_for(who):
                if not blocking:
                    return False
                ok = self.sched.block(('acquire.wait', self.name), lambda: self._free_for(who),
                                      None if timeout is None or timeout < 0 else timeout)
                if not ok:
                    return False
            self.owner = who
            self.depth += 1
            return True

        def release(self):
            self.depth -= 1
            if self.depth == 0:
                self.owner = None

        __enter__ = acquire

    return QuietLock(sched, name, reentrant=True)


class YieldingAttr:
    """a plain instance attribute whose reads and writes are scheduling points (scenarios with 'yattr': [names]);
    such runs are judged by the monitors only: the model has no event for these accesses"""

    def __init__(self, name, log, default=None):
        self.key = '_y_' + name
        self.log = log
        self.default = default

    def __get__(self, obj, cls=None):
        if obj is None:
            return self
        self.log.sync('attr.r')
        return obj.__dict__.get(self.key, self.default)

    def __set__(self, obj, value):
        self.log.sync('attr.w')
        obj.__dict__[self.key] = value


class TimeProxy:
    """stands in for the `time` module inside frappy.io: sleeps and clock reads are logged"""

    def __init__(self, stime, log):
        self._t = stime
        self._log = log

    def time(self):
        self._log.sync('now')
        v = self._t.time()
        self._log.add('now', v=self._log.us(v))
        return v

    def sleep(self, dt):
        self._log.add('slp', d=int(round(dt * 1e6)))
        self._t.sleep(dt)
        self._log.add('wake')

    def __getattr__(self, name):
        return getattr(self._t, name)


class StartEvents:
    def get_trigger(self, timeout=None):
        return lambda: None


def err_class(e):
    from frappy.errors import CommunicationFailedError
    if isinstance(e, CommunicationFailedError):
        return 'err'
    return 'crash:' + type(e).__name__


def run_case(case, policy=None, max_steps=20000):
    """case: {mode, io: {timeout, wait_before, pollinterval}, device: script, callers: [[op, ...], ...],
              poller: {interval, count} | None, callbacks: [name, ...], realpoll: seconds | None}
    returns (scheduler, {'events': [...], 'sched': result})"""
    import functools
    import frappy.io
    import frappy.modulebase
    import frappy.lib.asynconn
    from vlib.sched import Scheduler
    from vlib.node import Node
    from vlib import fakes_io as fakes

    s = Scheduler(policy=policy, max_steps=max_steps)
    log = fakes.Log(s)
    log.t0 = 0.0        # absolute virtual time: `_last_connect_attempt` starts at 0
    tproxy = TimeProxy(s.time, log)
    bytes_mode = case['mode'] == 'bytes'
    kinds = {}
    in_ident = set()
    net = fakes.Net(s, log)
    _tcp, restore_tcp = fakes.tcp_under_test(log, s)
    with s.patched(frappy.io, threading=s.threading, time=tproxy), \
            s.patched(frappy.modulebase, threading=s.threading, time=s.time, mkthread=s.mkthread), \
            s.patched(frappy.lib.asynconn, time=s.time, socket=net.socket, select=net.select):
        dev = fakes.Device(s, log, 'dev', case['device'])
        net.listen(dev)
        dev.send_kind = lambda: 'isend' if log.who() in in_ident else 'send'
        try:
            cls = frappy.io.BytesIO if bytes_mode else frappy.io.StringIO
            uri, defaults = io_address(case, dev)
            if defaults is not None:    # the port comes from the IO class (a class of its own per run)
                cls = type('WithDefaults', (cls,), {'default_settings': defaults})
            if bytes_mode and case.get('varlen'):
                class VarLen(cls):
                    """replies of variable length, the documented way: a header of fixed length tells how many bytes
                    follow (its last byte, a digit), getFullReply fetches them with readBytes"""

                    def getFullReply(self, request, replyheader):
                        tail = replyheader[-1:]
                        if len(replyheader) == 2 and tail.isdigit() and int(tail) > 0:
                            log.sync('more')
                            log.add('more', n=int(tail))
                            return replyheader + self.readBytes(int(tail))
                        return replyheader
                cls = VarLen
            if case.get('yattr'):
                cls = type('Instrumented', (cls,), {a: YieldingAttr(a, log, getattr(cls, a, None)) for a in case['yattr']})
            cfg = {'cls': cls, 'description': 'x', 'uri': uri}
            for k, v in case['io'].items():
                cfg[k] = {'value': v}
            if case.get('eol') and not bytes_mode:     # [receive, send] terminators (a tuple end_of_line) or one string
                cfg['end_of_line'] = tuple(case['eol']) if isinstance(case['eol'], list) else case['eol']
            if case.get('ident'):      # [[command, prefix of the expected reply, length of the reply (bytes mode)], ...]
                if bytes_mode:
                    cfg['identification'] = [(' '.join(c), ' '.join(list(pfx) + ['??'] * (n - len(pfx))))
                                             for c, pfx, n in case['ident']]
                else:
                    import re
                    cfg['identification'] = [(c, re.escape(pfx) + '.*') for c, pfx, n in case['ident']]
                    if case.get('ident_retry') is False:
                        cfg['retry_first_idn'] = False
            node = Node({'io': cfg})
            io = node.modules['io']
            io._lock = LockProxy(io._lock, log)
            io.accessLock = AccessLockProxy(io.accessLock, log)
            io.updateLock = quiet_lock(s, 'updateLock')
            if case.get('ident'):
                real_ident = io.checkHWIdent

                def check_ident():      # sends made in here are identification requests; its outcome is an event
                    me = log.who()
                    in_ident.add(me)
                    try:
                        real_ident()
                    except BaseException:
                        in_ident.discard(me)
                        log.sync('idend')
                        log.add('idend', ok=False)
                        raise
                    in_ident.discard(me)
                    log.sync('idend')
                    log.add('idend', ok=True)
                io.checkHWIdent = check_ident

            def on_isconn(v, err=None):
                if err is None:
                    log.add('isconn', v=bool(v))
                    if not v:       # the new value is visible from here on: other threads may act on it.  (Not after
                        log.sync('isconn')      # `True`: connectStart reads `_last_error` next, and the model decides
                                                # about the callbacks AT this event — see design_notes, "limits";
                                                # for the same reason updateLock does not yield when it is released)
            io.addCallback('is_connected', on_isconn)
            real_announce = io.announceUpdate

            def announce(pname, value=None, err=None, *a, **k):     # observed from outside: an update is_connected=True
                r = real_announce(pname, value, err, *a, **k)        # that did not take effect (no connection any more)
                if pname == 'is_connected' and value and err is None and not io.parameters['is_connected'].value:
                    log.add('drop')
                return r
            io.announceUpdate = announce
            for name in case.get('callbacks') or ():
                keep = not name.startswith('once')      # a callback returning False is removed after its first run
                io.registerReconnectCallback(
                    name, (lambda name=name, keep=keep: log.sync('cb') or (bool(log.add('cb', name=name, keep=keep)) and keep)))
            real_register = io.registerReconnectCallback

            def register(name, func):       # callbacks registered later (the poll thread's trigger_polls) are logged too
                def logged():
                    log.sync('cb')
                    r = func()
                    log.add('cb', name=name, keep=bool(r))
                    return r
                real_register(name, logged)
            io.registerReconnectCallback = register
            real_check = io.check_connection

            def check_connection():
                log.sync('chk')
                log.add('chk', v=bool(io.is_connected))
                return real_check()
            io.check_connection = check_connection

            def do(op):
                k = op[0]
                if k == 'comm':
                    if bytes_mode:
                        return [io.communicate(op[1].encode('latin-1'), op[2]).decode('latin-1')]
                    return [io.communicate(op[1])]
                if k == 'commx':     # a command of several lines (commands without reply joined with a query)
                    return [io.communicate(eols(case)[1].join(op[1]))]
                if k == 'write':
                    io.writeline(op[1])
                    return []
                if k == 'multi':
                    if bytes_mode:
                        return [r.decode('latin-1') for r in
                                io.multicomm([(c.encode('latin-1'), n, d) for c, n, d in op[1]])]
                    return list(io.multicomm([tuple(r) for r in op[1]]))
                if k == 'poll':
                    io.doPoll()
                    return []
                if k == 'wic':       # a client writes is_connected (hand experiments only: not modelled)
                    io.write_is_connected(op[1])
                    return []
                raise ValueError(k)

            def caller(ops):
                for i, op in enumerate(ops):
                    if op[0] == 'sleep':
                        s.time.sleep(op[1])
                        continue
                    if op[0] == 'until':      # absolute virtual time (since the start of the run): callers can meet
                        s.time.sleep(max(0.0, t_start + op[1] - s.now))
                        continue
                    kinds[log.who()] = op[0]
                    log.sync('call')
                    log.add('call', i=i, op=op)
                    try:
                        r = do(op)
                    except Exception as e:      # the error class is the observation
                        r = err_class(e)
                    log.sync('ret')
                    log.add('ret', i=i, r=r)
                    kinds[log.who()] = None

            t_start = s.now
            for n, ops in enumerate(case['callers']):
                s.spawn(f'c{n}', caller, (ops,))
            p = case.get('poller')
            if p:
                s.spawn('poller', caller, ([x for _ in range(p['count']) for x in (['sleep', p['interval']], ['poll'])],))
            if case.get('realpoll'):
                real_dopoll = io.doPoll

                @functools.wraps(real_dopoll)
                def dopoll():
                    log.add('dopoll', m=0)
                    return real_dopoll()
                io.doPoll = dopoll
                io.startModule(StartEvents())

                def stopper():
                    s.time.sleep(case['realpoll'])
                    io.stopPollThread()
                s.spawn('stopper', stopper)
            out = s.run()
        finally:
            dev.unregister()
            restore_tcp()
    events = log.sorted()
    for ev in events:
        if ev['e'] == 'connect':
            ev['od'] = kinds_at(events, ev) not in ('poll', None)    # None: the real poll thread
    return s, {'events': events, 'sched': out}


ADDR_FORMS = ['port', 'bare', 'default', 'default_bare', 'secop']


def io_address(case, dev):
    """(uri, default_settings of the IO class or None) for the scenario's way of giving the device's address:
    in the uri (with or without scheme), or the port by the IO class' default_settings, or nowhere (SECoP default port)"""
    form = (case.get('addr') or 'port')
    if dev is None:
        import types
        dev = types.SimpleNamespace(host='dev', port=int(case['device'].get('port', 4001)))
    if form == 'port':
        return f'tcp://{dev.host}:{dev.port}', None
    if form == 'bare':
        return f'{dev.host}:{dev.port}', None
    if form == 'default':
        return f'tcp://{dev.host}', {'port': dev.port, 'baudrate': 9600}
    if form == 'default_bare':
        return dev.host, {'port': dev.port}
    if form == 'secop':         # the device script has to say 'port': SECoP_DEFAULT_PORT
        return dev.host, None
    raise ValueError(form)


def kinds_at(events, ev):
    """kind of the call of ev['who'] that is open at ev (None outside calls, e.g. the real poll thread)"""
    kind = None
    for e in events:
        if e is ev:
            return kind
        if e['who'] == ev['who']:
            if e['e'] == 'call':
                kind = e['op'][0]
            elif e['e'] == 'ret':
                kind = None
    return kind


# ----------------------------------------------------------------------------------------
# the run as the Lean side sees it
# ----------------------------------------------------------------------------------------
SLACK = 300         # microseconds: clock reads (ticks) of a thread between two of its events
CB_TRIGGER = 99


def who_id(name):
    if name.startswith('c') and name[1:].isdigit():
        return int(name[1:])
    return {'poller': 9}.get(name, 8)


def us(x):
    return int(round(x * 1e6))


def eols(case):
    """(receive, send) terminators of the scenario: case['eol'] is one string or [receive, send] (a tuple end_of_line)"""
    if case['mode'] == 'bytes':
        return '', ''
    e = case.get('eol') or '\n'
    return (e[0], e[-1]) if isinstance(e, list) else (e, e)


def model_cfg(case):
    io = case['io']
    from frappy.lib.asynconn import AsynConn
    bm = case['mode'] == 'bytes'
    eol, eol_w = eols(case)
    return {'bytes': bm, 'eol': eol, 'eol_w': eol_w,
            'timeout': us(io.get('timeout', 2)), 'wait_before': us(io.get('wait_before', 0)),
            'interval': us(io.get('pollinterval', 10)), 'gran': us(AsynConn.timeout), 'slack': SLACK,
            'ident': [[c + eol_w, n if bm else 0, pfx] for c, pfx, n in case.get('ident') or ()],
            'retry_first': case.get('ident_retry') is not False}


def model_reqs(case, op):
    bm = case['mode'] == 'bytes'
    eol = eols(case)[1]         # what is sent ends with the SEND terminator
    k = op[0]
    if k == 'commx':            # ONE request (the Lean side reads it line by line where a pause is owed before every line)
        return [[eol.join(op[1]) + eol, True, 0, 0]]
    if k == 'comm':
        return [[op[1] + eol, True, op[2] if bm else 0, 0]]
    if k == 'write':
        return [[op[1] + eol, False, 0, 0]]
    if k == 'multi':
        if bm:
            return [[c, True, n, us(d)] for c, n, d in op[1]]
        return [[c + eol, bool(x), 0, us(d)] for c, x, d in op[1]]
    return []


def model_events(case, events):
    cbs = list(case.get('callbacks') or ())
    out = []
    for ev in events:
        e, t = ev['e'], ev['t']
        c = who_id(ev['who'])
        if e == 'call':
            out.append([t, 'call', c, 'comm' if ev['op'][0] == 'commx' else ev['op'][0], model_reqs(case, ev['op'])])
        elif e == 'ret':
            r = ev['r']
            out.append([t, 'ret', c, r if isinstance(r, list) else ('err' if r == 'err' else 'crash')])
        elif e == 'chk':
            out.append([t, 'chk', c, ev['v']])
        elif e == 'now':
            out.append([t, 'now', c, ev['v']])
        elif e == 'connect':
            out.append([t, 'connect', c, ev['ok'], ev['od']])
        elif e == 'isconn':
            out.append([t, 'isconn', c, ev['v']])
        elif e == 'cb':
            out.append([t, 'cb', c, cbs.index(ev['name']) if ev['name'] in cbs else CB_TRIGGER, ev['keep']])
        elif e in ('acq', 'rel', 'wake', 'flush', 'hclose', 'busy', 'drop'):
            out.append([t, e, c])
        elif e == 'slp':
            out.append([t, 'slp', c, ev['d']])
        elif e in ('send', 'isend'):
            out.append([t, e, c, ev['conn'], ev['n'], ev['data']])
        elif e == 'more':
            out.append([t, 'more', c, ev['n']])
        elif e == 'idend':
            out.append([t, 'idend', c, ev['ok']])
        elif e == 'recv':
            out.append([t, 'recv', c, ev['out']] + ([ev['data']] if ev['out'] == 'data' else []))
        elif e == 'arrive':
            out.append([t, 'arrive', ev['conn'], ev['tag'], ev['data']])
        elif e == 'devclose':
            out.append([t, 'devclose', ev['conn']])
        elif e == 'dopoll':
            out.append([t, 'dopoll', ev['m']])
    return out


def requests_for(case, events):
    cbs = list(range(len(case.get('callbacks') or ())))
    base = {'p': 'C16', 'cfg': model_cfg(case), 'cbs': cbs, 'events': model_events(case, events)}
    judge = dict(base, k='judge', targets=targets_of(events))
    if case.get('realpoll'):
        judge.update(pollname=0, mods=[0], within=us(1.0))     # anchor: the kept callback cb0 of the same callCallbacks pass
    uri, defaults = io_address(case, None)
    tg = {'p': 'C16', 'k': 'targets', 'n': len(judge['targets'])}
    if (case.get('addr') or 'port') in ('port', 'bare'):       # the uri names the port
        tg['uri_port'] = int(case['device'].get('port', 4001))
    if defaults and 'port' in defaults:
        tg['default_port'] = defaults['port']
    return dict(base, k='replay'), judge, tg


def targets_of(events):
    """the address of every connect attempt, canonical: host 0 = the scenario's device host, 1 = any other"""
    return [[0 if ev['target']['host'] == 'dev' else 1, ev['target']['port']] for ev in events if ev['e'] == 'connect']


def plan_of(events, who='c0'):
    """what the first call of `who` did between its start and its return: pauses, the flush, the sends"""
    out = []
    on = False
    for ev in events:
        if ev['who'] != who:
            continue
        if ev['e'] == 'call':
            on = True
        elif ev['e'] == 'ret':
            break
        elif on and ev['e'] == 'slp':
            out.append(['slp', ev['d']])
        elif on and ev['e'] == 'flush':
            out.append(['flush'])
        elif on and ev['e'] == 'send':
            out.append(['send', ev['data']])
    return out


# ----------------------------------------------------------------------------------------
# framing: the real AsynConn.readline / readbytes over scripted chunk lists
# ----------------------------------------------------------------------------------------
def impl_frame(eol, buf, chunks, n=None):
    from frappy.lib.asynconn import AsynConn

    class ListConn(AsynConn):
        def __init__(self, chunks):      # pylint: disable=super-init-not-called
            self.end_of_line = eol.encode('latin-1')
            self._rxbuffer = buf.encode('latin-1')
            self.chunks = [c.encode('latin-1') for c in chunks]

        def __del__(self):
            pass

        def recv(self):
            return self.chunks.pop(0) if self.chunks else b''

    conn = object.__new__(ListConn)
    conn.__init__(chunks)
    r = conn.readline() if n is None else conn.readbytes(n)
    rest = conn._rxbuffer + b''.join(conn.chunks)
    return {'line': None if r is None else r.decode('latin-1'), 'rest': rest.decode('latin-1')}


def gen_frame(rng):
    eol = rng.choice(['\n', '\n', '\r\n', ';', 'ab', 'aab', '\r\n\r'])
    alphabet = sorted(set(eol)) + ['x', 'y', 'a']
    total = ''.join(rng.choice(alphabet) for _ in range(rng.randint(0, 14)))
    if rng.random() < 0.6:
        pos = rng.randint(0, len(total))
        total = total[:pos] + eol + total[pos:]
    cuts = sorted(rng.randint(0, len(total)) for _ in range(rng.choice([0, 1, 2, 3, 5, 8])))
    parts = [total[a:b] for a, b in zip([0] + cuts, cuts + [len(total)])]
    parts = [x for x in parts if x]      # an empty chunk is a time-out of recv, not a chunk
    nbuf = rng.choice([0, 0, 1, 2])
    buf, chunks = ''.join(parts[:nbuf]), parts[nbuf:]
    n = rng.choice([None, None, 0, 1, 3, len(total), len(total) + 1])
    return {'eol': eol, 'buf': buf, 'chunks': chunks, 'n': n}


# ----------------------------------------------------------------------------------------
# scenarios
# ----------------------------------------------------------------------------------------
CMDS = ['A', 'B', 'C', 'D', 'E']


IDENT_CMDS = ['ID', 'IV']


def gen_device(rng, bm, faults, varlen=False, ident=None, eol=None):
    eol_r, eol_w = (eol[0], eol[-1]) if isinstance(eol, list) else (eol or '\n', eol or '\n')
    cmds = {}
    for c in CMDS:
        delay = rng.choice([0, 0, 0.1, 0.3, 0.7])
        if bm and varlen:       # header (2 bytes: letter, number of bytes that follow) + body; a body longer than announced
            k = rng.choice([0, 1, 2, 3, 3])     # leaves garbage behind, a shorter one lets readBytes run into the time-out
            reply = c.lower() + str(k) + ('{n}yz' if rng.random() < 0.85 else '{n}')
        else:
            reply = c.lower() + '{n}xy' if bm else c.lower() + '{n}' + rng.choice(['', '', ' ok', ';' * rng.randint(1, 3)])
        cmds[c] = {'reply': reply, 'delay': delay, 'chunks': [rng.randint(1, 3) for _ in range(rng.choice([0, 0, 1, 2, 4]))],
                   'gap': rng.choice([0, 0, 0.05, 0.4])}
    cmds['W'] = {'reply': None}
    for c, pfx, n in ident or ():
        good = pfx + '{n}' + 'xyz'[:n - len(pfx) - 1] if bm else pfx + '{n}'      # (bytes: one byte too many from send 10 on)
        bad = '?' * len(pfx) + '{n}' + 'xyz'[:n - len(pfx) - 1] if bm else '??{n}'
        r = rng.random()        # mostly the expected device; sometimes garbled once, another device, or no answer at all
        reply = good if r < 0.6 else [bad, good] if r < 0.75 else [good, bad, good] if r < 0.85 else bad if r < 0.93 else None
        cmds[c] = {'reply': reply, 'delay': rng.choice([0, 0, 0.1, 0.4]), 'chunks': [rng.randint(1, 2) for _ in range(rng.choice([0, 0, 1]))]}
    dev = {'eol': '' if bm else eol_r, 'cmds': cmds, 'default': None}
    if not bm and eol_w != eol_r:
        dev['eol_in'] = eol_w
    if 'surplus' in faults and not bm:      # a further line in the SAME chunk as a reply (a late reply, an unsolicited message):
        for c in rng.sample(CMDS, rng.randint(1, 3)):       # it stays in the receive buffer, nothing is left on the socket
            cmds[c]['reply'] = cmds[c]['reply'] + eol_r + rng.choice(['late{n}', 'x', ''])
            cmds[c]['chunks'] = rng.choice([[], [], [2]])
    if 'late' in faults:
        cmds[rng.choice(CMDS)]['delay'] = rng.choice([2.2, 2.6, 3.5])
    if 'silence' in faults:
        cmds[rng.choice(CMDS)]['reply'] = None
    if 'garbage' in faults:
        dev['unsolicited'] = [[round(rng.uniform(0, 6), 2), rng.choice(['junk', '?', 'zz' * 3]) + ('' if bm else rng.choice([eol_r, '']))]
                              for _ in range(rng.randint(1, 3))]
    if 'close' in faults:
        if rng.random() < 0.35:
            dev['close'] = {'at': round(rng.uniform(0, 5), 2)}
        else:
            dev['close'] = {'send': rng.randint(0, 5), 'phase': rng.choice(['before', 'after_cmd', 'mid_reply', 'after_reply'])}
        if 'refuse' in faults:
            k = rng.randint(1, 3)
            dev['refuse'] = list(range(1, 1 + k))
    return dev


GRID = [0.0, 0.0, 1.0, 2.1, 3.2, 3.2, 3.5, 5.3, 6.4, 6.4, 7.15, 9.6]     # no two of them exactly a reconnect interval apart


def gen_ops(rng, bm, n, varlen=False, aligned=False, lines=False):
    ops = []
    tgrid = sorted(rng.sample(range(len(GRID)), min(n, len(GRID))))
    for j in range(n):
        if aligned:         # callers (and the device's timed close) meet at the same virtual instants
            ops.append(['until', GRID[tgrid[j]]])
        elif rng.random() < 0.5:
            ops.append(['sleep', rng.choice([0.1, 0.5, 1.0, 2.5, 3.1])])
        r = rng.random()
        c = rng.choice(CMDS)
        if lines and r < 0.3:      # commands without reply joined with a query: one command of several lines
            ops.append(['commx', ['W'] * rng.randint(1, 2) + [c]])
        elif r < 0.5:
            ops.append(['comm', c, 2 if varlen else 4] if bm else ['comm', c])
        elif r < 0.65 and not bm:
            ops.append(['write', 'W'])
        else:
            k = rng.randint(1, 3)
            if bm:
                ops.append(['multi', [[rng.choice(CMDS), 2 if varlen else rng.choice([4, 4, 2, 0]), rng.choice([0, 0.2, 0.5])]
                                      for _ in range(k)]])
            else:
                rq = [[rng.choice(CMDS), rng.random() < 0.75, rng.choice([0, 0.2, 0.5])] for _ in range(k)]
                ops.append(['multi', [['W' if not x else c, x, d] for c, x, d in rq]])
    return ops


def gen_case(rng):
    bm = rng.random() < 0.4
    faults = set()
    for f, p in (('late', 0.25), ('silence', 0.2), ('garbage', 0.3), ('close', 0.45), ('surplus', 0.2)):
        if rng.random() < p:
            faults.add(f)
    if 'close' in faults and rng.random() < 0.5:
        faults.add('refuse')
    interval = rng.choice([3, 3, 5])
    varlen = bm and rng.random() < 0.5
    aligned = rng.random() < 0.35
    ident = None
    if rng.random() < 0.35:
        ident = [[c, 'id' if c == 'ID' else 'v', 4] for c in IDENT_CMDS[:rng.choice([1, 1, 2])]]
    eol = None if bm else rng.choice([None, None, None, '\r', ['\n', '\r'], ['\r\n', '\n'], ['\n', '\r\n']])
    lines = not bm and not ident and rng.random() < 0.25
    case = {'mode': 'bytes' if bm else 'string',
            'io': {'timeout': rng.choice([2, 2, 1.5]), 'wait_before': rng.choice([0, 0, 0.05, 0.2] if lines else [0, 0, 0.05]),
                   'pollinterval': interval},
            'device': gen_device(rng, bm, faults, varlen, ident, eol),
            'callers': [gen_ops(rng, bm, rng.randint(1, 3), varlen, aligned, lines) for _ in range(rng.randint(2, 4))],
            'poller': {'interval': interval, 'count': rng.randint(1, 3)} if rng.random() < 0.6 else None,
            'callbacks': rng.choice([[], ['cb0'], ['cb0', 'once1'], ['once0', 'cb1', 'cb2']]),
            'faults': sorted(faults)}
    if eol:
        case['eol'] = eol
    case['addr'] = rng.choice(ADDR_FORMS)       # where the address of the device comes from (uri / class defaults / SECoP default)
    if case['addr'] == 'secop':
        from frappy.lib import SECoP_DEFAULT_PORT
        case['device']['port'] = SECoP_DEFAULT_PORT
    elif rng.random() < 0.5:
        case['device']['port'] = rng.choice([4001, 7777, 10767, 65535])
    if varlen:
        case['varlen'] = True
    if ident:
        case['ident'] = ident
        if not bm and rng.random() < 0.3:
            case['ident_retry'] = False
    if aligned:
        case['aligned'] = True
        cl = case['device'].get('close')
        if cl and 'at' in cl:
            cl['at'] = rng.choice(GRID[2:])
    return case


def catalogue():
    """boundary scenarios, always run (explored systematically)"""
    dflt = {'reply': '{cmd}{n}', 'delay': 0.1}
    io = {'timeout': 2, 'wait_before': 0, 'pollinterval': 3}
    cat = []
    # two callers x two commands (the design spike's enumeration)
    cat.append({'mode': 'string', 'io': io, 'device': {'default': dflt},
                'callers': [[['comm', 'A'], ['comm', 'B']], [['comm', 'C'], ['comm', 'D']]], 'callbacks': []})
    # multicomm with delays against a single communicate; byte device
    cat.append({'mode': 'string', 'io': io, 'device': {'default': dflt, 'cmds': {'W': {'reply': None}}},
                'callers': [[['multi', [['A', True, 0.5], ['W', False, 0.2], ['C', True, 0.3]]]], [['comm', 'D'], ['write', 'W']]],
                'callbacks': []})
    cat.append({'mode': 'bytes', 'io': io, 'device': {'eol': '', 'default': {'reply': 'r{n}xy', 'delay': 0.1, 'chunks': [1, 2]}},
                'callers': [[['multi', [['A', 4, 0.5], ['B', 4, 0.2], ['C', 2, 0.3]]]], [['comm', 'D', 4]]], 'callbacks': []})
    # unsolicited line and a late reply before the next send
    cat.append({'mode': 'string', 'io': io,
                'device': {'default': dflt, 'cmds': {'L': {'reply': 'late', 'delay': 2.5}}, 'unsolicited': [[0.5, 'junk\n']]},
                'callers': [[['sleep', 1.0], ['comm', 'A'], ['comm', 'L'], ['sleep', 1.0], ['comm', 'B']], [['sleep', 4.2], ['comm', 'C']]],
                'callbacks': []})
    # clean disconnect, reconnect succeeds at once (F26); then refusal of two attempts (F24)
    cat.append({'mode': 'string', 'io': io, 'device': {'default': dflt, 'close': {'at': 1.0}},
                'callers': [[['comm', 'A'], ['sleep', 1.5], ['comm', 'B'], ['sleep', 1.5], ['comm', 'C'], ['sleep', 1.0], ['comm', 'D']]],
                'poller': {'interval': 3, 'count': 2}, 'callbacks': ['cb0', 'once1']})
    cat.append({'mode': 'string', 'io': io, 'device': {'default': dflt, 'close': {'send': 1, 'phase': 'mid_reply'}, 'refuse': [1, 2]},
                'callers': [[['comm', 'A'], ['comm', 'B'], ['sleep', 0.5], ['comm', 'C'], ['sleep', 0.7], ['comm', 'D'],
                             ['sleep', 3.0], ['comm', 'E']], [['sleep', 0.3], ['comm', 'B'], ['sleep', 1.0], ['comm', 'A']]],
                'poller': {'interval': 3, 'count': 3}, 'callbacks': ['cb0']})
    # silence
    cat.append({'mode': 'bytes', 'io': io, 'device': {'eol': '', 'default': {'reply': 'ab'}, 'cmds': {'S': {'reply': None}}},
                'callers': [[['comm', 'S', 2]], [['comm', 'A', 2], ['multi', [['S', 2, 0.1], ['A', 2, 0.1]]]]], 'callbacks': []})
    # a second caller enters exactly while the first one detects the disconnect and closes (reconnect interval elapsed)
    cat.append({'mode': 'string', 'io': io, 'device': {'default': dflt, 'close': {'send': 1, 'phase': 'before'}},
                'callers': [[['comm', 'A'], ['until', 3.5], ['comm', 'B'], ['until', 7.0], ['comm', 'C']],
                            [['until', 3.5], ['comm', 'D'], ['until', 7.0], ['comm', 'E']]],
                'poller': {'interval': 3, 'count': 3}, 'callbacks': ['cb0']})
    # the poller's turn comes exactly while a caller detects a clean disconnect and closes
    cat.append({'mode': 'string', 'io': io, 'device': {'default': dflt, 'close': {'send': 1, 'phase': 'before'}},
                'callers': [[['comm', 'A'], ['until', 3.5], ['comm', 'B'], ['until', 7.0], ['comm', 'C']],
                            [['until', 3.5], ['poll'], ['until', 7.0], ['poll']]],
                'callbacks': ['cb0']})
    # ... the same with scheduling points at the accesses of `_last_error` (monitors only)
    cat.append({'mode': 'string', 'io': io, 'yattr': ['_last_error'],
                'device': {'default': dflt, 'close': {'send': 1, 'phase': 'before'}},
                'callers': [[['comm', 'A'], ['until', 3.5], ['comm', 'B'], ['until', 7.0], ['comm', 'C']],
                            [['until', 3.5], ['poll'], ['until', 7.0], ['poll']]],
                'callbacks': ['cb0']})
    # replies of variable length (getFullReply reads the rest): two callers at the same instant, the rest arrives later
    cat.append({'mode': 'bytes', 'varlen': True, 'io': io,
                'device': {'eol': '', 'default': {'reply': 'r3{n}yz', 'delay': 0.1, 'chunks': [2, 1], 'gap': 0.05}},
                'callers': [[['comm', 'A', 2], ['comm', 'B', 2]], [['comm', 'C', 2]], [['multi', [['D', 2, 0.1], ['E', 2, 0]]]]],
                'callbacks': []})
    # identification on (re)connect: clean disconnect, reconnect by the poller and on demand, callbacks
    cat.append({'mode': 'string', 'io': io, 'ident': [['ID', 'id', 4]],
                'device': {'default': dflt, 'cmds': {'ID': {'reply': 'id{n}', 'delay': 0.1}}, 'close': {'at': 1.0}, 'close2': {'at': 2.0}},
                'callers': [[['comm', 'A'], ['sleep', 1.5], ['comm', 'B'], ['until', 3.5], ['comm', 'C'], ['until', 6.0], ['comm', 'D'],
                             ['until', 7.0], ['comm', 'E']]],
                'poller': {'interval': 3, 'count': 3}, 'callbacks': ['cb0', 'once1']})
    # identification garbled once (retry of the first request), and a wrong device (the reconnect never succeeds)
    cat.append({'mode': 'string', 'io': io, 'ident': [['ID', 'id', 4], ['IV', 'v', 4]],
                'device': {'default': dflt, 'cmds': {'ID': {'reply': ['??', 'id{n}', 'id{n}', '??', 'id{n}']}, 'IV': {'reply': ['v1', 'w', 'v2']}},
                           'close': {'at': 1.0}},
                'callers': [[['comm', 'A'], ['until', 3.5], ['comm', 'B'], ['until', 7.0], ['comm', 'C'], ['until', 10.5], ['comm', 'D']]],
                'poller': {'interval': 3, 'count': 3}, 'callbacks': ['cb0']})
    cat.append({'mode': 'bytes', 'io': io, 'ident': [['ID', 'id', 4]],
                'device': {'eol': '', 'default': {'reply': 'r{n}xy', 'delay': 0.1}, 'cmds': {'ID': {'reply': ['id{n}x', 'xx{n}y', 'id{n}x']}},
                           'close': {'send': 2, 'phase': 'after_cmd'}},
                'callers': [[['comm', 'A', 4], ['until', 3.5], ['comm', 'B', 4], ['until', 7.0], ['comm', 'C', 4], ['until', 10.5], ['comm', 'D', 4]],
                            [['until', 3.5], ['comm', 'E', 4]]],
                'poller': {'interval': 3, 'count': 3}, 'callbacks': ['cb0']})
    # a surplus line in the SAME chunk as a reply stays in the receive buffer: discarded before the next command
    cat.append({'mode': 'string', 'io': io,
                'device': {'default': dflt, 'cmds': {'A': {'reply': 'a{n}\nlate{n}', 'delay': 0.1}, 'B': {'reply': 'b{n}\nx\ny', 'delay': 0.1}}},
                'callers': [[['comm', 'A'], ['comm', 'C'], ['comm', 'B'], ['sleep', 0.5], ['multi', [['A', True, 0], ['D', True, 0]]]]],
                'callbacks': []})
    # the port comes from the IO class (uri without port): disconnect, reconnects by the poller and on demand
    cat.append({'mode': 'string', 'io': io, 'addr': 'default', 'device': {'default': dflt, 'port': 7777, 'close': {'at': 1.0}},
                'callers': [[['comm', 'A'], ['sleep', 1.5], ['comm', 'B'], ['until', 3.5], ['comm', 'C'], ['until', 7.0], ['comm', 'D']]],
                'poller': {'interval': 3, 'count': 2}, 'callbacks': ['cb0']})
    cat.append({'mode': 'bytes', 'io': io, 'addr': 'default_bare',
                'device': {'eol': '', 'default': {'reply': 'r{n}xy', 'delay': 0.1}, 'close': {'send': 1, 'phase': 'after_cmd'}, 'refuse': [1]},
                'callers': [[['comm', 'A', 4], ['comm', 'B', 4], ['until', 3.5], ['comm', 'C', 4], ['until', 7.0], ['comm', 'D', 4]]],
                'poller': {'interval': 3, 'count': 2}, 'callbacks': ['cb0']})
    # distinct terminators for receiving and sending, wait_before, a command of several lines against other callers
    cat.append({'mode': 'string', 'io': dict(io, wait_before=0.2), 'eol': ['\n', '\r'],
                'device': {'eol': '\n', 'eol_in': '\r', 'default': dflt, 'cmds': {'W': {'reply': None}}},
                'callers': [[['commx', ['W', 'A']], ['commx', ['W', 'W', 'B']]], [['comm', 'C'], ['write', 'W']]],
                'callbacks': []})
    return cat


def has_lines(case):
    return any(op[0] == 'commx' for ops in case['callers'] for op in ops)


def modelled(case):
    """scenario classes the transaction model covers (the others are judged by the monitors only): no scheduling points at
    attribute accesses; no command that goes out as several sends (the glue model `commPlan` covers those)"""
    return not case.get('yattr') and not (has_lines(case) and case['io'].get('wait_before') and eols(case)[1])


def gen_plan_case(rng):
    """one caller, one communicate: (wait_before, terminators, command) -> what goes on the wire"""
    eol_w = rng.choice(['\r', '\r', '\n', '\r\n', ';', 'ab', 'aab'])      # (no terminator that overlaps itself: 'aa' + 'a' is ambiguous)
    eol_r = rng.choice(['\n', '\n', eol_w, '\r', ';'])
    alphabet = sorted(set(eol_w + eol_r)) + ['x', 'Q']
    lines = [''.join(rng.choice(alphabet) for _ in range(rng.choice([0, 1, 1, 2, 3]))) for _ in range(rng.randint(1, 4))]
    return {'mode': 'string', 'io': {'timeout': 1.2, 'wait_before': rng.choice([0, 0.05, 0.2, 0.2]), 'pollinterval': 3},
            'eol': [eol_r, eol_w] if rng.random() < 0.8 or eol_r != eol_w else eol_w,
            'device': {'eol': eol_r, 'eol_in': eol_w, 'default': {'reply': 'ok{n}', 'delay': 0.05}},
            'callers': [[['commx', lines]]], 'callbacks': [], 'addr': rng.choice(ADDR_FORMS[:4]), 'plan': True}


def explore_levels(make_run, max_preemptions, max_runs, rng):
    """schedules by number of preemptions: the default schedule, then ALL schedules with one preemption (in random order),
    then those with two, ... until max_runs — a race that needs one switch at the right place is found before the budget
    is spent on deep variations of the first few schedules"""
    from vlib.sched import ReplayThenDefault
    level = [[]]
    runs = 0
    seen = set()
    for depth in range(max_preemptions + 1):
        nxt = []
        rng.shuffle(level)
        for prefix in level:
            if runs >= max_runs:
                return
            if tuple(prefix) in seen:
                continue
            seen.add(tuple(prefix))
            sched, obs = make_run(ReplayThenDefault(prefix))
            runs += 1
            yield prefix, sched, obs
            if depth < max_preemptions:
                for pos in range(len(prefix), len(sched.choices)):
                    n, chosen, default = sched.choices[pos]
                    base = [sched.choices[i][1] for i in range(pos)]
                    nxt.extend(base + [alt] for alt in range(n) if alt != chosen)
        level = nxt


def realpoll_case(rng):
    return {'mode': 'string', 'io': {'timeout': 2, 'wait_before': 0, 'pollinterval': 3},
            'device': {'default': {'reply': '{cmd}{n}', 'delay': 0.05}, 'close': {'at': round(rng.uniform(0.5, 4.0), 2)},
                       'close2': {'at': round(rng.uniform(0.5, 4.0), 2)}, 'refuse': rng.choice([[], [1], [1, 2]])},
            'callers': [[x for _ in range(rng.randint(5, 9)) for x in (['sleep', rng.choice([0.4, 1.1, 1.7])], ['comm', 'A'])]],
            'callbacks': ['cb0'], 'realpoll': 14.0}


# ----------------------------------------------------------------------------------------
CLAUSES = ['multicomm_atomic', 'exchange_atomic', 'delays_honoured', 'transaction_protected', 'stale_discarded', 'reply_pairing', 'fails_within_timeout',
           'state_visible', 'closed_visible', 'state_not_overwritten', 'reconnect_rate_limited', 'attempts_atomic', 'callbacks_once', 'polling_resumes',
           'wait_before_honoured', 'command_intact', 'reconnect_same_target']


def canon_events(events):
    return [{k: v for k, v in ev.items() if k not in ('seq', 'tf')} for ev in events]


def run(ctx):
    from vlib.sched import explore, RandomPolicy, ReplayThenDefault
    res = Result()
    res.rule = ('scenario = device script (replies, delays, chunkings, unsolicited bytes, silence, close before/inside/after a '
                'transaction or at a time, refused reconnects) x 2-4 callers (communicate/writeline/multicomm) x optional poller x '
                'schedule (systematic <=2 preemptions for the catalogue, random otherwise); non-trivial = at least two callers '
                'overlap on the lock, or a fault is detected (time-out / closed / refused) during the run.  framing = generated '
                '(eol, buffer, chunk list); non-trivial = a result spanning more than one chunk')
    rng = ctx.rng
    big = ctx.tier == 'thorough' or ctx.escalated

    # ---------- framing ----------
    fcases = [gen_frame(rng) for _ in range(ctx.budget(400, 6000))]
    cdir = os.path.join(ctx.verif, 'corpus', 'C16')
    corpus = []
    if os.path.isdir(cdir):
        for fn in sorted(os.listdir(cdir)):
            c = json.load(open(os.path.join(cdir, fn)))
            if c.get('kind') == 'frame':
                fcases.insert(0, c['case'])
            else:
                corpus.append(c)
    reqs = []
    for fc in fcases:
        rq = {'p': 'C16', 'k': 'frame', 'eol': fc['eol'], 'buf': fc['buf'], 'chunks': fc['chunks']}
        if fc['n'] is not None:
            rq['n'] = fc['n']
        reqs.append(rq)
    answers = ctx.driver.batch(reqs)
    for fc, a in zip(fcases, answers):
        if 'driver_error' in a:
            raise RuntimeError(f'driver error {a}')
        impl = impl_frame(fc['eol'], fc['buf'], fc['chunks'], fc['n'])
        res.evaluations += 1
        res.count('frame.' + ('line' if fc['n'] is None else 'bytes') + ('.got' if impl['line'] is not None else '.pending'))
        if impl['line'] is not None and len(fc['chunks']) > 1 and len(impl['line']) > len(fc['buf']):
            res.nontriv(fc)
        if ctx.model_ok and a != impl:
            res.disagreements.append({'case': {'kind': 'frame', 'case': fc}, 'model': a, 'impl': impl})
        # chunk independence on the real code: one chunk holding everything gives the same result
        whole = impl_frame(fc['eol'], fc['buf'] + ''.join(fc['chunks']), [], fc['n'])
        if impl['line'] is not None and '' not in fc['chunks'] and whole != impl and not res.violations:
            res.violations.append({'sig': 'C16:framing_chunk_independent',
                                   'what': f'framing depends on the chunking: {fc} -> {impl}, unchunked -> {whole}',
                                   'case': {'kind': 'frame', 'case': fc}})

    # ---------- scenarios ----------
    runs = []       # (case, choices, events, sched result)

    def one(case, policy):
        s, out = run_case(case, policy)
        return s, out

    nexplore = ctx.budget(110, 700)
    for ci, case in enumerate(catalogue()):
        n = 0
        for prefix, s, out in explore_levels(lambda pol, case=case: one(case, pol), 2, nexplore, rng):
            runs.append((case, [c[1] for c in s.choices], out))
            n += 1
        res.count('catalogue[%d].schedules' % ci, n)
    for c in corpus:
        s, out = one(c['case'], ReplayThenDefault(c.get('choices') or []))
        runs.append((c['case'], [x[1] for x in s.choices], out))
    for _ in range(ctx.budget(380, 3000)):
        case = gen_case(rng)
        for _ in range(2):
            s, out = one(case, RandomPolicy(rng, rng.choice([0.1, 0.3, 0.6])))
            runs.append((case, [c[1] for c in s.choices], out))
    for _ in range(ctx.budget(120, 1500)):     # glue: what one communicate puts on the wire (model: commPlan)
        case = gen_plan_case(rng)
        s, out = one(case, RandomPolicy(rng, 0.0))
        runs.append((case, [c[1] for c in s.choices], out))
    for _ in range(ctx.budget(12, 300)):
        case = realpoll_case(rng)
        s, out = one(case, RandomPolicy(rng, rng.choice([0.0, 0.2, 0.5])))
        runs.append((case, [c[1] for c in s.choices], out))

    reqs = []
    for case, choices, out in runs:
        reqs.extend(requests_for(case, out['events']))
        reqs.append(plan_request(case))
    answers = ctx.driver.batch(reqs)
    seen_sigs = {}
    for j, (case, choices, out) in enumerate(runs):
        rep, judge, tgt, plan = answers[4 * j: 4 * j + 4]
        for a in (rep, judge, tgt, plan):
            if 'driver_error' in a:
                raise RuntimeError(f'driver error: {a}')
        evs = out['events']
        # glue code against its transcriptions: where the connects went to, what a communicate put on the wire
        ports = [t[1] for t in judge_targets(evs)]
        res.count('addr.' + (case.get('addr') or 'port'))
        res.count('connects=%d' % min(len(ports), 4))
        if ctx.model_ok and tgt != ports:
            res.disagreements.append({'case': {'kind': 'scenario', 'case': case, 'choices': choices},
                                      'model': {'targets': tgt}, 'impl': {'targets': ports}})
        if case.get('plan'):
            res.count('plan.sends=%d' % sum(1 for x in plan if x[0] == 'send'))
            if ctx.model_ok and plan != plan_of(evs):
                res.disagreements.append({'case': {'kind': 'scenario', 'case': case, 'choices': choices},
                                          'model': {'plan': plan}, 'impl': {'plan': plan_of(evs)}})
        res.evaluations += 1
        res.traces += 1
        kinds = {e['e'] for e in evs}
        outs = {e.get('out') for e in evs if e['e'] == 'recv'}
        fault = 'closed' in outs or 'empty' in outs or any(e['e'] == 'connect' and not e['ok'] for e in evs)
        res.count('mode.' + case['mode'])
        res.count('callers=%d' % len(case['callers']))
        res.count('fault.detected' if fault else 'fault.none')
        if 'drop' in kinds:
            res.count('update.outdated_true_discarded')
        for f in case.get('faults', []):
            res.count('script.' + f)
        nerr = sum(1 for e in evs if e['e'] == 'ret' and not isinstance(e['r'], list))
        nok = sum(1 for e in evs if e['e'] == 'ret' and isinstance(e['r'], list))
        res.count('calls.ok', nok)
        res.count('calls.err', nerr)
        if out['sched']['deadlock'] or out['sched']['aborted']:
            res.count('sched.' + str(out['sched']['aborted'] or 'deadlock'))
        waited = any(e['e'] == 'acq' for e in evs) and len({e['who'] for e in evs if e['e'] == 'send'}) > 1
        if fault or waited:
            res.nontriv({'case': case, 'choices': choices})
        if len(res.samples) < 3 and fault and len(evs) < 60:
            res.samples.append({'case': case, 'results': [[e['who'], e['r']] for e in evs if e['e'] == 'ret']})
        payload = {'kind': 'scenario', 'case': case, 'choices': choices}
        if case.get('realpoll'):
            if not judge['polling_resumes']:
                sig = 'C16:polling_resumes'
                if sig not in seen_sigs:
                    seen_sigs[sig] = 1
                    res.violations.append({'sig': sig, 'what': 'after a reconnect the poll thread does not poll its modules again at once',
                                           'case': payload})
            continue
        if out['sched']['deadlock'] or out['sched']['aborted'] or out['sched']['errors']:
            sig = 'C16:hang:' + str(out['sched']['aborted'] or out['sched']['errors'])
            if sig not in seen_sigs:
                seen_sigs[sig] = 1
                res.violations.append({'sig': sig, 'what': f'run does not terminate normally: {out["sched"]}', 'case': payload})
            continue
        for f in ('ident', 'varlen', 'aligned', 'eol', 'plan'):
            if case.get(f):
                res.count('script.' + f)
        if has_lines(case):
            res.count('script.lines')
        if ctx.model_ok and modelled(case) and not rep['accepted']:
            bad = evs[rep['at']] if rep['at'] < len(evs) else None
            res.disagreements.append({'case': payload, 'model': {k: rep[k] for k in ('at', 'pc', 'expected_result', 'state')},
                                      'impl': {k: v for k, v in (bad or {}).items() if k not in ('seq', 'tf')}})
        for cl in CLAUSES:
            if not judge[cl]:
                sig = f'C16:{cl}:{case["mode"]}'
                res.count('violated.' + cl)
                if sig in seen_sigs:
                    continue
                seen_sigs[sig] = 1
                small, schoices = shrink_case(ctx, case, choices, cl)
                res.violations.append({'sig': sig, 'what': describe(cl, small),
                                       'case': {'kind': 'scenario', 'case': small, 'choices': schoices, 'clause': cl}})
    return res


def judge_targets(events):
    return targets_of(events)


def plan_request(case):
    """the model's version of what the first call of caller 0 puts on the wire (asked for `plan` scenarios only)"""
    if not case.get('plan'):
        return {'p': 'C16', 'k': 'plan', 'wait_before': 0, 'eol_w': '', 'cmd': ''}
    eol_w = eols(case)[1]
    return {'p': 'C16', 'k': 'plan', 'wait_before': us(case['io'].get('wait_before', 0)), 'eol_w': eol_w,
            'cmd': eol_w.join(case['callers'][0][0][1])}


def judge_one(ctx, case, choices):
    from vlib.sched import ReplayThenDefault
    s, out = run_case(case, ReplayThenDefault(choices))
    rep, judge, tgt = ctx.driver.batch(list(requests_for(case, out['events'])))
    return s, out, rep, judge


def shrink_case(ctx, case, choices, clause):
    """drop callers / ops / the poller / the schedule while the clause still fails (bounded effort)"""
    def fails(c, ch):
        try:
            s, out, rep, judge = judge_one(ctx, c, ch)
        except Exception:
            return False
        return not out['sched']['aborted'] and not judge.get(clause, True)
    cur, ch = json.loads(json.dumps(case)), list(choices)
    if fails(cur, []):
        ch = []
    budget = 40
    changed = True
    while changed and budget > 0:
        changed = False
        cands = []
        for i in range(len(cur['callers'])):
            if len(cur['callers']) > 1:
                c = json.loads(json.dumps(cur))
                del c['callers'][i]
                cands.append(c)
            for k in range(len(cur['callers'][i])):
                c = json.loads(json.dumps(cur))
                del c['callers'][i][k]
                cands.append(c)
        if cur.get('poller'):
            c = json.loads(json.dumps(cur))
            c['poller'] = None
            cands.append(c)
        for c in cands:
            budget -= 1
            if budget <= 0:
                break
            if fails(c, ch if ch else []):
                cur = c
                changed = True
                break
    return cur, ch


def describe(clause, case):
    return f'{clause} fails on {case["mode"]} communicator: callers={case["callers"]} device={case["device"]} poller={case.get("poller")}'


def replay(ctx, rp):
    c = rp['case']
    if c['kind'] == 'frame':
        fc = c['case']
        impl = impl_frame(fc['eol'], fc['buf'], fc['chunks'], fc['n'])
        rq = {'p': 'C16', 'k': 'frame', 'eol': fc['eol'], 'buf': fc['buf'], 'chunks': fc['chunks']}
        if fc['n'] is not None:
            rq['n'] = fc['n']
        a = ctx.driver.batch([rq])[0]
        whole = impl_frame(fc['eol'], fc['buf'] + ''.join(fc['chunks']), [], fc['n'])
        print('case  :', fc)
        print('impl  :', impl)
        print('whole :', whole)
        print('model :', a)
        return 0 if a == impl and (impl['line'] is None or '' in fc['chunks'] or whole == impl) else 1
    s, out, rep, judge = judge_one(ctx, c['case'], c.get('choices') or [])
    for ev in out['events']:
        print('  ', {k: v for k, v in ev.items() if k not in ('seq', 'tf')})
    print('sched :', out['sched'])
    print('connect targets (host 0 = the device\'s host):', targets_of(out['events']))
    if c['case'].get('plan'):
        print('on the wire :', plan_of(out['events']))
        print('model plan  :', ctx.driver.batch([plan_request(c['case'])])[0])
    print('model :', 'not replayed (a command of several sends / attribute-level scheduling)' if not modelled(c['case']) else
          rep if not rep.get('accepted') else 'accepts the event sequence')
    print('judge :', judge)
    bad = [k for k in CLAUSES if not judge.get(k, True)]
    if out['sched']['deadlock'] or out['sched']['aborted'] or out['sched']['errors']:
        bad.append('hang')
    print('failing clauses:', bad)
    return 1 if bad else 0
