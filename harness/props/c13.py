"""C13 — Poller: bounded staleness, no starvation, survives failing reads.

The real `Module.__pollThread` body runs as the single managed poll thread of a `vlib.sched.Scheduler` (virtual clock,
1 tick = 2^-10 s, one tick per clock read) over 1..4 generated modules (optionally behind a shared io module), with
scripted durations/failures of `doPoll` / `read_*` / `initialReads` / the write functions of the start values (called by
`writeInitParams` in the start-up round and behind it; parameters of every kind of declaration — polled, `@nopoll`, handlers
with nopoll, no read function — get start values), and an 'actor' thread changing intervals, switching
fast polling, triggering and simulating reconnects.  A 'stopper' thread aborts the run at the virtual deadline.

Recorded per run: every function of a module the poll thread's own code calls — `doPoll` / `read_*` through `callPollFunc`,
`initialReads`, and every `read_<p>` / `write_<p>` it calls directly, wherever (inside `writeInitParams`, in the round, in
the loop) — as (start, module, function, duration); what the environment did
(clock advances, durations, outcomes, time stamps set, actions of the actor) — the latter is fed to the Lean `turn`,
which has to reproduce the call list; the call list itself is judged by the Lean monitors (Spec/C13.lean).
Nothing about the property is decided here.
"""
import json
import math
import os
import time as _time

from check import Result
from vlib.shrink import ddmin

TICKS = 1024
WALL_PER_RUN = 60.0
MAX_CALLS = 40000        # a run is also ended (like at the virtual deadline) after this many calls of the poll thread

META = {
    'level_text': 'Theorems over the Lean model of the poll thread body (Timed/Poller.lean) and of the poll flag computation '
                  '(Timed/PollFlags.lean), all proved in full: errors_contained (successor state and call list of a turn independent '
                  'of every outcome, every environment), startup_writes_call_no_read (writeInitParams, modelled call by call: exactly the '
                  'write functions of the start values still in writeDict, in order, no read function and no poll function, independent '
                  'of every outcome, nothing left afterwards), late_writes_contained / errors_contained_after_round (the writeInitParams '
                  'calls the repaired thread makes behind its start-up round - for every module what it has still to write, whatever any '
                  'write raises - and everything after them are independent of every outcome), nopoll_never_read (the monitor clause '
                  'NoPollNeverRead for every trace of prologue - incl. every function writeInitParams calls - + any number of turns, every '
                  'environment, whatever start values are pending), poll_flags_mark / polled_is_mayPoll (the flag the thread tests is '
                  'set exactly for parameters not marked as not polled, every kind of declaration), interval_change_triggers / _wakes / '
                  '_next_wakeup / _not_lost / _in_window (every environment, incl. actions between wait and clear), '
                  'interval_follows_commands (PollInfo.interval = the interval the module was told, every sequence of actions), '
                  'due_polled_this_turn, not_due_not_polled, main_gap_bound (consecutive doPoll starts <= max(I,D) + (n-1)(D+E) + D + 2E '
                  '<= interval + one sweep), main_gap_bound_spec (the monitor clause MainGapBoundS itself on the model trace), '
                  'interval_change_takes_effect (after arbitrary actions of other threads: first start <= max(last_main + new interval, '
                  'moment of change) + sweep, later gaps <= new interval + sweep), slow_refresh_bound(_thread) (clock <= latest refresh + '
                  '1.5*slow + (2N+2)*sweep + 2) and bounds_from_thread_start (both bounds from the state PollInfo.__init__ leaves) for '
                  'quiet environments with durations <= D and clock steps <= E; the bounds count from the start of the loop, i.e. from '
                  'the end of the late writes (like the writes of the start-up round they are not poll functions and have no bound).  '
                  'The model is tied to frappy/modulebase.py and '
                  'frappy/rwhandler.py by replaying every recorded environment of the real _Module__pollThread (virtual time, other '
                  'threads acting inside poll functions, inside waits, at the entry of wait and of clear) through the Lean `turn` and '
                  'comparing the call lists, and by comparing the real poll flags with the model; the Lean monitors check the full '
                  'bounds, incl. run-time interval changes judged against the commands given, on every implementation trace.',
    'level_note': 'Trusted: Lean kernel + axioms propext/Classical.choice/Quot.sound; vlib.sched virtual clock (1 tick = 2^-10 s, '
                  'all intervals/durations multiples of it so that the float arithmetic of the loop is exact); the ghost fields '
                  'lastStart/refreshed of the model (pinned by refreshed_is_a_refresh); the run-level bounds assume a quiet stretch '
                  '(after any actions: interval_change_takes_effect), runs with changes at several moments are covered per stretch and '
                  'by the monitor; the refresh bound is not proved as the Spec clause on traceOf; OS scheduling latency and the GIL are '
                  'outside the model.',
    'trusted': [
        'virtual time: every clock read advances by >= 1 tick; durations are those the fake drivers sleep on the patched clock',
        'instrumentation: mobj.callPollFunc / every mobj.read_<p> and mobj.write_<p> / triggerPoll.wait / triggerPoll.clear are wrapped on the '
        'instances (the originals run inside); a read_<p> / write_<p> entered by the poll thread while none of the generated bodies '
        '(doPoll, initialReads, read and write functions = the module\'s own code) is active counts as called by the poller; code of the '
        'poll thread that reached a read function by another route than the instance attribute (e.g. through the class) is seen only when the '
        'parameter has a generated read function body (recorded there); a write function reached that way is not recorded as a call',
        'the recipe of the generated configuration (given_of: which parameters are given a value); what module initialisation enters into '
        'writeDict is computed by the model (givenIdx) from it and compared with the real writeDict in every scenario',
        'the recipe of the generated classes (decls_of: how each read function is declared; enablePoll) as reported to the judge',
        'BaseException (SystemExit, KeyboardInterrupt) is deliberately not contained by callPollFunc and is outside the statement',
    ],
    'modelled_not_verified': [
        'announceUpdate (time stamps are taken from the real objects after every call and fed to the model as environment)',
        'accessLock, logging, the bodies of the read wrappers (only their poll flag is modelled)',
        'IOBase.callCallbacks (the reconnect callback trigger_all is invoked through it)',
        'actions of other threads after clear() returned and before the next clock read, and between modules of a sweep without a call (no slot in the model, not generated)',
        'the write wrapper of HasAccessibles (validate, check functions, announceUpdate) around each write function: its time stamps reach the model as environment, a read function it called would be an event',
        'write handlers (WriteHandler / CommonWriteHandler) and other threads taking entries out of writeDict while writeInitParams runs (the `value is not Done` test): not generated',
    ],
    'assumptions': ['slowinterval > 0 (datatype FloatRange(0.1, 120)); poll intervals >= 0',
                    'time stamps given to parameters are not in the future'],
}


class HarnessProblem(Exception):
    pass


# ----------------------------------------------------------------------------------------
# scenario execution on the real code
# ----------------------------------------------------------------------------------------
def _tick(x):
    v = x * TICKS
    r = round(v)
    if abs(v - r) > 1e-6:
        raise HarnessProblem(f'time {x!r} is not a multiple of the tick')
    return int(r)


class Rec:
    """everything observed in one run"""

    def __init__(self, sched):
        self.s = sched
        self.depth = 0
        self.poller = None
        self.calls = []          # completed direct calls: dict(t, m, f, d, o, touch, x)
        self.cur = None          # the direct call in progress
        self.advs = []           # top-level clock reads of the loop
        self.waits = []
        self.mclock = None       # mirror of the model's clock
        self.loop_start = None
        self.pending_ext = []
        self.ext_begin = None
        self.outcome = 'ok'
        self.nested = []         # (t, m, fname) reads made from inside doPoll / initialReads
        self.inner = []          # [t, m, p, d]: read functions the poll thread's own code called while another of its calls was open
        self.stamps = {}         # (m, p) -> last seen timestamp
        self.track = []          # (m, p, pobj)
        self.in_wait = False
        self.wait_t0 = 0
        self.batches = []
        self.counters = {}
        self.problem = None
        self.eps = 1
        self.event = None
        self.flag0 = False
        self.incomplete = None
        self.t_end = None
        self.wait_log = []       # (start, timeout, elapsed, event was already set) per wait, for diagnostics
        self.gaps = []           # per wait: what other threads did between its return and the `clear` that follows
        self.in_gap = False
        self.sync_n = 0          # number of event operations (wait / clear) the poll thread has begun
        self.at_sync = False     # the poll thread is at the entry of such an operation right now
        self.cmds = {}           # m -> [['pi', t, v] | ['fp', t, flag, v]]: what the module was told
        self.drift = None        # the implementation did something the model has no slot for (a correspondence disagreement)

    def now(self):
        return _tick(self.s.now)

    def is_poller(self):
        return self.s.me() is self.poller

    def handoff(self):
        """inside a poll function: let threads whose sleep has expired run now.  (vlib.sched wakes sleepers only when
        every thread is blocked; a poll thread that never blocks — interval 0, zero durations — would otherwise keep
        the actor and the stopper out for ever.)  Costs one tick of the call's duration when somebody is waiting."""
        s = self.s
        me = s.me()
        if me is None or me is not self.poller:
            return
        if any(t is not me and t.status == 'blocked' and t.deadline is not None and t.deadline <= s.now for t in s.threads):
            s.block(('harness.handoff',), lambda: False, s.TICK)

    def touches(self):
        res = []
        for m, p, pobj in self.track:
            ts = pobj.timestamp or 0
            if ts != self.stamps[(m, p)]:
                self.stamps[(m, p)] = ts
                res.append([m, p, _tick(ts)])
        return res

    def begin(self, m, f):
        if self.cur is not None:
            raise HarnessProblem('nested direct call')
        if self.mclock is not None and self.now() != self.mclock:
            self.drift = self.drift or f'clock moved outside the model: {self.now()} != {self.mclock} before {m} {f}'
            self.mclock = self.now()
        self.cur = {'t': self.now(), 'm': m, 'f': f}
        self.outcome = 'ok'
        self.flag0 = self.event.is_set() if self.event is not None else False

    def end(self):
        c = self.cur
        self.cur = None
        if self.s.aborting:
            # the run was stopped in the middle of this call: its start is an observation for the judge (the function
            # WAS started), but there is no duration/outcome to replay in the model
            if self.t_end is None:
                self.incomplete = [c['t'], c['m'], c['f'], max(0, self.now() - c['t'])]
            return
        c['d'] = self.now() - c['t']
        c['o'] = self.outcome
        c['touch'] = self.touches()
        c.setdefault('k', [])        # entries the call itself took out of its module's writeDict (write functions only)
        c['x'] = self.pending_ext
        if not c['x'] and not self.flag0 and self.event is not None and self.event.is_set():
            # the trigger event was set from inside the call (e.g. writeInitParams writing the configured pollinterval
            # runs PollInfo.update_interval): for the loop this is a trigger without any other effect
            c['x'] = [['tr', c['m'], False]]
        self.pending_ext = []
        self.ext_begin = None
        self.calls.append(c)
        self.mclock = self.now()
        del self.s.trace[:]          # the scheduler's label trace is not used here; keep memory flat
        del self.s.choices[:]
        if len(self.calls) >= MAX_CALLS and not self.s.aborting:
            self.t_end = self.now()
            self.s._abort('done')


OUTCOMES = ['ok', 'secop', 'silent', 'comm', 'commsilent', 'zd', 'key', 'attr']
MODEL_OUTCOME = {'ok': 'ok', 'secop': 'secop', 'silent': 'silent', 'comm': 'comm', 'commsilent': 'comm',
                 'zd': 'exc', 'key': 'exc', 'attr': 'exc'}


def _raise(kind):
    from frappy.errors import HardwareError, CommunicationFailedError, SilentCommunicationFailedError

    class SilentHardwareError(HardwareError):
        silent = True
    if kind == 'secop':
        raise HardwareError('scripted')
    if kind == 'silent':
        raise SilentHardwareError('scripted')
    if kind == 'comm':
        raise CommunicationFailedError('scripted')
    if kind == 'commsilent':
        raise SilentCommunicationFailedError('scripted')
    if kind == 'zd':
        return 1 // 0
    if kind == 'key':
        return {}['scripted']
    if kind == 'attr':
        return None.scripted
    return None


def _classify(e):
    from frappy.errors import SECoPError, CommunicationFailedError
    if isinstance(e, CommunicationFailedError):
        return 'comm'
    if isinstance(e, SECoPError):
        return 'silent' if e.silent else 'secop'
    return 'exc'


def _script_next(rec, key, script):
    k = rec.counters.get(key, 0)
    rec.counters[key] = k + 1
    d, o = script[k % len(script)]
    return k, d, o


def build_classes(rec, spec_mods, T):
    """one generated class per module spec"""
    from frappy.core import Module, Readable, Parameter, FloatRange, nopoll, ReadHandler, CommonReadHandler
    from frappy.rwhandler import CommonWriteHandler
    from frappy.io import IOBase, HasIO

    classes = []
    for mi, spec in enumerate(spec_mods):
        ns = {}

        def fake(self, fname, script, values, mi=mi):
            """body of a scripted read function (top-level or nested)"""
            k, d, o = _script_next(rec, (mi, fname), script)
            top = rec.depth == 0
            if not top:
                rec.nested.append((rec.now(), self.name, fname))
            # the body of a read function runs in the poll thread although neither a module's own code nor a recorded call
            # of the poll thread is active: the thread's code reached it by a route the instance wrappers do not see
            # (through the class, say) — still a read by the poller: an event for the judge, no slot in the model
            stray = top and rec.poller is not None and rec.is_poller() and rec.cur is None
            t0 = rec.now()
            rec.depth += 1
            try:
                rec.handoff()
                if d:
                    T.sleep(d / TICKS)
                _raise(o)
                return float(k if values == 'changing' else 1)
            except BaseException as e:
                if top and type(e).__name__ != 'SchedAbort':
                    rec.outcome = _classify(e)
                raise
            finally:
                rec.depth -= 1
                if stray and fname[5:] in self.parameters and self.name in rec.index:
                    rec.inner.append([t0, rec.index[self.name], list(self.parameters).index(fname[5:]), rec.now() - t0])

        groups = {}
        for p in spec['params']:
            name, kind = p['name'], p['kind']
            if name not in ('value', 'status'):
                ns[name] = Parameter('generated', FloatRange(), default=0)
            script = [tuple(x) for x in p.get('script', [[0, 'ok']])]
            if kind in ('read', 'nopoll'):
                def rf(self, _n=name, _s=script, _v=p.get('values', 'changing')):
                    v = fake(self, 'read_' + _n, _s, _v)
                    return (100, '') if _n == 'status' else v
                rf.__name__ = 'read_' + name
                ns['read_' + name] = nopoll(rf) if kind == 'nopoll' else rf
            elif kind in ('handler', 'common'):
                groups.setdefault((kind, p['group']), []).append((name, script))
        for (kind, g), members in groups.items():
            keys = tuple(n for n, _ in members)
            scripts = dict(members)
            np_ = next(p.get('np') for p in spec['params'] if p['kind'] == kind and p.get('group') == g)
            inner = nopoll if np_ == 'inner' else (lambda f: f)       # @nopoll below the handler decorator
            outer = nopoll if np_ == 'outer' else (lambda f: f)       # nopoll(...) applied to the handler object
            if kind == 'handler':
                def hf(self, pname, _sc=scripts):
                    return fake(self, 'read_' + pname, _sc[pname], 'changing')
                hf.__name__ = 'read_group%d' % g
                hf.__qualname__ = 'Gen%d.read_group%d' % (mi, g)
                ns['read_group%d' % g] = outer(ReadHandler(keys)(inner(hf)))
            else:
                def cf(self, _sc=scripts, _keys=keys):
                    v = fake(self, 'read_' + _keys[0], _sc[_keys[0]], 'changing')
                    for kname in _keys:
                        setattr(self, kname, v)
                cf.__name__ = 'read_common%d' % g
                cf.__qualname__ = 'Gen%d.read_common%d' % (mi, g)
                ns['read_common%d' % g] = outer(CommonReadHandler(keys)(inner(cf)))

        dp_script = [tuple(x) for x in spec.get('doPoll', [[0, 'ok']])]
        dp_reads = list(spec.get('doPollReads', []))
        dp_acts = {}
        for kk, act in spec.get('doPollActs', []):
            dp_acts.setdefault(kk, []).append(act)

        def doPoll(self, _s=dp_script, _r=dp_reads, mi=mi, _acts=dp_acts):
            k, d, o = _script_next(rec, (mi, 'doPoll'), _s)
            rec.depth += 1
            try:
                rec.handoff()
                # driver code switching fast polling / triggering from inside its own doPoll, i.e. from the poll
                # thread itself (as HasStates.cycle_machine does)
                for act in _acts.get(k, []):
                    rec.do_action(dict(act, m=mi))
                for pn in _r:
                    getattr(self, 'read_' + pn)()
                if d:
                    T.sleep(d / TICKS)
                _raise(o)
            except BaseException as e:
                if type(e).__name__ != 'SchedAbort':
                    rec.outcome = _classify(e)
                raise
            finally:
                rec.depth -= 1
        ns['doPoll'] = doPoll

        init_script = [tuple(x) for x in spec.get('init', [[0, 'ok']])]
        init_reads = list(spec.get('initReads', []))

        def initialReads(self, _s=init_script, _r=init_reads, mi=mi):
            k, d, o = _script_next(rec, (mi, 'init'), _s)
            rec.begin(rec.index[self.name], 'i')       # `initialReads` is a call of its own ('i')
            rec.depth += 1
            try:
                for pn in _r:
                    getattr(self, 'read_' + pn)()
                if d:
                    T.sleep(d / TICKS)
                _raise(o)
            except BaseException as e:
                if type(e).__name__ != 'SchedAbort':
                    rec.outcome = _classify(e)
                raise
            finally:
                rec.depth -= 1
                rec.end()
        ns['initialReads'] = initialReads

        def make_write(name, d, o):
            # the write function of a start value (called by writeInitParams): takes time, fails in every way a read can
            def wf(self, value, _d=d, _o=o):
                rec.depth += 1
                try:
                    rec.handoff()
                    if _d:
                        T.sleep(_d / TICKS)
                    _raise(_o)
                    return value
                finally:
                    rec.depth -= 1
            wf.__name__ = 'write_' + name
            return wf

        if spec.get('written'):
            ns['w'] = Parameter('written at start', FloatRange(), default=0, readonly=False)
            wd, wo = spec.get('wscript', [0, 'ok'])
            ns['write_w'] = make_write('w', wd, wo)
        for p in spec['params']:
            # a generated parameter of any kind of declaration (plain / @nopoll / no read function / read handler /
            # common read handler, with or without nopoll) may have a start value and a write function
            if p.get('w') and p['name'] not in ('value', 'status'):
                ns[p['name']] = Parameter('generated, written at start', FloatRange(), default=0, readonly=False)
                if p.get('wg') is None:
                    ns['write_' + p['name']] = make_write(p['name'], p['w'][0], p['w'][1])
        # start values written through a common write handler: one function for the whole group; when it fetches the
        # values of the other members (`values.as_tuple(...)`) these are taken out of writeDict by that very call
        wgroups = {}
        for p in spec['params']:
            if p.get('w') and p.get('wg') is not None and p['name'] not in ('value', 'status'):
                wgroups.setdefault(p['wg'], []).append(p)
        for g, members in wgroups.items():
            wkeys = tuple(p['name'] for p in members)
            wscripts = {p['name']: p['w'] for p in members}
            fetch = members[0].get('wfetch', 'all')

            def cwf(self, values, _keys=wkeys, _sc=wscripts, _fetch=fetch):
                own = next(iter(values))          # the member being written
                d, o = _sc[own]
                rec.depth += 1
                try:
                    rec.handoff()
                    if _fetch == 'all':
                        values.as_tuple(*_keys)
                    if d:
                        T.sleep(d / TICKS)
                    _raise(o)
                    for kname in list(values):
                        setattr(self, kname, values[kname])
                finally:
                    rec.depth -= 1
            cwf.__name__ = 'write_wgroup%d' % g
            cwf.__qualname__ = 'Gen%d.write_wgroup%d' % (mi, g)
            ns['write_wgroup%d' % g] = CommonWriteHandler(wkeys)(cwf)
        if not spec.get('enabled', True):
            ns['enablePoll'] = False

        base = spec['base']
        if base == 'io':
            bases = (IOBase,)

            def checkHWIdent(self):
                return None
            ns['checkHWIdent'] = checkHWIdent

            def connectStart(self):
                self.is_connected = True
            ns['connectStart'] = connectStart
        elif base == 'readable':
            bases = (HasIO, Readable) if spec.get('has_io') else (Readable,)
        else:
            bases = (HasIO, Module) if spec.get('has_io') else (Module,)
        classes.append(type('Gen%d' % mi, bases, ns))
    return classes


def decls_of(spec, mobj):
    """how the class declares the read function of each parameter (in `mobj.parameters` order), from how the class was
    GENERATED (not from the flags the framework computed): `[kind, inner nopoll, outer nopoll]`.  Which of these are
    polled is decided in Lean (model `PollFlags.pollFlag` for the correspondence, `Spec.C13.mayPoll` for the judge)."""
    kinds = {p['name']: p for p in spec['params']}
    res = []
    seen_common = set()
    for n in mobj.parameters:
        p = kinds.get(n)
        if spec['base'] == 'io' and n == 'is_connected':
            res.append(['plain', False, False])       # IOBase.read_is_connected is a plain read function of the framework
        elif p is None or p['kind'] == 'none':
            res.append(['none', False, False])
        elif p['kind'] == 'read':
            res.append(['plain', False, False])
        elif p['kind'] == 'nopoll':
            res.append(['plain', True, False])
        else:
            np_ = next(q.get('np') for q in spec['params'] if q['kind'] == p['kind'] and q.get('group') == p['group'])
            if p['kind'] == 'handler':
                k = 'handler'
            else:
                first = [q['name'] for q in spec['params'] if q['kind'] == 'common' and q['group'] == p['group']][0]
                k = 'commonFirst' if n == first else 'commonRest'
            res.append([k, np_ == 'inner', np_ == 'outer'])
    return res


def _wrap_read(rec, orig, i, pid):
    import functools

    @functools.wraps(orig)          # keeps __name__ and the `poll` flag the thread tests
    def rw(*args, **kwds):
        if rec.poller is None or not rec.is_poller() or rec.depth > 0:
            return orig(*args, **kwds)          # another thread, or the module's own code
        cur = rec.cur
        if cur is None:
            # called by the poll thread's own code, not through callPollFunc: a call of its own
            rec.begin(i, pid)
            try:
                return orig(*args, **kwds)
            except BaseException as e:
                if type(e).__name__ != 'SchedAbort' and rec.outcome == 'ok':
                    rec.outcome = _classify(e)
                raise
            finally:
                if rec.cur is not None:
                    rec.end()
        if cur['m'] == i and cur['f'] == pid and not cur.get('entered'):
            cur['entered'] = True               # the call callPollFunc was asked to make
            return orig(*args, **kwds)
        t0 = rec.now()                          # inside another call of the poll thread (say, from the write wrapper)
        try:
            return orig(*args, **kwds)
        finally:
            rec.inner.append([t0, i, pid, rec.now() - t0])
    return rw


def _wrap_write(rec, orig, i, pid, mobj, names):
    import functools

    @functools.wraps(orig)
    def ww(*args, **kwds):
        if rec.poller is None or not rec.is_poller() or rec.depth > 0 or rec.cur is not None:
            return orig(*args, **kwds)
        rec.begin(i, ['w', pid])                # `write_<p>(value)` called by the poll thread's own code (writeInitParams)
        before = list(mobj.writeDict)           # (the entry being written has been taken out by writeInitParams already)
        try:
            return orig(*args, **kwds)
        except BaseException as e:
            if type(e).__name__ != 'SchedAbort':
                rec.outcome = _classify(e)
            raise
        finally:
            if rec.cur is not None:
                # what the write function itself took out of writeDict (a common write handler fetching the other
                # members of its group): environment for the model
                rec.cur['k'] = [names.index(n) for n in before if n not in mobj.writeDict and n in names]
                rec.end()
    return ww


def given_of(spec, mobj):
    """which parameters (in `mobj.parameters` order) the GENERATED configuration / class gives a value: the recipe, not the
    `writeDict` the framework filled (that one is compared with what the model makes of this, see `flags`)"""
    res = []
    for n in mobj.parameters:
        if n == 'pollinterval':
            res.append(spec['base'] in ('io', 'readable'))       # cfg: {'value': …} (for a plain Module it is a property)
        elif n == 'w':
            res.append(bool(spec.get('written')))
        else:
            res.append(any(p['name'] == n and p.get('w') for p in spec['params']))
    return res


WINDOW = ('c13.window',)


def _window_policy():
    from vlib.sched import Policy

    class WindowPolicy(Policy):
        """never preempt, except: a thread waiting for the poll thread to reach one of its event operations
        (label WINDOW, condition true) runs at exactly that yield point — before the operation takes effect"""

        def choose(self, enabled, default, step, labels):
            for k, t in enumerate(enabled):
                if t.status == 'blocked' and t.label == WINDOW:
                    return k
            return default
    return WindowPolicy


def WindowPolicy():
    return _window_policy()()


def impl_run(case):
    """run one scenario on the real code; returns the observation dict"""
    import frappy.modulebase as mb
    import frappy.io as fio
    from vlib.sched import Scheduler
    from vlib.node import Node

    s = Scheduler(policy=WindowPolicy(), max_steps=case.get('max_steps', 3000000), start_time=float(case.get('start', 1000)))
    s.TICK = 1.0 / TICKS
    rec = Rec(s)
    T_end = case['T']
    spec_mods = case['mods']

    class TimeProxy:
        def __init__(self, inner):
            self._inner = inner

        def __getattr__(self, name):
            return getattr(self._inner, name)

        def time(self):
            v = self._inner.time()
            if v > float(case.get('start', 1000)) + T_end / TICKS + 120:
                raise HarnessProblem('virtual clock ran far beyond the deadline (stopper starved)')
            if rec.poller is not None and rec.is_poller() and rec.depth == 0 and rec.cur is None:
                t = _tick(v)
                if rec.mclock is None:
                    raise HarnessProblem('clock read before the first call')
                if rec.loop_start is None:
                    rec.loop_start = rec.mclock
                adv = t - rec.mclock - 1
                if adv < 0:
                    raise HarnessProblem(f'clock mirror ahead: {t} vs {rec.mclock}')
                rec.eps = max(rec.eps, adv + 1)
                rec.advs.append(adv)
                rec.mclock = t
            return v

    tproxy = TimeProxy(s.time)
    with s.patched(mb, threading=s.threading, time=tproxy, mkthread=s.mkthread), \
            s.patched(fio, threading=s.threading, time=tproxy):
        classes = build_classes(rec, spec_mods, tproxy)
        cfg = {}
        for mi, (spec, cls) in enumerate(zip(spec_mods, classes)):
            c = {'cls': cls, 'description': 'generated'}
            if spec['base'] == 'io':
                c['uri'] = 'tcp://nowhere:1'
                c['pollinterval'] = {'value': spec['pollinterval'] / TICKS}
            elif spec['base'] == 'readable':
                c['pollinterval'] = {'value': spec['pollinterval'] / TICKS}
            else:
                c['pollinterval'] = spec['pollinterval'] / TICKS
            c['slowinterval'] = spec['slow'] / TICKS
            if spec.get('has_io'):
                c['io'] = 'm0'
            if spec.get('written'):
                c['w'] = {'value': 1.0}
            for p in spec['params']:
                if p.get('w') and p['name'] not in ('value', 'status'):
                    c[p['name']] = {'value': 1.0}
            cfg['m%d' % mi] = c
        node = Node(cfg)
        if node.errors:
            raise HarnessProblem(f'node errors: {node.errors}')
        objs = [node.modules['m%d' % mi] for mi in range(len(spec_mods))]
        owner = objs[0]
        thread_mods = list(owner.polledModules)
        missing = [o.name for o in objs[1:] if o not in thread_mods]
        if missing or not thread_mods:
            raise HarnessProblem(f'modules do not share one poll thread: {[m.name for m in thread_mods]} (missing {missing})')
        index = {m.name: i for i, m in enumerate(thread_mods)}       # model index = position in the thread's list
        rec.index = index
        spec_of = {('m%d' % mi): spec for mi, spec in enumerate(spec_mods)}

        model_mods, judge_mods, impl_flags, impl_pending = [], [], [], []
        for i, mobj in enumerate(thread_mods):
            spec = spec_of[mobj.name]
            decls = decls_of(spec, mobj)
            names = list(mobj.parameters)
            enabled = bool(spec.get('enabled', True))
            stamps = []
            for pid, n in enumerate(names):
                ts = mobj.parameters[n].timestamp or 0
                if ts:
                    stamps.append([pid, _tick(ts)])
            impl_flags.append([bool(getattr(mobj, 'read_' + n).poll) for n in names])
            # every parameter of an enabled module is watched: a time stamp on a non-polled one is just ignored by the model
            for pid, n in enumerate(names):
                if enabled:
                    pobj = mobj.parameters[n]
                    rec.track.append((i, pid, pobj))
                    rec.stamps[(i, pid)] = pobj.timestamp or 0
            iv = _tick(mobj.pollinterval)
            # what module initialisation has put into `writeDict` (the start values the thread has to write): the model
            # computes it from which parameters are given a value; compared in the `flags` stream
            impl_pending.append([names.index(n) if n in names else -1 for n in mobj.writeDict])
            model_mods.append({'enabled': enabled, 'slow': _tick(mobj.slowinterval), 'decls': decls,
                               'pollinterval': iv, 'interval': iv, 'stamps': stamps, 'given': given_of(spec, mobj)})
            judge_mods.append({'enabled': enabled, 'slow': _tick(mobj.slowinterval), 'decls': decls,
                               'pollinterval': iv, 'cmds': [], 'names': names})
            rec.cmds[i] = judge_mods[-1]['cmds']

        state = {'exited': False, 'started': None}

        # ---- instrumentation on the instances
        def fn_code(mobj, name):
            if name == 'doPoll':
                return 'd'
            if name.startswith('read_'):
                return list(mobj.parameters).index(name[5:])
            raise HarnessProblem(f'unexpected poll function {name}')

        for i, mobj in enumerate(thread_mods):
            def cpf(rfunc, raise_com_failed=False, _orig=mobj.callPollFunc, _m=mobj, _i=i):
                rec.begin(_i, fn_code(_m, rfunc.__name__))
                try:
                    return _orig(rfunc, raise_com_failed)
                finally:
                    if rec.cur is not None:
                        rec.end()
            mobj.callPollFunc = cpf

            # every read function and every write function of the module, as the poll thread's own code finds them
            # (`getattr(mobj, 'read_' + pname)`): what the framework code of the poll thread calls — in the loop, in
            # the start-up round, inside writeInitParams, anywhere — is an observation; what a module's own doPoll /
            # initialReads / read / write function calls in turn (rec.depth > 0) is not.
            for pid, n in enumerate(list(mobj.parameters)):
                orig_r = getattr(mobj, 'read_' + n, None)
                if orig_r is not None:
                    mobj.__dict__['read_' + n] = _wrap_read(rec, orig_r, i, pid)
                orig_w = getattr(mobj, 'write_' + n, None)
                if orig_w is not None:
                    mobj.__dict__['write_' + n] = _wrap_write(rec, orig_w, i, pid, mobj, list(mobj.parameters))

        ev = owner.triggerPoll
        rec.event = ev
        orig_wait = ev.wait

        def wait(timeout=None):
            if not rec.is_poller():
                return orig_wait(timeout)
            tq = math.ceil(timeout * TICKS - 1e-9) / TICKS
            w0 = rec.now()
            if rec.mclock is not None and w0 != rec.mclock:
                rec.drift = rec.drift or f'clock moved outside the model before wait: {w0} != {rec.mclock}'
            was_set = ev.is_set()
            rec.in_wait = True
            rec.wait_t0 = w0
            rec.batches = []
            rec.sync_n += 1
            rec.at_sync = True
            try:
                r = orig_wait(tq)
            finally:
                rec.in_wait = False
                rec.at_sync = False
            batches = rec.batches
            rec.batches = []
            gap = []
            if was_set:
                # the wait returned at once; whatever another thread did at its entry comes, for the loop, between
                # this wait and the `clear`
                d = 0
                gap = [x for b in batches for x in b['x']]
                batches = []
            else:
                trig = [b for b in batches if b['set']]
                if trig:
                    d = trig[0]['d']
                else:
                    d = _tick(tq)
                    if rec.now() - w0 < d:
                        raise HarnessProblem(f'wait({tq}) returned after {rec.now() - w0} ticks without a trigger')
            rec.waits.append([{'d': b['d'], 'x': b['x']} for b in batches])
            rec.gaps.append(gap)
            rec.wait_log.append((w0, _tick(tq), d, was_set))
            rec.mclock = w0 + d
            return r
        ev.wait = wait
        orig_clear = ev.clear

        def clear():
            if not rec.is_poller():
                return orig_clear()
            rec.in_gap = True
            rec.sync_n += 1
            rec.at_sync = True
            try:
                return orig_clear()        # yields before it takes effect: another thread may act here
            finally:
                rec.in_gap = False
                rec.at_sync = False
        ev.clear = clear

        # ---- threads
        def started_cb():
            state['started'] = rec.now()

        def body():
            rec.mclock = rec.now()
            state['clock0'] = rec.mclock
            owner._Module__pollThread(owner.polledModules, started_cb)
            state['exited'] = True

        def note_ext(x):
            if rec.poller.status == 'done':
                return None     # the poll thread is gone: nothing to record (the judge sees `alive = false`)
            if rec.in_wait:
                b = {'d': rec.now() - rec.wait_t0, 'x': [x], 'set': False}
                rec.batches.append(b)
                return b
            if rec.in_gap:
                if rec.gaps:
                    rec.gaps[-1].append(x)
                else:
                    rec.drift = rec.drift or 'the poll thread clears its event without having waited'
                return None
            if rec.cur is None:
                raise HarnessProblem(f'actor acted while the poll thread was between blocking points ({rec.poller.label})')
            rec.pending_ext.append(x)
            return None

        def actor():
            # actions are timed from the end of the start-up round: a change of `pollinterval` made while the round is
            # still running is overwritten when writeInitParams writes the configured value (start-up semantics, C10)
            while state['started'] is None and rec.poller.status != 'done':
                s.time.sleep(16 / TICKS)
            t = 0
            for a in case.get('actions', []):
                if a['at'] > t:
                    s.time.sleep((a['at'] - t) / TICKS)
                    t = a['at']
                do_action(a)

        def do_action(a):
            """what another thread does to the module: the command it gives is recorded for the judge (what the module
            was TOLD — never what the poller's bookkeeping made of it), its effect on the loop for the model"""
            mname = 'm%d' % a['m']
            mobj = node.modules[mname]
            i = index.get(mname)
            if i is None or mobj.pollInfo is None or rec.poller.status == 'done':
                return
            op = a['op']
            begin = rec.now()
            batch = None
            if op == 'pi':
                # for the model: recorded by the wrapper of PollInfo.update_interval, and only if the callback really runs
                # (announceUpdate omits callbacks for an unchanged value within `omit_unchanged_within`)
                mobj.pollinterval = a['v'] / TICKS
                rec.cmds[i].append(['pi', begin, _tick(mobj.pollinterval)])
            elif op == 'fast':
                batch = note_ext(['fp', i, bool(a['flag']), a['v']])
                rec.cmds[i].append(['fp', begin, bool(a['flag']), a['v']])
                mobj.setFastPoll(bool(a['flag']), a['v'] / TICKS)
            elif op == 'trig':
                batch = note_ext(['tr', i, bool(a['imm'])])
                mobj.pollInfo.trigger(bool(a['imm']))
            elif op == 'reconnect':
                cbs = getattr(owner, '_reconnectCallbacks', None)
                if not cbs or 'trigger_polls' not in cbs:
                    return
                batch = note_ext(['ta'])
                owner.callCallbacks()
            if batch is not None:
                batch['set'] = ev.is_set()

        rec.do_action = do_action

        def intruder():
            # acts at chosen event operations (wait / clear) of the poll thread, at their entry: between the computation
            # of the wait time and the wait, and between the return of the wait and the clear
            while state['started'] is None and rec.poller.status != 'done':
                s.time.sleep(16 / TICKS)
            base = rec.sync_n
            for a in sorted(case.get('wactions', []), key=lambda a: a['sync']):
                target = base + a['sync']
                if rec.sync_n >= target:
                    continue
                s.block(WINDOW, lambda: rec.at_sync and rec.sync_n == target)
                if rec.at_sync and rec.sync_n == target:
                    do_action(a)

        def stopper():
            state['tEnd'] = rec.now() + T_end
            s.time.sleep(T_end / TICKS)
            s._abort('done')

        orig_ui = mb.PollInfo.update_interval

        def update_interval(self, pollinterval):
            idx = next((j for j, mo in enumerate(thread_mods) if mo.pollInfo is self), None)
            b = None
            if idx is not None and rec.poller is not None:
                b = note_ext(['ui', idx, _tick(pollinterval)])
                if rec.is_poller() and rec.cur is not None and isinstance(rec.cur['f'], list):
                    # writeInitParams writes the configured poll interval: the module is TOLD its interval, like by any other
                    # assignment — recorded for the judge where it is issued.  (Behind a start-up round that a communication
                    # failure broke off this happens after the start-up callback, i.e. it can come after a client's change.)
                    rec.cmds[idx].append(['pi', rec.now(), _tick(pollinterval)])
            r = orig_ui(self, pollinterval)
            if b is not None:
                b['set'] = ev.is_set()
            return r

        rec.poller = s.spawn('poller', body)
        s.spawn('actor', actor)
        if case.get('wactions'):
            s.spawn('intruder', intruder)
        s.spawn('stopper', stopper)
        mb.PollInfo.update_interval = update_interval
        try:
            out = s.run(wall_timeout=WALL_PER_RUN)
        finally:
            mb.PollInfo.update_interval = orig_ui

    if out['aborted'] != 'done':
        if out['aborted'] in ('wall timeout', 'step limit'):
            raise HarnessProblem(f'run did not reach the virtual deadline: {out}')
    err = rec.poller.error
    if isinstance(err, HarnessProblem):
        raise err
    for t in s.threads:
        if t is not rec.poller and t.error is not None:
            raise HarnessProblem(f'{t.name} failed: {t.error!r}')
    alive = err is None and not state['exited'] and out['aborted'] == 'done'
    start = state.get('clock0', _tick(float(case.get('start', 1000))))
    obs = {
        'model_mods': model_mods,
        'judge_mods': [{k: v for k, v in m.items() if k != 'names'} for m in judge_mods],
        'names': [m['names'] for m in judge_mods],
        'order': [m.name for m in thread_mods],
        'impl_flags': impl_flags,
        'impl_pending': impl_pending,
        'calls': rec.calls,
        'incomplete': rec.incomplete,
        'advs': rec.advs,
        'waits': rec.waits,
        'gaps': rec.gaps,
        'drift': rec.drift,
        'syncs': rec.sync_n,
        'wait_log': rec.wait_log,
        'clock0': start,
        'loopStart': rec.loop_start if rec.loop_start is not None else (rec.mclock or start),
        'tEnd': rec.t_end if rec.t_end is not None else state.get('tEnd', start + T_end),
        'alive': alive,
        'error': type(err).__name__ if err is not None else None,
        'exited': state['exited'],
        'started': state['started'],
        'eps': rec.eps,
        'nested': len(rec.nested),
        'inner': rec.inner,
        'sched': {k: out[k] for k in ('aborted', 'steps', 'deadlock')},
    }
    return obs


def fn_json(f):
    return f


def flags_requests(obs):
    return [{'p': 'C13', 'k': 'flags', 'decls': m['decls'], 'given': m['given']} for m in obs['model_mods']]


def model_request(obs):
    """the polled parameters of the model's modules are computed in Lean from `decls` (model `PollFlags`)"""
    return {'p': 'C13', 'k': 'run', 'clock': obs['clock0'],
            'mods': obs['model_mods'], 'adv': obs['advs'],
            'calls': [{'d': c['d'], 'o': MODEL_OUTCOME[c['o']] if c['o'] in MODEL_OUTCOME else c['o'],
                       't': c['touch'], 'x': c['x'], 'k': c.get('k', [])} for c in obs['calls']],
            'waits': obs['waits'], 'gaps': obs['gaps']}


def judge_request(obs):
    touches = [t for c in obs['calls'] for t in c['touch']]
    evs = [[c['t'], c['m'], c['f'], c['d']] for c in obs['calls']] + ([obs['incomplete']] if obs.get('incomplete') else [])
    if obs.get('inner'):
        # read functions called by the poll thread's own code inside another of its calls: events like any other
        evs = sorted(evs + obs['inner'], key=lambda e: e[0])
    return {'p': 'C13', 'k': 'judge', 'mods': obs['judge_mods'],
            'evs': evs,
            'touches': touches, 'loopStart': obs['loopStart'], 'tEnd': obs['tEnd'], 'alive': obs['alive'],
            'eps': obs['eps']}


def impl_events(obs):
    return [[c['t'], c['m'], c['f'], c['d']] for c in obs['calls']]


# ----------------------------------------------------------------------------------------
# generators
# ----------------------------------------------------------------------------------------
POLL_IV = [128, 128, 256, 512, 1024, 1024, 1536, 2560, 5120, 10240]       # 0.125 s .. 10 s
SLOW_IV = [128, 512, 1024, 2048, 4096, 4096, 8192, 15360]
DURS = [0, 0, 1, 8, 64, 128, 300, 512, 1024, 2048]


def gen_script(rng, heavy, failing):
    n = rng.choice([1, 1, 2, 3, 5])
    res = []
    for _ in range(n):
        d = rng.choice(DURS[:7] if not heavy else DURS)
        if failing and rng.random() < 0.5:
            o = rng.choice(OUTCOMES[1:])
        else:
            o = 'ok'
        res.append([d, o])
    return res


def gen_case(rng, big, T):
    with_io = rng.random() < 0.7
    nmods = rng.choice([1, 2, 2, 3, 3, 4]) if with_io else 1
    mods = []
    if with_io:
        io_enabled = rng.random() < 0.8
        mods.append({'base': 'io', 'pollinterval': rng.choice([0, 0, 128, 1024, 5120, 10240]), 'slow': rng.choice(SLOW_IV),
                     'params': [], 'enabled': io_enabled,
                     'doPoll': gen_script(rng, False, rng.random() < 0.4),
                     'init': [[0, 'ok']]})
        if not io_enabled:
            mods[0]['written'] = False
    heavy_mod = rng.randrange(nmods) if rng.random() < 0.4 else None
    for k in range(nmods):
        base = rng.choice(['readable', 'readable', 'readable', 'module'])
        failing = rng.random() < 0.5
        heavy = k == heavy_mod
        params = []
        if base == 'readable':
            for n in ('value', 'status'):
                if rng.random() < 0.7:
                    params.append({'name': n, 'kind': 'read', 'script': gen_script(rng, False, failing and rng.random() < 0.3),
                                   'values': rng.choice(['changing', 'constant'])})
        np_ = rng.choice([0, 1, 2, 2, 3, 4])
        group = 0
        names = ['a', 'b', 'c', 'e', 'f', 'g']
        i = 0
        while i < np_:
            kind = rng.choice(['read', 'read', 'read', 'nopoll', 'none', 'handler', 'common'])
            if kind in ('handler', 'common') and i + 1 < np_:
                group += 1
                npv = rng.choice([None, None, None, 'inner', 'outer'])
                for _ in range(2):
                    params.append({'name': names[i], 'kind': kind, 'group': group, 'np': npv,
                                   'script': gen_script(rng, heavy and rng.random() < 0.3, failing)})
                    i += 1
                continue
            if kind in ('handler', 'common'):
                kind = 'read'
            params.append({'name': names[i], 'kind': kind, 'script': gen_script(rng, heavy and rng.random() < 0.3, failing),
                           'values': rng.choice(['changing', 'changing', 'constant'])})
            i += 1
        for p in params:
            # a start value (configured) and a write function for it: any kind of declaration, polled or not
            if p['name'] not in ('value', 'status') and rng.random() < 0.3:
                p['w'] = [rng.choice([0, 0, 16, 256]), rng.choice(['ok', 'ok', 'ok'] + OUTCOMES[1:])]
        wr = [p for p in params if p.get('w')]
        if len(wr) >= 2 and rng.random() < 0.4:
            # some of the start values go through one common write handler
            fetch = rng.choice(['all', 'all', 'own'])
            for p in rng.sample(wr, rng.choice([2, 2, 3]) if len(wr) >= 3 else 2):
                p['wg'] = 1
                p['wfetch'] = fetch
        readable_names = [p['name'] for p in params if p['kind'] in ('read', 'nopoll', 'handler')]
        spec = {'base': base, 'has_io': with_io,
                'pollinterval': rng.choice(POLL_IV), 'slow': rng.choice(SLOW_IV), 'params': params,
                'doPoll': gen_script(rng, heavy, failing),
                'doPollReads': [n for n in readable_names if rng.random() < 0.35],
                'init': [[rng.choice([0, 0, 16, 256]), rng.choice(['ok'] * 6 + ['secop', 'zd', 'comm', 'commsilent', 'key'])]],
                'initReads': [n for n in readable_names if rng.random() < 0.15],
                'enabled': True}
        if rng.random() < 0.08:
            spec['enabled'] = False
            spec['written'] = True
        elif rng.random() < 0.25:
            spec['written'] = True
        if base == 'readable' and rng.random() < 0.2:
            # the module's own doPoll switches fast polling / changes its interval / triggers at its k-th invocation
            acts = []
            for _ in range(rng.choice([1, 2, 3])):
                a = gen_command(rng, [spec], 0, 0) if rng.random() < 0.8 else {'op': 'trig', 'imm': rng.random() < 0.5}
                a.pop('at', None)
                a.pop('m', None)
                acts.append([rng.randrange(1, 40), a])
            spec['doPollActs'] = sorted(acts, key=lambda x: x[0])
        if spec.get('written'):
            # the start-up write may take time and may fail in every way a read can
            spec['wscript'] = [rng.choice([0, 0, 16, 256]), rng.choice(['ok', 'ok', 'ok'] + OUTCOMES[1:])]
        mods.append(spec)
    if not any(m.get('enabled', True) for m in mods):
        mods[-1]['enabled'] = True
        mods[-1].pop('written', None)
    # run-time actions
    actions = []
    if rng.random() < 0.6:
        t = 0
        for _ in range(rng.choice([1, 2, 3, 5, 8])):
            t += rng.choice([37, 700, 1500, 3001, 7777, 20011])
            if t >= T - 2048:
                break
            m = rng.randrange(len(mods))
            base = mods[m]['base']
            r = rng.random()
            if r < 0.35 and base in ('readable', 'io'):
                v = rng.choice(POLL_IV + ([0] if base == 'io' else []))
                actions.append({'at': t, 'op': 'pi', 'm': m, 'v': v})
            elif r < 0.65:
                flag = rng.random() < 0.6
                actions.append({'at': t, 'op': 'fast', 'm': m, 'flag': flag, 'v': rng.choice([0, 0, 64, 256, 256, 1024])})
            elif r < 0.85:
                actions.append({'at': t, 'op': 'trig', 'm': m, 'imm': rng.random() < 0.6})
            elif with_io:
                actions.append({'at': t, 'op': 'reconnect', 'm': 0})
    # a session of commands to ONE module (fast polling on/off and poll interval changes in any order), so that every
    # short history of what a module can be told occurs often — not only isolated commands to random modules
    if rng.random() < 0.35:
        cand = [k for k, m in enumerate(mods) if m['base'] in ('readable', 'io') and m.get('enabled', True)]
        if cand:
            m = rng.choice(cand)
            t = actions[-1]['at'] if actions else 0
            for _ in range(rng.choice([2, 3, 3, 4])):
                t += rng.choice([700, 1500, 3001, 7777])
                if t >= T - 4096:
                    break
                actions.append(gen_command(rng, mods, m, t))
    # actions of another thread at the entry of event operations of the poll thread (see `intruder`)
    wactions = []
    if rng.random() < 0.45:
        used = set()
        for _ in range(rng.choice([1, 2, 3])):
            k = rng.randrange(1, 80)
            if k in used:
                continue
            used.add(k)
            m = rng.randrange(len(mods))
            r = rng.random()
            if r < 0.75 and mods[m]['base'] in ('readable', 'io'):
                a = gen_command(rng, mods, m, 0)
            elif r < 0.9 or not with_io:
                a = {'op': 'trig', 'm': m, 'imm': rng.random() < 0.6}
            else:
                a = {'op': 'reconnect', 'm': 0}
            a.pop('at', None)
            a['sync'] = k
            wactions.append(a)
    return {'mods': mods, 'actions': actions, 'wactions': wactions, 'T': T, 'start': 1000}


def gen_command(rng, mods, m, t):
    """one thing a module can be told about its poll interval"""
    r = rng.random()
    if r < 0.4:
        v = rng.choice(POLL_IV + ([0] if mods[m]['base'] == 'io' else []))
        return {'at': t, 'op': 'pi', 'm': m, 'v': v}
    if r < 0.75:
        return {'at': t, 'op': 'fast', 'm': m, 'flag': True, 'v': rng.choice([0, 64, 64, 256, 256, 1024])}
    return {'at': t, 'op': 'fast', 'm': m, 'flag': False, 'v': rng.choice([64, 256])}


def command_catalogue():
    """every sequence of three commands (fast polling on `+`, off `-`, poll interval change `p`) given to a module
    that starts with a long poll interval, three modules (= three sequences) per scenario; the values get shorter
    with each command, so a command that is not (or no longer) honoured shows as a main poll that comes too late"""
    import itertools
    seqs = list(itertools.product('+-p', repeat=3))
    cases = []
    for k in range(0, len(seqs), 3):
        mods, actions = [], []
        for j, seq in enumerate(seqs[k:k + 3]):
            mods.append({'base': 'readable', 'has_io': False, 'pollinterval': 10240, 'slow': 15360,
                         'params': [{'name': 'a', 'kind': 'read', 'script': [[8, 'ok']]}],
                         'doPoll': [[8, 'ok']], 'doPollReads': [], 'init': [[0, 'ok']], 'initReads': [], 'enabled': True})
            for n, c in enumerate(seq):
                at = 2048 + n * 5120 + j * 300
                if c == 'p':
                    actions.append({'at': at, 'op': 'pi', 'm': j, 'v': [2560, 1024, 512][n]})
                else:
                    actions.append({'at': at, 'op': 'fast', 'm': j, 'flag': c == '+', 'v': [512, 256, 128][n]})
        mods[0]['base'] = 'io'
        mods[0]['params'] = []
        for mm in mods[1:]:
            mm['has_io'] = True
        actions.sort(key=lambda a: a['at'])
        cases.append({'mods': mods, 'actions': actions, 'wactions': [], 'T': 50 * TICKS, 'start': 1000,
                      'note': 'command sequences ' + ' '.join(''.join(q) for q in seqs[k:k + 3])})
    return cases


def decl_catalogue():
    """every way a class can declare a read function, on one poll thread: read handlers and common read handlers
    without / with `@nopoll` on the handler function / with `nopoll(...)` on the handler object, plain and `@nopoll`
    read functions, a parameter without read function"""
    def mod(kind):
        params = []
        for g, (npv, (x, y)) in enumerate([(None, 'ab'), ('inner', 'ce'), ('outer', 'fg')], 1):
            for n in (x, y):
                params.append({'name': n, 'kind': kind, 'group': g, 'np': npv, 'script': [[4, 'ok']]})
        return {'base': 'readable', 'has_io': True, 'pollinterval': 1024, 'slow': 2048, 'params': params,
                'doPoll': [[4, 'ok']], 'doPollReads': [], 'init': [[0, 'ok']], 'initReads': [], 'enabled': True}
    plain = {'base': 'module', 'has_io': True, 'pollinterval': 1024, 'slow': 1024,
             'params': [{'name': 'a', 'kind': 'read', 'script': [[4, 'ok']]}, {'name': 'b', 'kind': 'nopoll', 'script': [[4, 'ok']]},
                        {'name': 'c', 'kind': 'none', 'script': [[4, 'ok']]}],
             'doPoll': [[4, 'ok']], 'doPollReads': ['b'], 'init': [[0, 'ok']], 'initReads': [], 'enabled': True}
    io = {'base': 'io', 'pollinterval': 5120, 'slow': 4096, 'params': [], 'enabled': True, 'doPoll': [[0, 'ok']], 'init': [[0, 'ok']]}
    cases = [{'mods': [io, mod('handler'), mod('common'), plain], 'actions': [], 'wactions': [], 'T': 30 * TICKS, 'start': 1000}]
    # the same declarations, every parameter with a start value and a write function: written in the start-up round;
    # and once more with the round broken off by a communication failure in the first module behind the io module, so that
    # the start values of the others are written by the `writeInitParams` calls behind the round
    import copy
    for first_init, outcomes, wgroups in (([[0, 'ok']], ['ok'], False), ([[4, 'comm']], ['ok'], False),
                                          ([[0, 'ok']], ['ok', 'secop', 'zd', 'comm', 'silent', 'key'], False),
                                          ([[4, 'comm']], ['ok', 'ok', 'zd'], True)):
        mods = copy.deepcopy([io, mod('handler'), mod('common'), plain])
        only_written = copy.deepcopy(plain)
        only_written['enabled'] = False
        mods.append(only_written)
        for k, m in enumerate(mods[1:]):
            for j, p in enumerate(m['params']):
                p['w'] = [4, outcomes[(j + k) % len(outcomes)]]
                if wgroups and j < 3:
                    # the first three start values of every module through one common write handler; the handler
                    # fetches the other members (taking them out of writeDict) in every second module
                    p['wg'] = 1
                    p['wfetch'] = 'all' if k % 2 == 0 else 'own'
        mods[1]['init'] = first_init
        cases.append({'mods': mods, 'actions': [], 'wactions': [], 'T': 30 * TICKS, 'start': 1000})
    return cases


def window_catalogue():
    """one module with a long poll interval; another thread shortens it at the entry of the n-th event operation of
    the poll thread, n = 1..6 (before a wait / between a wait and the clear, early and late in the run)"""
    cases = []
    for k in (1, 2, 3, 4, 5, 6):
        for a in ({'op': 'fast', 'm': 0, 'flag': True, 'v': 64}, {'op': 'pi', 'm': 0, 'v': 256}):
            cases.append({'mods': [{'base': 'readable', 'has_io': False, 'pollinterval': 10240, 'slow': 15360,
                                    'params': [{'name': 'a', 'kind': 'read', 'script': [[8, 'ok']]}],
                                    'doPoll': [[8, 'ok']], 'doPollReads': [], 'init': [[0, 'ok']], 'initReads': [], 'enabled': True}],
                          'actions': [], 'wactions': [dict(a, sync=k)], 'T': 40 * TICKS, 'start': 1000})
    return cases


def zero_interval(case):
    """does any module ever run with interval 0 (the loop then never waits: one turn per few ticks)"""
    if any(m['base'] == 'io' and m['pollinterval'] == 0 and m.get('enabled', True) for m in case['mods']):
        return True
    own = [a for m in case['mods'] for _, a in m.get('doPollActs', [])]
    return any(a['op'] in ('fast', 'pi') and a['v'] == 0 and a.get('flag', True)
               for a in case.get('actions', []) + case.get('wactions', []) + own)


def cheap_turn(case):
    """an estimate of the shortest busy turn in ticks (to bound the number of turns of interval-0 scenarios)"""
    return 2 + len(case['mods'])


BOUNDARY = [
    # one module, read longer than the interval
    {'mods': [{'base': 'readable', 'has_io': False, 'pollinterval': 128, 'slow': 1024,
               'params': [{'name': 'a', 'kind': 'read', 'script': [[300, 'ok']]}, {'name': 'b', 'kind': 'nopoll', 'script': [[0, 'ok']]}],
               'doPoll': [[512, 'ok'], [512, 'zd']], 'doPollReads': [], 'init': [[0, 'ok']], 'initReads': [], 'enabled': True}],
     'actions': [], 'T': 60 * TICKS, 'start': 1000},
    # two modules, the first one always failing with arbitrary exceptions, shared io with interval 0
    {'mods': [{'base': 'io', 'pollinterval': 0, 'slow': 4096, 'params': [], 'enabled': True, 'doPoll': [[8, 'ok']], 'init': [[0, 'ok']]},
              {'base': 'readable', 'has_io': True, 'pollinterval': 1024, 'slow': 4096,
               'params': [{'name': 'value', 'kind': 'read', 'script': [[64, 'key']]}, {'name': 'a', 'kind': 'read', 'script': [[64, 'zd']]}],
               'doPoll': [[300, 'zd'], [300, 'key'], [300, 'attr']], 'doPollReads': ['value'], 'init': [[0, 'ok']], 'initReads': [], 'enabled': True},
              {'base': 'readable', 'has_io': True, 'pollinterval': 2560, 'slow': 4096,
               'params': [{'name': 'a', 'kind': 'read', 'script': [[64, 'ok']]}, {'name': 'b', 'kind': 'read', 'script': [[64, 'secop']]}],
               'doPoll': [[700, 'ok']], 'doPollReads': [], 'init': [[0, 'ok']], 'initReads': [], 'enabled': True}],
     'actions': [], 'T': 30 * TICKS, 'start': 1000},
    # communication failure at start-up in the first module
    {'mods': [{'base': 'readable', 'has_io': False, 'pollinterval': 1024, 'slow': 2048,
               'params': [{'name': 'a', 'kind': 'read', 'script': [[16, 'comm'], [16, 'ok']]}],
               'doPoll': [[16, 'ok']], 'doPollReads': [], 'init': [[0, 'ok']], 'initReads': [], 'enabled': True}],
     'actions': [], 'T': 40 * TICKS, 'start': 1000},
    # communication failure in initialReads
    {'mods': [{'base': 'module', 'has_io': False, 'pollinterval': 1024, 'slow': 2048,
               'params': [{'name': 'a', 'kind': 'read', 'script': [[16, 'ok']]}],
               'doPoll': [[16, 'ok']], 'doPollReads': [], 'init': [[16, 'commsilent']], 'initReads': [], 'enabled': True}],
     'actions': [], 'T': 40 * TICKS, 'start': 1000},
    # interval changes and fast poll with interval 0 (io module present but not polled itself)
    {'mods': [{'base': 'io', 'pollinterval': 10240, 'slow': 4096, 'params': [], 'enabled': False, 'doPoll': [[0, 'ok']], 'init': [[0, 'ok']]},
              {'base': 'readable', 'has_io': True, 'pollinterval': 5120, 'slow': 4096,
               'params': [{'name': 'a', 'kind': 'read', 'script': [[100, 'ok']]}, {'name': 'b', 'kind': 'read', 'script': [[100, 'ok']]}],
               'doPoll': [[50, 'ok']], 'doPollReads': [], 'init': [[0, 'ok']], 'initReads': [], 'enabled': True},
              {'base': 'readable', 'has_io': True, 'pollinterval': 2560, 'slow': 4096,
               'params': [{'name': 'a', 'kind': 'read', 'script': [[100, 'ok']]}],
               'doPoll': [[50, 'ok']], 'doPollReads': [], 'init': [[0, 'ok']], 'initReads': [], 'enabled': True}],
     'actions': [{'at': 3277, 'op': 'pi', 'm': 1, 'v': 512}, {'at': 9001, 'op': 'fast', 'm': 2, 'flag': True, 'v': 0},
                 {'at': 12001, 'op': 'pi', 'm': 2, 'v': 1024}, {'at': 15001, 'op': 'fast', 'm': 2, 'flag': False, 'v': 256},
                 {'at': 20001, 'op': 'pi', 'm': 1, 'v': 10240}, {'at': 22001, 'op': 'trig', 'm': 1, 'imm': True}],
     'actions_note': 'hand written', 'T': 50 * TICKS, 'start': 1000},
    # communication failure in initialReads of the first user of a shared io: the start-up round is broken off, the configured
    # values of the modules behind it are written afterwards (one write is slow and ends with an arbitrary exception, one
    # module is on the thread only for its write, which ends with a communication error), then everybody is polled
    {'mods': [{'base': 'io', 'pollinterval': 2560, 'slow': 4096, 'params': [], 'enabled': True, 'doPoll': [[8, 'ok']], 'init': [[0, 'ok']]},
              {'base': 'readable', 'has_io': True, 'pollinterval': 1024, 'slow': 2048,
               'params': [{'name': 'a', 'kind': 'read', 'script': [[16, 'ok']]}],
               'doPoll': [[16, 'ok']], 'doPollReads': [], 'init': [[16, 'comm']], 'initReads': [], 'enabled': True,
               'written': True, 'wscript': [8, 'ok']},
              {'base': 'readable', 'has_io': True, 'pollinterval': 512, 'slow': 2048,
               'params': [{'name': 'a', 'kind': 'read', 'script': [[16, 'ok']]}],
               'doPoll': [[16, 'ok']], 'doPollReads': [], 'init': [[0, 'ok']], 'initReads': [], 'enabled': True,
               'written': True, 'wscript': [256, 'zd']},
              {'base': 'module', 'has_io': True, 'pollinterval': 1024, 'slow': 2048, 'params': [],
               'doPoll': [[0, 'ok']], 'doPollReads': [], 'init': [[0, 'ok']], 'initReads': [], 'enabled': False,
               'written': True, 'wscript': [16, 'comm']}],
     'actions': [{'at': 100, 'op': 'fast', 'm': 2, 'flag': True, 'v': 64}], 'T': 40 * TICKS, 'start': 1000},
    # wake-ups driven by slow intervals alone: every poll interval on the thread is much longer than the slow interval of
    # one module, the slow intervals differ, and that module is not the owner of the thread (first scenario) / is the
    # owner (second scenario); nobody triggers
    {'mods': [{'base': 'io', 'pollinterval': 10240, 'slow': 15360, 'params': [], 'enabled': True, 'doPoll': [[8, 'ok']], 'init': [[0, 'ok']]},
              {'base': 'readable', 'has_io': True, 'pollinterval': 10240, 'slow': 512,
               'params': [{'name': 'a', 'kind': 'read', 'script': [[8, 'ok']]}, {'name': 'b', 'kind': 'read', 'script': [[8, 'silent']]}],
               'doPoll': [[8, 'ok']], 'doPollReads': [], 'init': [[0, 'ok']], 'initReads': [], 'enabled': True},
              {'base': 'module', 'has_io': True, 'pollinterval': 5120, 'slow': 1024,
               'params': [{'name': 'a', 'kind': 'read', 'script': [[8, 'ok']]}],
               'doPoll': [[8, 'ok']], 'doPollReads': [], 'init': [[0, 'ok']], 'initReads': [], 'enabled': True}],
     'actions': [], 'T': 60 * TICKS, 'start': 1000},
    {'mods': [{'base': 'io', 'pollinterval': 10240, 'slow': 512, 'params': [], 'enabled': True, 'doPoll': [[8, 'ok']], 'init': [[0, 'ok']]},
              {'base': 'readable', 'has_io': True, 'pollinterval': 10240, 'slow': 15360,
               'params': [{'name': 'a', 'kind': 'read', 'script': [[8, 'ok']]}],
               'doPoll': [[8, 'ok']], 'doPollReads': [], 'init': [[0, 'ok']], 'initReads': [], 'enabled': True},
              {'base': 'module', 'has_io': True, 'pollinterval': 5120, 'slow': 2048,
               'params': [{'name': 'a', 'kind': 'read', 'script': [[8, 'zd']]}, {'name': 'b', 'kind': 'read', 'script': [[8, 'ok']]}],
               'doPoll': [[8, 'ok']], 'doPollReads': [], 'init': [[0, 'ok']], 'initReads': [], 'enabled': True}],
     'actions': [], 'T': 60 * TICKS, 'start': 1000},
]


# ----------------------------------------------------------------------------------------
def classify_violation(obs, judge):
    if not judge['alive']:
        last = obs['calls'][-1] if obs['calls'] else None
        where = ('start' if last is None else 'writeInitParams' if isinstance(last['f'], list)
                 else {'i': 'initialReads', 'd': 'doPoll'}.get(last['f'], 'read'))
        return f'C13:thread-died:{where}'
    if not judge['nopoll']:
        # which kind of declaration the offending read function has (for the signature only): one with an explicit
        # nopoll mark if there is one among the reported calls, else the first reported call
        kinds = []
        for e in judge.get('bad_nopoll', []):
            m, f = e[1], e[2]
            if isinstance(f, int) and m < len(obs['model_mods']) and f < len(obs['model_mods'][m]['decls']):
                d = obs['model_mods'][m]['decls'][f]
                kinds.append(d[0] + ('.nopoll' if d[1] or d[2] else ''))
            else:
                kinds.append('doPoll' if f == 'd' else 'other')
        marked = [k for k in kinds if k.endswith('.nopoll')]
        return 'C13:nopoll-read:' + (marked[0] if marked else kinds[0] if kinds else 'unknown')
    if not judge['main_gap']:
        return 'C13:main-gap'
    return 'C13:slow-refresh'


def describe(obs, judge):
    if not judge['alive']:
        last = obs['calls'][-1] if obs['calls'] else None
        return (f'the poll thread terminated ({obs["error"] or "returned"}) after its call '
                f'{last and (obs["order"][last["m"]], last["f"], last["o"])}; no module of the thread is polled afterwards')
    parts = []
    if not judge['nopoll']:
        def named(e):
            m, f = e[1], e[2]
            if isinstance(f, int) and m < len(obs['names']) and f < len(obs['names'][m]):
                d = obs['model_mods'][m]['decls'][f]
                return '%s.read_%s (declared: %s%s) at %d' % (obs['order'][m], obs['names'][m][f], d[0],
                                                             ', nopoll' if d[1] or d[2] else '', e[0])
            return '%s.%s at %d' % (obs['order'][m] if m < len(obs['order']) else m, f, e[0])
        parts.append(f'the poller called a function it must not: {judge["bad_nopoll"]} = '
                     + '; '.join(named(e) for e in judge['bad_nopoll']))
    if not judge['main_gap']:
        parts.append(f'main poll later than interval + one sweep (sweep={judge["sweep"]} ticks): '
                     f'[module, previous start, next start/end, limit] = {judge["bad_main"][:3]}')
    if not judge['slow_refresh']:
        parts.append(f'polled parameter not refreshed within the bound: [module, param, from, to, limit] = {judge["bad_slow"][:3]}')
    return '; '.join(parts)


def ask(ctx, obs):
    """model of the flags -> model of the loop (with the polled lists the flag model yields) and the judge"""
    a = ctx.driver.batch([model_request(obs), judge_request(obs)] + flags_requests(obs))
    for f in a[2:]:
        if 'driver_error' in f:
            raise RuntimeError(f'driver error: {f}')
    obs['model_flags'] = [f['flags'] for f in a[2:]]
    obs['model_pending'] = [f['pending'] for f in a[2:]]
    return a[0], a[1]


def evaluate(ctx, case):
    obs = impl_run(case)
    model, judge = ask(ctx, obs)
    return obs, model, judge


def shrink_case(ctx, case, sig):
    """smaller scenario with the same signature: fewer actions, fewer modules, shorter run"""
    def fails_with(c):
        try:
            obs, _, judge = evaluate(ctx, c)
        except Exception:
            return False
        return (not judge.get('ok', True)) and classify_violation(obs, judge) == sig

    best = case
    if best.get('actions'):
        acts = ddmin(best['actions'], lambda a: fails_with(dict(best, actions=a)), max_tests=12)
        if not fails_with(dict(best, actions=[])):
            best = dict(best, actions=acts)
        else:
            best = dict(best, actions=[])
    if best.get('wactions'):
        if fails_with(dict(best, wactions=[])):
            best = dict(best, wactions=[])
        elif len(best['wactions']) > 1:
            wa = ddmin(best['wactions'], lambda a: fails_with(dict(best, wactions=a)), max_tests=8)
            best = dict(best, wactions=wa)
    # drop trailing modules that are not needed (an io module at index 0 has to stay when others refer to it)
    while len(best['mods']) > 1:
        cand = dict(best, mods=best['mods'][:-1],
                    actions=[a for a in best['actions'] if a['m'] < len(best['mods']) - 1],
                    wactions=[a for a in best.get('wactions', []) if a['m'] < len(best['mods']) - 1])
        if any(m.get('enabled', True) for m in cand['mods']) and fails_with(cand):
            best = cand
        else:
            break
    for T in (20 * TICKS, 60 * TICKS):
        if T < best['T'] and fails_with(dict(best, T=T)):
            best = dict(best, T=T)
            break
    return best


def run(ctx):
    res = Result()
    res.rule = ('generated scenarios: 1..4 modules on one poll thread (with/without shared io), poll intervals 0..10 s, slow intervals '
                '0.125..15 s, scripted durations 0..2 s and outcomes of doPoll/read_*/initialReads and of the write functions of start values '
                '(parameters of every kind of declaration, plain and common write handlers), run-time interval changes / '
                'fast poll / triggers / reconnect; non-trivial = at least two enabled modules or a failing function, at least 20 '
                'main polls, at least one slow poll, at least one wait')
    big = ctx.tier == 'thorough' or ctx.escalated
    rng = ctx.rng
    T = (2000 if ctx.tier == 'thorough' else 200) * TICKS
    cases = []
    cdir = os.path.join(ctx.verif, 'corpus', 'C13')
    if os.path.isdir(cdir):
        for fn in sorted(os.listdir(cdir)):
            cases.append(json.load(open(os.path.join(cdir, fn)))['case'])
    cases += [dict(c) for c in BOUNDARY]
    cases += command_catalogue()
    cases += window_catalogue()
    cases += decl_catalogue()
    n = ctx.budget(140, 600)
    for _ in range(n):
        c = gen_case(rng, big, T)
        if zero_interval(c):
            # the loop never waits: bound the number of turns
            c['T'] = min(c['T'], 30 * TICKS if not big else 60 * TICKS)
        cases.append(c)

    t0 = _time.time()
    wall_budget = 60 if ctx.tier == 'quick' else 800
    shrunk = 0
    for ci, case in enumerate(cases):
        if _time.time() - t0 > wall_budget and ci >= len(cases) - n:
            res.notes.append(f'wall budget reached after {ci} of {len(cases)} scenarios')
            break
        obs = impl_run(case)
        model, judge = ask(ctx, obs)
        if 'driver_error' in model or 'driver_error' in judge:
            raise RuntimeError(f'driver error: {model} {judge}')
        res.evaluations += 1
        res.traces += 1
        evs = impl_events(obs)
        nmain = sum(1 for e in evs if e[2] == 'd')
        nslow = sum(1 for e in evs if isinstance(e[2], int) and e[0] >= obs['loopStart'])
        fails = sum(1 for c in obs['calls'] if c['o'] != 'ok')
        nen = sum(1 for m in obs['model_mods'] if m['enabled'])
        res.count('mods=%d' % len(case['mods']))
        res.count('io' if case['mods'][0]['base'] == 'io' else 'no-io')
        res.count('enabled=%d' % nen)
        res.count('actions=%s' % min(len(case.get('actions', [])), 3))
        fired = sum(len(g) for g in obs['gaps'])
        res.count('window-actions=%s' % ('none' if not case.get('wactions') else 'given'))
        if fired:
            res.count('acted-between-wait-and-clear')
        if any(b['d'] == 0 for w in obs['waits'] for b in w):
            res.count('acted-at-wait-entry')
        for m in obs['judge_mods']:
            kinds = ''.join('p' if c[0] == 'pi' else ('+' if c[2] else '-') for c in m['cmds'])
            if kinds:
                res.count('commands=%s' % (kinds if len(kinds) <= 3 else kinds[:3] + '…'))
        res.count('interval0' if zero_interval(case) else 'interval>0')
        res.count('failing-calls=%s' % ('0' if not fails else '1-9' if fails < 10 else '10+'))
        res.count('startup-abort' if model.get('aborted') else 'startup-complete')
        wcalls = [c for c in obs['calls'] if isinstance(c['f'], list)]
        if any(c['d'] > 0 and obs['started'] is not None and c['t'] >= obs['started'] for c in wcalls):
            res.count('late-write-takes-time')
        res.count('startup-write-calls=%s' % ('0' if not wcalls else '1-3' if len(wcalls) < 4 else '4+'))
        if any(c.get('k') for c in wcalls):
            res.count('write-handler-took-entries-out-of-writeDict')
        for k, m in enumerate(case['mods']):
            pos = obs['order'].index('m%d' % k)
            names_k, decls_k = obs['names'][pos], obs['model_mods'][pos]['decls']
            for p in m['params']:
                if p.get('w') and p['name'] in names_k:
                    d = decls_k[names_k.index(p['name'])]
                    res.count('start-value.%s%s.%s' % (d[0], '.nopoll' if d[1] or d[2] else '', p['w'][1]))
        if any(m.get('doPollActs') for m in case['mods']):
            res.count('commands-from-own-doPoll')
        for m in case['mods']:
            if m.get('written'):
                res.count('startup-write.' + m.get('wscript', [0, 'ok'])[1])
        res.count('events=%s' % ('<100' if len(evs) < 100 else '<1000' if len(evs) < 1000 else '1000+'))
        for m in obs['model_mods']:
            for d in m['decls']:
                res.count('decl.%s%s' % (d[0], '.nopoll' if d[1] or d[2] else ''))
        for c in obs['calls']:
            res.count('outcome.' + c['o'])
        if (nen >= 2 or fails) and nmain >= 20 and nslow >= 1 and len(obs['waits']) >= 1:
            res.nontriv(case)
        if len(res.samples) < 3 and 20 <= len(evs) <= 60:
            res.samples.append({'order': obs['order'], 'events_first_12': evs[:12], 'alive': obs['alive'],
                                'judge': {k: judge[k] for k in ('ok', 'sweep', 'npolled')}})
        # ---- correspondence
        if ctx.model_ok:
            mevs = model['evs']
            if obs['model_flags'] != obs['impl_flags']:
                res.disagreements.append({'case': case, 'model': {'poll_flags': obs['model_flags']},
                                          'impl': {'poll_flags': obs['impl_flags'], 'decls': [m['decls'] for m in obs['model_mods']]}})
            elif obs['model_pending'] != obs['impl_pending']:
                res.disagreements.append({'case': case, 'model': {'writeDict': obs['model_pending']},
                                          'impl': {'writeDict': obs['impl_pending'], 'given': [m['given'] for m in obs['model_mods']]}})
            elif obs.get('drift') or obs.get('inner'):
                res.disagreements.append({'case': case, 'model': 'no slot for what the implementation did',
                                          'impl': obs['drift'] or f'read functions called by the poll thread inside another of its calls: {obs["inner"][:3]}'})
            elif mevs != evs or (obs['calls'] and model['loopStart'] != obs['loopStart'] and obs['advs']):
                k = next((i for i, (x, y) in enumerate(zip(mevs, evs)) if x != y), min(len(mevs), len(evs)))
                res.disagreements.append({'case': case, 'model': {'first_diff': k, 'evs': mevs[max(0, k - 2):k + 3], 'n': len(mevs),
                                                                   'loopStart': model['loopStart']},
                                          'impl': {'evs': evs[max(0, k - 2):k + 3], 'n': len(evs), 'loopStart': obs['loopStart'],
                                                   'alive': obs['alive'], 'error': obs['error']}})
        # ---- judge
        if not judge['ok']:
            sig = classify_violation(obs, judge)
            small = case
            if shrunk < 2:
                shrunk += 1
                small = shrink_case(ctx, case, sig)
            obs2, _, judge2 = evaluate(ctx, small)
            if judge2.get('ok', True):
                small, obs2, judge2 = case, obs, judge
            res.violations.append({'sig': sig, 'what': describe(obs2, judge2), 'case': small,
                                   'detail': {'order': obs2['order'], 'last_events': impl_events(obs2)[-6:], 'judge': judge2}})
    return res


def replay(ctx, rp):
    case = rp['case'] if 'mods' in rp.get('case', {}) else rp['case']['case']
    obs, model, judge = evaluate(ctx, case)
    evs = impl_events(obs)
    print('modules (thread order):', obs['order'])
    print('impl  : %d calls, alive=%s error=%s, first %s' % (len(evs), obs['alive'], obs['error'], evs[:8]))
    print('        last %s' % evs[-5:])
    print('model : %d calls, same=%s' % (len(model.get('evs', [])), model.get('evs') == evs))
    print('judge :', {k: v for k, v in judge.items()})
    if not judge.get('ok'):
        print('what  :', describe(obs, judge))
    return 0 if judge.get('ok') else 1
