"""C18 — Linked parameters stay mutually consistent.

Four families of generated modules on a real SecNode/Dispatcher (vlib.node): StructParam layouts, FloatEnumParam
label sets (catalogue + SI-scaled), Limit configurations over class hierarchies with check_<p> methods, inputs wired to
1..3 HasControlledBy outputs; plus a correspondence-only stream for the labels argument of FloatEnumParam.  Every operation of a
generated history is issued on the real code (dispatcher request or driver-side call/assignment); after every
operation all linked parameter values and the update stream are recorded.  The Lean model replays the same history
with the same oracle outputs (correspondence), the Lean monitors judge the recorded values (failing-input search).
Struct parameters additionally under overlapping operations: 2..3 threads (poller, client, driver) on one module under the
deterministic scheduler (vlib.sched), judged at the quiescent points and replayed by the model (verb struct_overlap).
Limits: values right next to a limit (one ulp, relative, absolute offsets) with exact per-case scaling.
"""
import json
import os
from fractions import Fraction

from check import Result
from vlib.shrink import ddmin
from vlib.node import Node

META = {
    'level_text': 'Theorems for all histories of client reads/writes and driver-side calls/assignments, with and without the omission of '
                  'unchanged updates (omit_unchanged_within 0 / longer than the history; the default 0.1 s lies in between) and for any '
                  'pending-error flags at start: struct_members_agree (struct[m] = member m after every operation; every layout: '
                  'read_/write_<struct> both, one of them or none, own read_/write_<m> for any members; any oracle outcome of the driver '
                  'bodies incl. SECoP errors and arbitrary exceptions at any member position of a struct access) + '
                  'struct_update_recovers_members (error states: from any state, an operation that returned and announced a value of the '
                  'struct leaves no member in error state, whether or not the member value changed; …_overlapped: the same for accesses '
                  'overlapping with assignments of other threads), floatenum_consistent '
                  '(value = valuedict[index] after every operation; a write hands the driver an index whose value no other label is closer '
                  'to; a driver-side assignment to the float leaves such an index, however close the assigned value is to the current one) '
                  '+ closest_first_minimum (tie rule of min()) + labels_wellformed / floatenum_consistent_of_labels (the hypotheses about '
                  'valuedict are facts about every label list FloatEnumParam.__init__ accepts), limits_enforced (for every class layout of '
                  'the limit parameters and of programmer-written check_<p> methods along the MRO: an accepted write is inside every limit '
                  'parameter current at that moment whenever the automatic check applies - in particular an inherited check_<p> never '
                  'switches it off; an inverted limits pair is refused and changes nothing; for a parameter declared readonly in the '
                  'class, made writable by the configuration or not, written by a client or by the driver calling write_<p>()) + '
                  'limits_enforced_plain, single_controller (per output, any wiring of inputs to several outputs; with ANY outcome of '
                  'the drivers\' set_control_active during every operation - returns, raises before or after marking the module: also '
                  'after a take-over that failed half-way at most one input is marked and the output names it) + takeover_switches_off '
                  '(for operations that returned) + outputs_independent + controlled_by_names_active (no direct deactivate_control and '
                  'no failed operation on that output).  Struct parameters also under OVERLAPPING operations of several threads '
                  '(struct_members_agree_overlapped: a generated read_/write_<struct> of the member-wise layout or a generated member method '
                  'of the combined layout with any assignments of other threads to the struct or to members before each of its steps, any '
                  'values seen by cache reads outside updateLock; the per-thread guard counter of fix 3675468 is what it rests on - '
                  'shared_guard_loses_member_update and shared_counter_update_lost are the proved counterexamples for one counter shared by '
                  'all threads).  Models tied to frappy/extparams.py, params.Limit, modulebase.__init_subclass__/checkLimits '
                  'and mixins.py by a correspondence run on real modules behind a real dispatcher (values, update stream, pending-error '
                  'flags after every operation) and, for struct parameters, on runs of 2..3 threads under the deterministic scheduler '
                  '(catalogue of basic overlaps with all single preemptions + random programs and schedules; the order of the updateLock '
                  'sections and of the cache reads is recorded and the model replays the run with the assignments of the other threads at '
                  'these positions); the Lean monitors judge the values recorded after every operation / at every quiescent point.',
    'level_note': 'Trusted: Lean kernel + axioms propext/Classical.choice/Quot.sound; values are exact rationals (integers over a common '
                  'denominator) - binary64 subtraction/comparison is assumed to agree on the generated values; driver method bodies and '
                  'programmer-written check_<p> methods are scripted oracles (value / None / True / SECoP error / ValueError, KeyError, '
                  'ZeroDivisionError), so are the set_control_active methods of controllers (return / raise before / raise after '
                  'super().set_control_active); the conversion of a label text to a number is an oracle (taken from the class itself).',
    'trusted': [
        'float distance comparison: abs(vdict[i] - x) compared in binary64 agrees with the exact rational comparison on the generated '
        'values (dyadic values and one-ulp / 2^-k neighbours of label values are exact; otherwise the generator keeps x away from near-ties)',
        'FloatRange.validate tolerance band (values outside the range by less than the resolution are clamped) is not modelled; the '
        'generator keeps out-of-range values clearly outside (at every scale)',
        'driver glue: which clause applies to a control operation (take-over by input k / by the output / none) is read off the '
        'operation and the flags recorded before it; the stronger reading (named => marked) is expected of an output until the first '
        'direct deactivate_control of one of its inputs or the first operation on it that did not return; which check_<p> returned True '
        'is recorded by the scripted check methods',
        'error states of struct members: "a value of the struct was announced during the operation" is read off the update messages '
        'the connection received; "in error state" = readerror set or never announced (the flag the omission of updates consults); for '
        'overlapping operations the theorem covers every overlapped access (struct_update_recovers_members_overlapped), the monitor '
        'applies the clause to the sequential prefix / tail operations of a run only (the record that joins the threads is not one operation)',
        'the two extremes of omit_unchanged_within (0 and 10^6 s) stand for every timing under the default window',
        'overlapping operations: vlib.sched switches threads only at lock / send primitives (and, for a tree whose guard counter is a '
        'plain integer, between its load and its store); what runs under updateLock is atomic for every other thread taking that lock; '
        'a read of a cached value outside the lock is one reference read.  Runs in which such a read falls into the middle of another '
        'thread\'s update (5 %) are judged but not compared with the model (the theorem covers them through the oracle `seen`)',
        'overlapping operations, driver glue: the placement of the other threads\' assignments (before which step of an access) is '
        'reconstructed in Python from the recorded order of lock acquisitions; a wrong placement shows as a disagreement, not as a verdict',
    ],
    'modelled_not_verified': [
        'HasAccessibles.__init_subclass__ read/write wrappers and Module.announceUpdate (callbacks, update message, omission of '
        'unchanged updates, readerror / never-announced flags) as used by the linked parameters',
        'Dispatcher._setParameterValue/_getParameterValue (import + validate, then write_/read_)',
        'StructOf / FloatRange / EnumType / LimitsType validation of well-formed values',
    ],
    'assumptions': [
        'user-written read_/write_/check_ bodies are oracles: they return a value of the datatype, None (True), or raise; a '
        'set_control_active override marks the module through super() (it returns only after doing so) or raises',
        'error states of a struct parameter and its members are not linked beyond the recovery clause: an error announced for the struct '
        'is not propagated to the members nor vice versa (the callbacks do not get along with the extra error argument; by design of '
        'announceUpdate their exception is swallowed), so a valid struct next to a member in error state is reachable (failed read_<m>)',
        'control_active and controlled_by are changed only through the mixin methods (they are readonly for clients)',
        'float/enum pairs, limits and control hand-over: sequential histories (one request or driver call at a time); struct parameters: '
        'also accesses overlapping with driver-side assignments of other threads (accesses exclude each other through accessLock); '
        'start-up with configured values (writeInitParams) is not part of a history',
        'the member names of a struct are distinct (keys of a dict)',
    ],
}


# ----------------------------------------------------------------------------------------
# helpers
# ----------------------------------------------------------------------------------------
class CaseTimeout(BaseException):
    """a single case ran into the wall-clock limit (BaseException: frappy swallows Exceptions raised in callbacks)"""


CASE_LIMIT_S = 20


def _on_alarm(signum, frame):
    raise CaseTimeout()


FAIL_TAGS = ['fail:secop', 'fail:value', 'fail:key', 'fail:zerodiv']
EXC_NAMES = {'HardwareError': 'secop', 'ValueError': 'value', 'KeyError': 'key', 'ZeroDivisionError': 'zerodiv'}


def is_fail(v):
    return isinstance(v, str) and v.startswith('fail:')


def fail_tag(rng):
    """a scripted driver failure: a SECoP error or an arbitrary exception (garbled reply, missing key, ...)"""
    return rng.choice(['fail:secop', 'fail:secop', 'fail:value', 'fail:key', 'fail:zerodiv'])


def raise_kind(tag):
    from frappy.errors import HardwareError
    if tag == 'fail:secop':
        raise HardwareError('scripted failure')
    if tag == 'fail:value':
        raise ValueError('scripted failure: garbled reply')
    if tag == 'fail:key':
        raise KeyError('scripted failure')
    if tag == 'fail:zerodiv':
        raise ZeroDivisionError('scripted failure')
    raise RuntimeError(f'script exhausted / bad tag {tag!r}')     # model and code took different paths


def reply_outcome(reply):
    """(accepted, kind of the driver exception that escaped) of a reply triple"""
    if reply[0].startswith('error_'):
        return False, EXC_NAMES.get(reply[2][1])
    return True, None


def num(v):
    """canonical integer of an integral float"""
    f = float(v)
    if f != f or f in (float('inf'), float('-inf')):
        return None
    return int(f) if f == int(f) else f


def ok_reply(reply):
    return not reply[0].startswith('error_')


def updates(conn, modname):
    """value updates (not error updates) sent for module modname since the last call: [(exported name, value)]"""
    res = []
    for msg in conn.msgs:
        if msg[0] == 'update':
            mod, par = msg[1].split(':')
            if mod == modname:
                res.append((par, msg[2][0]))
    conn.msgs.clear()
    return res


_nodes = []


def cleanup_nodes():
    """forget the loggers and wrapper classes of finished cases (logging.Logger.setLevel walks over all loggers
    ever created, frappy keeps every wrapper class: both make a long run quadratic)"""
    import logging
    import frappy.modulebase
    d = logging.Logger.manager.loggerDict
    for node in _nodes:
        prefix = node.root.name + '.'
        for name in [n for n in d if n.startswith(prefix) or n == node.root.name]:
            del d[name]
        for mod in node.modules.values():
            for cls in type(mod).__mro__:
                frappy.modulebase.wrapperClasses.pop(cls, None)
    _nodes.clear()


OMIT_WINDOW = 1e6       # seconds: every announcement of an unchanged value (without a pending error) is omitted
OMIT_MODELLED = {'floatenum', 'limits', 'control', 'struct'}   # families whose model covers the omission of unchanged updates (all; a family missing here would be judged only)


def pending(pobj):
    """the next announcement of this parameter cannot be omitted as unchanged: an error is pending, or it was never
    announced (timestamp 0: no window is open)"""
    return pobj.readerror is not None or not pobj.timestamp


def new_node(cfg, omit=False):
    """omit: run with `omit_unchanged_within` practically infinite instead of 0 (frappy's default is 0.1 s: whether an
    unchanged value is announced again - callbacks included - depends on timing; the two extremes are deterministic)"""
    if len(_nodes) >= 50:
        cleanup_nodes()
    node = Node(cfg, omit_unchanged_within=OMIT_WINDOW if omit else 0)
    _nodes.append(node)
    if node.errors:
        raise RuntimeError(f'node errors: {node.errors}')
    conn = node.connect()
    node.request(conn, 'activate', None, None)
    conn.msgs.clear()
    return node, conn


# ----------------------------------------------------------------------------------------
# struct parameters
# ----------------------------------------------------------------------------------------
def struct_case(case):
    """cases recorded before the mixed layouts were generated (corpus): read_<struct> and write_<struct> both or neither"""
    if 'hasRS' in case:
        return case
    ops = [op[:6] + ['fail:secop'] + op[6:] if op[0] == 'writeMember' and len(op) == 7 else op for op in case['ops']]
    return dict(case, hasRS=case['combined'], hasWS=case['combined'], ops=ops)


def build_struct_class(case, cur):
    from frappy.core import FloatRange, Module, Parameter
    from frappy.extparams import StructParam
    from frappy.errors import HardwareError
    prefix = case['prefix']
    members = case['members']
    ns = {'ctrl': StructParam('ctrl struct', {m: Parameter(m, FloatRange()) for m in members}, prefix, readonly=False)}

    def rd(v):
        if v is None or is_fail(v):
            raise_kind(v)
        return v

    def wr(v):
        if v is None or is_fail(v):
            raise_kind(v)
        if v == 'none':
            return None
        return v

    def read_ctrl(self):
        return rd(cur['rA'].pop(0)) if cur.get('rA') else rd(None)

    def write_ctrl(self, value):
        cur.setdefault('written', []).append(dict(value))
        return wr(cur['wA'].pop(0)) if cur.get('wA') else wr(None)
    if case['hasRS']:
        ns['read_ctrl'] = read_ctrl
    if case['hasWS']:
        ns['write_ctrl'] = write_ctrl
    # programmer-written member methods: in the per-member layout the usual thing, in the combined layout they take the
    # place of the generated ones
    for m in case['hasR']:
        ns['read_' + prefix + m] = lambda self, m=m: rd(cur.get('rB', {}).get(m))
    for m in case['hasW']:
        ns['write_' + prefix + m] = lambda self, value, m=m: wr(cur.get('wB', {}).get(m))
    return type('StructMod', (Module,), ns)


def dict_in(d):
    """wire dict [[m, v], ...] -> python dict"""
    return {k: v for k, v in d}


def obs_dict(members, d):
    """python dict -> canonical list in member order (keys outside the member list are kept at the end)"""
    d = dict(d)
    out = [[m, num(d[m])] for m in members if m in d]
    out += [[k, num(v)] for k, v in d.items() if k not in members]
    return out


def struct_snapshot(mod, conn, case, ok, exc=None):
    members, prefix = case['members'], case['prefix']
    evs = []
    for par, val in updates(conn, 'm'):
        if par == '_ctrl':
            evs.append(['struct', obs_dict(members, val)])
        elif par.startswith('_' + prefix) and par[1 + len(prefix):] in members:
            evs.append(['mem', par[1 + len(prefix):], num(val)])
    return {'struct': obs_dict(members, mod.parameters['ctrl'].value),
            'mem': [[m, num(mod.parameters[prefix + m].value)] for m in members],
            'sP': pending(mod.parameters['ctrl']), 'mP': [pending(mod.parameters[prefix + m]) for m in members],
            'evs': evs, 'ok': ok, 'exc': exc}


def struct_op(node, conn, mod, case, cur, op):
    """issue one operation of a struct history on the real code -> (accepted, kind of the driver exception that escaped)"""
    members, prefix = case['members'], case['prefix']
    kind, via = op[0], op[-1]
    cur.clear()
    ok, exc = True, None
    try:
        if kind == 'readStruct':
            cur['rA'] = [op[1] if is_fail(op[1]) else dict_in(op[1])]
            cur['rB'] = dict(zip(members, op[2]))
            if via == 'req':
                ok, exc = reply_outcome(node.request(conn, 'read', 'm:_ctrl'))
            else:
                mod.read_ctrl()
        elif kind == 'writeStruct':
            cur['wA'] = [op[2] if isinstance(op[2], str) else dict_in(op[2])]
            cur['wB'] = dict(zip(members, op[3]))
            if via == 'req':
                ok, exc = reply_outcome(node.request(conn, 'change', 'm:_ctrl', dict_in(op[1])))
            else:
                mod.write_ctrl(dict_in(op[1]))
        elif kind == 'readMember':
            cur['rA'] = [op[2] if is_fail(op[2]) else dict_in(op[2])]
            cur['rB'] = {op[1]: op[3]}
            if via == 'req':
                ok, exc = reply_outcome(node.request(conn, 'read', 'm:_' + prefix + op[1]))
            else:
                getattr(mod, 'read_' + prefix + op[1])()
        elif kind == 'writeMember':
            cur['wA'] = [op[3] if isinstance(op[3], str) else dict_in(op[3])]
            cur['rA'] = [op[4] if is_fail(op[4]) else dict_in(op[4])]
            cur['wB'] = {op[1]: op[5]}
            cur['rB'] = {op[1]: op[6]}
            if via == 'req':
                ok, exc = reply_outcome(node.request(conn, 'change', 'm:_' + prefix + op[1], op[2]))
            else:
                getattr(mod, 'write_' + prefix + op[1])(op[2])
        elif kind == 'assignStruct':
            mod.ctrl = dict_in(op[1])
            ok = mod.parameters['ctrl'].readerror is None
        elif kind == 'assignMember':
            setattr(mod, prefix + op[1], op[2])
            ok = mod.parameters[prefix + op[1]].readerror is None
        else:
            raise ValueError(kind)
    except Exception as e:
        ok, exc = False, EXC_NAMES.get(type(e).__name__)
    return ok, exc


def impl_struct(case):
    """run the history on the real code -> [obs after init, obs after op 1, ...]"""
    cur = {}
    case = struct_case(case)
    cls = build_struct_class(case, cur)
    node, conn = new_node({'m': {'cls': cls, 'description': 'x'}}, case.get('omit', False))
    mod = node.modules['m']
    trace = [struct_snapshot(mod, conn, case, True)]
    for op in case['ops']:
        ok, exc = struct_op(node, conn, mod, case, cur, op)
        trace.append(struct_snapshot(mod, conn, case, ok, exc))
    return trace


# ---- overlapping operations: several threads on one module, under the deterministic scheduler
class PerThread:
    """the script of the driver bodies, one per thread (a body runs in the thread that issued the operation)"""

    def __init__(self):
        self.scripts = {}

    def _cur(self):
        import threading
        return self.scripts.setdefault(threading.get_ident(), {})

    def get(self, key, default=None):
        return self._cur().get(key, default)

    def setdefault(self, key, value):
        return self._cur().setdefault(key, value)

    def __getitem__(self, key):
        return self._cur()[key]

    def __setitem__(self, key, value):
        self._cur()[key] = value

    def clear(self):
        self._cur().clear()


class LockLog:
    """proxy of a module lock: logs the outermost acquisitions and releases"""

    def __init__(self, inner, tag, log, tname):
        self.inner, self.tag, self.log, self.tname = inner, tag, log, tname

    def acquire(self, *args, **kwds):
        r = self.inner.acquire(*args, **kwds)
        if r and self.inner.depth == 1:
            self.log.append((self.tag + '+', self.tname()))
        return r

    def release(self):
        if self.inner.depth == 1:
            self.log.append((self.tag + '-', self.tname()))
        self.inner.release()

    __enter__ = acquire

    def __exit__(self, *exc):
        self.release()
        return False


def overlap_ops(case, log):
    """place the operations of the threads in the order the model takes them: -> (model operations, [(thread, index)] of the
    accesses in that order, None) or (None, None, why the run has no exact counterpart in the model).
    Driver-side assignments are one section under updateLock each.  An access holds accessLock; a generated read_/write_<struct>
    of the per-member layout becomes an overlapped operation: the assignments other threads completed before each of its own
    steps (its updateLock sections, its cache reads) go to that position.  Other accesses must have nobody inside."""
    members, hasR, hasW = case['members'], case['hasR'], case['hasW']
    progs = case['progs']
    tix = {f't{k}': k for k in range(len(progs))}
    cur = {}                 # thread -> (k, i) of its current operation
    pending = []             # assignments completed and not yet placed: wire form
    ops, order = [], []      # order: parallel to ops, (thread, index) of an access or None for an assignment
    inU = {}                 # thread -> inside an outermost updateLock section
    access = None            # the access in progress: dict
    started = set()

    def wire(op):
        return op[:-1]

    def is_assign(op):
        return op[0] in ('assignStruct', 'assignMember')

    def flush_seq():
        for a in pending:
            ops.append(['seq', a])
            order.append(None)
        pending.clear()

    def others_inside(t):
        return any(v for th, v in inU.items() if th != t)

    for ev in log:
        kind, t = ev[0], ev[1]
        if t == 'main':
            continue                      # the sequential tail
        if kind == 'op':
            cur[t] = (ev[2], ev[3])
            continue
        if kind == 'end':
            k = ev[2]
            # operations of this thread that took no lock at all change nothing: place them here
            for i in range(len(progs[k])):
                if (k, i) not in started:
                    started.add((k, i))
                    if access is not None:
                        return None, None, 'an operation without locks while an access is in progress'
                    flush_seq()
                    ops.append(['seq', wire(progs[k][i])])
                    order.append((k, i))
            continue
        k, i = cur[t]
        op = progs[k][i]
        if (k, i) not in started and kind in ('A+', 'U+'):
            # earlier operations of this thread that took no lock
            for i0 in range(i):
                if (k, i0) not in started:
                    started.add((k, i0))
                    if access is not None:
                        return None, None, 'an operation without locks while an access is in progress'
                    flush_seq()
                    ops.append(['seq', wire(progs[k][i0])])
                    order.append((k, i0))
            started.add((k, i))
        if is_assign(op):
            if kind == 'U+':
                inU[t] = True
            elif kind == 'U-':
                inU[t] = False
                pending.append(wire(op))
                if access is None:
                    flush_seq()
            continue
        # an access (holds accessLock)
        if kind == 'A+':
            flush_seq()
            structlevel = op[0] in ('readStruct', 'writeStruct')
            # a generated member method of the combined layout: several steps, what the others do goes to the step it precedes
            composite = case['combined'] and ((op[0] == 'readMember' and op[1] not in hasR) or (op[0] == 'writeMember' and op[1] not in hasW))
            access = {'t': t, 'ki': (k, i), 'op': op, 'overlapped': structlevel and not case['combined'], 'structlevel': structlevel,
                      'composite': composite, 'iv': [],
                      'before': [], 'seen': [], 'atEnd': [], 'afterRead': [], 'beforeErr': [], 'todo': list(members), 'phase': 'loop',
                      'sections': 0, 'inside': False}
            if access['overlapped'] and op[0] == 'writeStruct' and set(dict_in(op[1])) != set(members):
                access['phase'] = 'refused'
            continue
        if kind in ('get', 'getS') and (access is None or access['t'] != t):
            continue                      # a read of the cache outside any access changes nothing
        if access is None or access['t'] != t:
            return None, None, f'unexpected event {ev[:2]}'
        a = access
        if kind == 'A-':
            if a['overlapped']:
                ov = {'before': a['before'], 'seen': a['seen'], 'atEnd': a['atEnd'], 'afterRead': a['afterRead'], 'beforeErr': a['beforeErr']}
                ops.append([op[0] + 'O'] + wire(op)[1:] + [ov])
            elif a['composite']:
                if op[0] == 'readMember':
                    ops.append(['readMemberO', op[1], op[2], a['iv']])
                else:
                    ops.append(['writeMemberO', op[1], op[2], op[3], op[4], op[6], a['iv']])
            else:
                if a['inside']:
                    return None, None, 'an assignment of another thread inside an access the model treats as one step'
                ops.append(['seq', wire(op)])
            order.append(a['ki'])
            access = None
            flush_seq()
            continue
        if a['composite']:
            if kind == 'U-':
                inU[t] = False
            elif kind == 'U+' or not inU.get(t):
                # a step: an update, or a read of the cache outside updateLock
                if kind != 'U+' and others_inside(t):
                    return None, None, 'a cache read while another thread is in the middle of an update'
                a['iv'].append(list(pending))
                pending.clear()
                if kind == 'U+':
                    inU[t] = True
            continue
        if not a['overlapped']:
            if kind == 'U+':
                if pending and a['sections'] == 0:
                    # one update (an access to the whole struct in the combined layout, a member method written by the
                    # programmer, a plain wrapper): what the others did so far comes before it
                    flush_seq()
                elif pending:
                    a['inside'] = True
                a['sections'] += 1
                inU[t] = True
            elif kind == 'U-':
                inU[t] = False
            elif kind in ('get', 'getS') and (pending or others_inside(t)) and not inU.get(t):
                a['inside'] = True
            continue
        # a generated struct method of the per-member layout: follow its steps
        if kind == 'U-':
            inU[t] = False
            continue
        if kind in ('get', 'getS') and inU.get(t):
            continue                      # reads inside its own section (callbacks)
        if kind in ('get', 'getS') and others_inside(t):
            return None, None, 'a cache read while another thread is in the middle of an update'
        if kind == 'U+':
            inU[t] = True
        isread = op[0] == 'readStruct'
        if a['phase'] == 'loop':
            # the next member that has a step of this kind
            while a['todo']:
                m = a['todo'][0]
                has_section = (m in hasR) if isread else True
                if isread and not has_section:
                    if kind == 'get' and ev[2] == m:
                        a['todo'].pop(0)
                        a['before'].append([m, list(pending)])
                        a['seen'].append([m, ev[3]])
                        pending.clear()
                        break
                    return None, None, f'expected the cache read of {m}, got {ev}'
                outcome = (op[2] if isread else op[3])[members.index(m)]
                if not isread and m in hasW and is_fail(outcome):
                    a['todo'] = []       # the body of write_<m> raised: no update, the loop ends
                    a['before'].append([m, []])
                    a['phase'] = 'failed'
                    break
                if kind != 'U+':
                    if kind == 'getS':
                        break            # not a step of the loop (e.g. a callback reading the struct)
                    return None, None, f'expected the update of {m}, got {ev}'
                a['todo'].pop(0)
                a['before'].append([m, list(pending)])
                pending.clear()
                if is_fail(outcome) and (m in hasR if isread else m in hasW):
                    a['todo'] = []
                    a['phase'] = 'failed'
                break
            else:
                # all members treated: this is the update of the struct with the complete result
                if kind == 'U+':
                    a['atEnd'] += list(pending)
                    pending.clear()
                    a['phase'] = 'done'
                continue
            if a['phase'] == 'loop' or kind != 'getS':
                continue
        if a['phase'] == 'failed':
            if kind == 'getS':
                a['atEnd'] += list(pending)
                pending.clear()
                a['phase'] = 'merge'
            continue
        if a['phase'] == 'merge':
            if kind == 'U+':
                a['afterRead'] += list(pending)
                pending.clear()
                a['phase'] = 'err' if isread else 'done'
            continue
        if a['phase'] == 'err':
            if kind == 'U+':
                a['beforeErr'] += list(pending)
                pending.clear()
                a['phase'] = 'done'
            continue
    if access is not None:
        return None, None, 'an access did not finish'
    flush_seq()
    return ops, order, None


def impl_struct_conc(case, policy=None):
    """case['pre'] sequentially, then the threads case['progs'] under the scheduler (schedule: `policy`, default: replay of
    case['choices']), then case['ops'] sequentially.  -> (scheduler, trace, info); trace = the linked values at every
    QUIESCENT point: start, after each operation of `pre`, after all threads have finished, after each operation of `ops`.
    case['fine']: loads and stores of the guard counter of the struct parameter are yield points of their own."""
    import frappy.modulebase as mb
    import frappy.protocol.dispatcher as disp
    from frappy.extparams import StructParam
    from vlib.sched import Scheduler, ReplayThenDefault, YieldAttr, SchedAbort
    import contextlib
    s = Scheduler(policy=policy or ReplayThenDefault(case.get('choices') or []), max_steps=20000)
    cur = PerThread()
    with contextlib.ExitStack() as stack:
        stack.enter_context(s.patched(mb, threading=s.threading, mkthread=s.mkthread))
        stack.enter_context(s.patched(disp, threading=s.threading))
        guard = StructParam.__dict__.get('insideRW')
        if case.get('fine') and isinstance(guard, int):
            stack.enter_context(s.patched(StructParam, insideRW=YieldAttr(s, 'insideRW', guard)))
        cls = build_struct_class(case, cur)
        if len(_nodes) >= 50:
            cleanup_nodes()
        node = Node({'m': {'cls': cls, 'description': 'x'}}, omit_unchanged_within=OMIT_WINDOW if case.get('omit') else 0)
        _nodes.append(node)
        if node.errors:
            raise RuntimeError(f'node errors: {node.errors}')
        conn = node.connect(sched=s)
        node.request(conn, 'activate', None, None)
        conn.msgs.clear()
        mod = node.modules['m']
        trace = [struct_snapshot(mod, conn, case, True)]
        for op in case['pre']:
            ok, exc = struct_op(node, conn, mod, case, cur, op)
            trace.append(struct_snapshot(mod, conn, case, ok, exc))
        outcomes = [[] for _ in case['progs']]
        # the order of events the model needs to place the operations of the threads: who holds accessLock / updateLock
        # (outermost acquisitions), and what the reads of the cache outside updateLock see
        log = []

        def tname():
            me = s.me()
            return me.name if me is not None else 'main'
        mod.updateLock = LockLog(mod.updateLock, 'U', log, tname)
        mod.accessLock = LockLog(mod.accessLock, 'A', log, tname)
        prefix = case['prefix']
        for m in case['members']:
            if not case['combined'] and m not in case['hasR']:
                def logged_read(self, m=m, orig=getattr(type(mod), 'read_' + prefix + m)):
                    v = orig(self)
                    log.append(('get', tname(), m, num(v)))
                    return v
                setattr(type(mod), 'read_' + prefix + m, logged_read)
        from frappy.params import Parameter
        orig_get = Parameter.__get__

        def logged_get(self, instance, owner):
            if instance is mod and self.name == 'ctrl':
                log.append(('getS', tname()))
            return orig_get(self, instance, owner)
        stack.enter_context(s.patched(Parameter, __get__=logged_get))

        def body(k):
            for i, op in enumerate(case['progs'][k]):
                log.append(('op', tname(), k, i))
                outcomes[k].append(list(struct_op(node, conn, mod, case, cur, op)))
            log.append(('end', tname(), k))

        for k in range(len(case['progs'])):
            s.spawn(f't{k}', body, (k,))
        out = s.run(wall_timeout=20.0)
        s.current = None          # the rest runs in the harness thread again
        trace.append(struct_snapshot(mod, conn, case, all(o[0] for th in outcomes for o in th)))
        for op in case['ops']:
            ok, exc = struct_op(node, conn, mod, case, cur, op)
            trace.append(struct_snapshot(mod, conn, case, ok, exc))
    info = {'sched': {k: out[k] for k in ('deadlock', 'aborted', 'errors', 'alive')}, 'outcomes': outcomes, 'log': log,
            'choices': [c[1] for c in s.choices], 'preemptions': sum(1 for c in s.choices if c[1] != c[2]),
            'complete': all(len(o) == len(p) for o, p in zip(outcomes, case['progs']))}
    return s, trace, info


ROLES = {'poller': ('readStruct', 'readMember'), 'client': ('writeStruct', 'writeMember', 'readStruct', 'readMember'),
         'driver': ('assignStruct', 'assignMember'), 'structaccess': ('readStruct', 'writeStruct'), 'any': None}


def gen_struct_conc(rng, big):
    """a struct layout, a short sequential prefix, 2..3 threads with 1..2 operations each, a sequential tail.  The threads
    have the roles threads have in a running node: the poller (reads), a client connection (requests), the driver (updates
    arriving from the hardware or another module: driver-side assignments), or any mix"""
    base = gen_struct(rng, True, n=1)
    if base['combined'] and rng.random() < 0.5:      # the guard counter matters in the per-member layout: seven of ten programs
        base = dict(base, combined=False, hasRS=False, hasWS=False)
        base['hasR'] = [m for m in base['members'] if rng.random() < 0.7]
        base['hasW'] = [m for m in base['members'] if rng.random() < 0.7]
    pool = gen_struct(rng, True, layout=base, n=120)['ops']

    def draw(role):
        kinds = ROLES[role]
        for i, op in enumerate(pool):
            if kinds is None or op[0] in kinds:
                return pool.pop(i)
        return pool.pop()
    pre = [draw('any') for _ in range(rng.choice([0, 1, 1, 2]))]
    roles = rng.choice([['poller', 'driver'], ['client', 'driver'], ['client', 'driver'], ['poller', 'client', 'driver'],
                        ['driver', 'driver'], ['any', 'any'], ['any', 'any', 'any']])
    rng.shuffle(roles)
    progs = [[draw(role) for _ in range(rng.choice([1, 1, 2]))] for role in roles]
    if rng.random() < 0.4:
        # the basic overlap: one access to the whole struct while the driver updates it
        progs = [[draw('structaccess')], [draw('driver') for _ in range(rng.choice([1, 1, 2]))]]
        rng.shuffle(progs)
    tail = [draw('any') for _ in range(rng.randint(1, 4))]
    members = base['members']
    if rng.random() < 0.5:
        # a steady device: what the driver bodies return is mostly what the module holds already (a poll that finds nothing
        # new, a write that is echoed) - with omission of unchanged updates such accesses announce nothing
        v0 = {m: rng.choice([1, 2, 3, 5, 7]) for m in members}
        pre.append(['assignStruct', [[m, v0[m]] for m in members], 'drv'])

        def steady(op):
            if rng.random() < 0.25:
                return op
            op = list(op)
            if op[0] == 'readStruct':
                op[1], op[2] = [[m, v0[m]] for m in members], [v0[m] for m in members]
            elif op[0] == 'writeStruct':
                op[1], op[2], op[3] = [[m, v0[m]] for m in members], 'none', ['none' for m in members]
            elif op[0] == 'readMember':
                op[2], op[3] = [[m, v0[m]] for m in members], v0[op[1]]
            elif op[0] == 'writeMember':
                op[2], op[3], op[4], op[5], op[6] = v0[op[1]], 'none', [[m, v0[m]] for m in members], 'none', v0[op[1]]
            return op
        progs = [[steady(op) for op in prog] for prog in progs]
        tail = [steady(op) for op in tail]
    return dict(base, kind='structconc', pre=pre, progs=progs, ops=tail, omit=rng.random() < 0.5, fine=rng.random() < 0.5)


def gen_basic_overlap(rng):
    """one scenario of the catalogue of basic overlaps: ONE access (of the poller or a client) to the struct or to a member, on a
    device that is steady / has changed / fails at some member, while the driver assigns a member or the whole struct (the same
    value again or a new one); then every member is updated once more by the driver (a link that got lost shows there).
    Either may be thread 0, all single preemptions of which are explored (one operation inside the other)."""
    members = rng.choice([['p'], ['p', 'i'], ['p', 'i'], ['p', 'i', 'd']])
    combined = rng.random() < 0.3
    hasRS = hasWS = combined
    if combined and rng.random() < 0.3:
        hasRS, hasWS = rng.choice([(True, False), (False, True)])
    own = members if not combined else []
    if not combined and rng.random() < 0.3:
        own = [m for m in members if rng.random() < 0.6]
    v0 = {m: v for m, v in zip(members, rng.sample([1, 2, 3, 5, 7], len(members)))}
    new = {m: v for m, v in zip(members, rng.sample([10, 20, 30, 50, 70], len(members)))}

    def full(d):
        return [[m, d[m]] for m in members]
    device = rng.choice(['steady', 'steady', 'changed', 'fails'])
    seen = v0 if device == 'steady' else new
    k = rng.randrange(len(members))
    m = rng.choice(members)
    via = rng.choice(['req', 'call'])
    what = rng.choice(['readStruct', 'readStruct', 'writeStruct', 'writeStruct', 'readMember', 'writeMember'])
    if what == 'readStruct':
        rB = [seen[x] for x in members]
        if device == 'fails':
            rB[k] = fail_tag(rng)
        access = ['readStruct', fail_tag(rng) if device == 'fails' else full(seen), rB, via]
    elif what == 'writeStruct':
        wB = ['none' for _ in members]
        if device == 'fails':
            wB[k] = fail_tag(rng)
        access = ['writeStruct', full(seen), fail_tag(rng) if device == 'fails' else 'none', wB, via]
    elif what == 'readMember':
        access = ['readMember', m, fail_tag(rng) if device == 'fails' else full(seen), fail_tag(rng) if device == 'fails' else seen[m], via]
    else:
        access = ['writeMember', m, seen[m], fail_tag(rng) if device == 'fails' else 'none', full(seen), 'none', seen[m], via]
    m2 = rng.choice(members)
    other = {x: v + 100 for x, v in new.items()}
    driver = rng.choice([['assignMember', m2, other[m2], 'drv'], ['assignMember', m2, other[m2], 'drv'], ['assignMember', m2, v0[m2], 'drv'],
                         ['assignStruct', full(other), 'drv'], ['assignStruct', full(v0), 'drv']])
    tail = [['assignMember', x, 1000 + i, 'drv'] for i, x in enumerate(members)]
    return {'kind': 'structconc', 'members': members, 'prefix': rng.choice(['', 'pid_']), 'combined': combined, 'hasRS': hasRS,
            'hasWS': hasWS, 'hasR': list(own), 'hasW': list(own), 'pre': [['assignStruct', full(v0), 'drv']],
            'progs': rng.choice([[[access], [driver]], [[driver], [access]]]), 'ops': tail, 'omit': rng.random() < 0.5,
            'fine': rng.random() < 0.4, 'basic': True}


def sig_struct_conc(case, bad):
    layout = 'combined' if case['combined'] else 'permember'
    npre = len(case['pre'])
    if bad <= npre:
        return f'C18:struct:{layout}:' + (case['pre'][bad - 1][0] if bad else 'initial')
    # the conditions of the run belong to what fails: preemption only at lock/send primitives or also between load and
    # store of the guard counter; with or without omission of unchanged updates
    cond = ('guard-load-store' if case.get('fine') else 'lock-level') + ('+omit-unchanged' if case.get('omit') else '')
    if bad == npre + 1:
        return f'C18:struct:{layout}:overlapping-operations:{cond}'
    return f'C18:struct:{layout}:after-overlapping-operations:{cond}:' + case['ops'][bad - npre - 2][0]


def wire_struct(case, trace):
    case = struct_case(case)
    return {'p': 'C18', 'k': 'struct', 'members': case['members'], 'hasRS': case['hasRS'], 'hasWS': case['hasWS'],
            'hasR': case['hasR'], 'hasW': case['hasW'], 'omit': bool(case.get('omit')), 'sP0': trace[0]['sP'],
            'mP0': [m for m, p in zip(case['members'], trace[0]['mP']) if p], 'ops': [op[:-1] for op in case['ops']]}


def judge_struct_req(case, trace):
    """values and error states of every record.  'announced': a value update of the struct was sent during the operation;
    'flagged': the members in error state (or never announced) after it.  The record that joins the threads of an overlapping
    phase is not one operation: no claim about error states there"""
    members = case['members']
    joined = len(case['pre']) + 1 if case['kind'] == 'structconc' else None
    return {'p': 'C18', 'k': 'judge_struct', 'members': members,
            'trace': [[t['struct'], t['mem'],
                       {'ok': bool(t['ok']), 'announced': i != joined and any(e[0] == 'struct' for e in t['evs']),
                        'flagged': [m for m, p in zip(members, t['mP']) if p]}] for i, t in enumerate(trace)]}


def annotate(trace, answer):
    """the clause each rejected record breaks, as the Lean monitor reports it (for signature and report)"""
    for i, clause in answer.get('clauses', []):
        trace[i]['clause'] = clause


def gen_struct(rng, big, layout=None, n=None):
    """layout: take the layout of this case instead of drawing one; n: number of operations"""
    members = rng.choice([['p'], ['p', 'i'], ['p', 'i', 'd'], ['a', 'b', 'c', 'dd']])
    # which of read_<struct> / write_<struct> the programmer wrote: both, one of them (the other is the plain wrapper), neither
    hasRS, hasWS = rng.choice([(True, True)] * 7 + [(True, False)] * 2 + [(False, True)] * 2 + [(False, False)] * 9)
    combined = hasRS or hasWS
    prefix = rng.choice(['', 'pid_', 'x'])
    # programmer-written member methods: the rule in the per-member layout, the exception in the combined one
    pm = 0.7 if not combined else rng.choice([0, 0, 0.3])
    hasR = [m for m in members if rng.random() < pm]
    hasW = [m for m in members if rng.random() < pm]
    if layout is not None:
        members, prefix, combined, hasRS, hasWS, hasR, hasW = (layout[k] for k in ('members', 'prefix', 'combined', 'hasRS', 'hasWS', 'hasR', 'hasW'))

    def val():
        return rng.choice([0, 1, 2, 3, 5, 7, -1, -4, 9, 100])

    def full():
        return [[m, val()] for m in members]

    def rdict():
        r = rng.random()
        if r < 0.12:
            return fail_tag(rng)
        if r < 0.17 and len(members) > 1:       # malformed: a member is missing
            d = full()
            d.pop(rng.randrange(len(d)))
            return d
        return full()

    def wdict(v):
        r = rng.random()
        if r < 0.12:
            return fail_tag(rng)
        if r < 0.35:
            return 'none'
        if r < 0.75:
            return [list(e) for e in v]
        return full()

    def rval():
        return fail_tag(rng) if rng.random() < 0.15 else val()

    def wval(v):
        r = rng.random()
        if r < 0.15:
            return fail_tag(rng)
        if r < 0.4:
            return 'none'
        if r < 0.8:
            return v
        return val()

    n = n or rng.randint(1, 30 if big else 12)
    ops = []
    for _ in range(n):
        via = rng.choice(['req', 'call'])
        r = rng.random()
        if r < 0.17:
            ops.append(['readStruct', rdict(), [rval() for _ in members], via])
        elif r < 0.34:
            v = full()     # always complete: all members of a StructOf are optional by default, a partial struct is
            # merged with the previous value by the dispatcher and taken as it is by a direct call (not modelled)
            ops.append(['writeStruct', v, wdict(v), [wval(x) for _, x in full()], via])
            # per-member results default to an echo of the request
            if rng.random() < 0.6:
                req = dict_in(v)
                ops[-1][3] = [wval(req.get(m, 0)) for m in members]
        elif r < 0.5:
            ops.append(['readMember', rng.choice(members), rdict(), rval(), via])
        elif r < 0.68:
            m, v = rng.choice(members), val()
            ops.append(['writeMember', m, v, wdict(full()), rdict(), wval(v), rval(), via])
        elif r < 0.84:
            v = full()
            if rng.random() < 0.08 and len(members) > 1:
                v.pop(0)
            ops.append(['assignStruct', v, 'drv'])
        else:
            ops.append(['assignMember', rng.choice(members), val(), 'drv'])
    return {'kind': 'struct', 'members': members, 'prefix': prefix, 'combined': combined, 'hasRS': hasRS, 'hasWS': hasWS,
            'hasR': hasR, 'hasW': hasW, 'ops': ops}


def sig_struct(case, bad):
    layout = 'combined' if case['combined'] else 'permember'
    if bad == 0:
        return f'C18:struct:{layout}:initial'
    op = case['ops'][bad - 1]
    kind = op[0]
    if kind in ('readStruct', 'writeStruct') and not case['combined']:
        kind += '-member-failed'
    return f'C18:struct:{layout}:{kind}'


# ----------------------------------------------------------------------------------------
# float parameter bound to an enumerated index
# ----------------------------------------------------------------------------------------
def build_fe_class(case, cur):
    from frappy.core import Module
    from frappy.extparams import FloatEnumParam
    from frappy.errors import HardwareError
    labels = [tuple(e) if isinstance(e, list) else e for e in case['labels']]
    ns = {'x': FloatEnumParam('float enum', labels, case['unit'])}
    if case['hasR']:
        def read_x_idx(self):
            v = cur.get('r')
            if v is None or is_fail(v):
                raise_kind(v)
            return v
        ns['read_x_idx'] = read_x_idx
    if case['hasW']:
        def write_x_idx(self, value):
            cur['selected'] = int(value)
            w = cur.get('w')
            if w is None or is_fail(w):
                raise_kind(w)
            return None if w == 'none' else w
        ns['write_x_idx'] = write_x_idx
    return type('FEMod', (Module,), ns)


def fe_scale(case, vdict):
    """common denominator of all numbers of the case (binary64 values are dyadic rationals)"""
    nums = [v for _, v in vdict]
    for op in case['ops']:
        if op[0] in ('writeFloat', 'assignFloat'):
            nums.append(float(op[1]))
    den = 1
    for x in nums:
        d = Fraction(x).denominator
        if d > den:
            den = d
    return den


def impl_floatenum(case):
    """-> (vdict [[idx, float]], lo, hi, trace)"""
    cur = {}
    cls = build_fe_class(case, cur)
    node, conn = new_node({'m': {'cls': cls, 'description': 'x'}}, case.get('omit', False))
    mod = node.modules['m']
    pobj = mod.parameters['x']
    vdict = [[int(k), float(v)] for k, v in pobj.valuedict.items()]
    lo, hi = pobj.datatype.min, pobj.datatype.max

    def snapshot(ok, write=None, exc=None, assign=None):
        evs = []
        for par, val in updates(conn, 'm'):
            if par == '_x':
                evs.append(['value', float(val)])
            elif par == '_x_idx':
                evs.append(['idx', int(val)])
        # what a client reads: the reply of a `read` request is the cache entry
        return {'idx': int(mod.parameters['x_idx'].value), 'value': float(pobj.value),
                'idxErr': pending(mod.parameters['x_idx']), 'valErr': pending(pobj), 'evs': evs, 'ok': ok,
                'exc': exc, 'write': write, 'assign': assign, 'selected': cur.get('selected')}

    trace = [snapshot(True)]
    for op in case['ops']:
        kind, via = op[0], op[-1]
        cur.clear()
        ok, write, exc, assign = True, None, None, None
        try:
            if kind == 'writeFloat':
                write = float(op[1])
                cur['w'] = op[2]
                if via == 'req':
                    ok, exc = reply_outcome(node.request(conn, 'change', 'm:_x', op[1]))
                else:
                    mod.write_x(op[1])
                if ok and not case['hasW']:
                    cur['selected'] = int(mod.parameters['x_idx'].value)
            elif kind == 'writeIdx':
                cur['w'] = op[2]
                if via == 'req':
                    ok, exc = reply_outcome(node.request(conn, 'change', 'm:_x_idx', op[1]))
                else:
                    mod.write_x_idx(op[1])
            elif kind == 'readIdx':
                cur['r'] = op[1]
                if via == 'req':
                    ok, exc = reply_outcome(node.request(conn, 'read', 'm:_x_idx'))
                else:
                    mod.read_x_idx()
            elif kind == 'readFloat':
                if via == 'req':
                    ok, exc = reply_outcome(node.request(conn, 'read', 'm:_x'))
                else:
                    mod.read_x()
            elif kind == 'assignIdx':
                mod.x_idx = op[1]
                ok = mod.parameters['x_idx'].readerror is None
            elif kind == 'assignFloat':
                assign = float(op[1])
                mod.x = op[1]
                ok = pobj.readerror is None
            else:
                raise ValueError(kind)
        except Exception as e:
            ok, exc = False, EXC_NAMES.get(type(e).__name__)
        trace.append(snapshot(ok, write, exc, assign))
    return vdict, lo, hi, trace


def fe_requests(case, vdict, lo, hi, trace):
    den = fe_scale(case, vdict)

    def sc(x):
        f = Fraction(float(x)) * den
        assert f.denominator == 1
        return int(f)

    def wres(w):
        return w if isinstance(w, str) else int(w)
    ops = []
    for op in case['ops']:
        k = op[0]
        if k == 'writeFloat':
            ops.append([k, sc(op[1]), wres(op[2])])
        elif k == 'writeIdx':
            ops.append([k, int(op[1]), wres(op[2])])
        elif k == 'assignFloat':
            ops.append([k, sc(op[1])])
        else:
            ops.append(op[:-1])
    wvd = [[i, sc(v)] for i, v in vdict]
    model = {'p': 'C18', 'k': 'floatenum', 'vdict': wvd, 'lo': sc(lo), 'hi': sc(hi), 'hasR': case['hasR'],
             'hasW': case['hasW'], 'omit': bool(case.get('omit')), 'idx0': trace[0]['idx'], 'idxErr0': trace[0]['idxErr'],
             'valErr0': trace[0]['valErr'], 'ops': ops}
    jtrace = [{'write': None if t['write'] is None else sc(t['write']),
               'assign': None if t.get('assign') is None else sc(t['assign']), 'ok': t['ok'], 'selected': t['selected'],
               'idx': t['idx'], 'value': sc(t['value']) if Fraction(t['value']) * den % 1 == 0 else None}
              for t in trace]
    # a value that is not on the grid of the case cannot be a value of the valuedict: keep it visible as lo - 1
    for t in jtrace:
        if t['value'] is None:
            t['value'] = sc(lo) - 1
    judge = {'p': 'C18', 'k': 'judge_floatenum', 'vdict': wvd, 'trace': jtrace}
    canon = [{'idx': t['idx'], 'value': jt['value'], 'idxErr': t['idxErr'], 'valErr': t['valErr'],
              'evs': [[e[0], sc(e[1]) if e[0] == 'value' else e[1]] for e in t['evs']], 'ok': t['ok'], 'exc': t['exc']}
             for t, jt in zip(trace, jtrace)]
    return model, judge, canon


LABEL_SETS = [
    # (labels, unit, dyadic?)
    ([['a', 1.0], ['b', 0.25], ['c', 4.0]], '', True),
    ([[3, 'x', 2.0], ['y', -1.0], [0, 'z', 2.5], '7'], '', True),
    ([['only', 3.0]], '', True),
    ([['lo', -8.0], ['mid', -7.5], ['hi', -7.25], ['top', 16.0]], '', True),       # close values, negative
    ([['d', 5.0], ['c', 3.0], ['b', 1.0], ['a', -1.0]], '', True),                # descending: ties pick the larger
    ([['a', 1.0], ['b', 3.0], ['c', 5.0], ['d', 7.0]], '', True),
    ([[2, 'p', 0.5], [1, 'q', 0.5], [5, 'r', 2.0]], '', True),                     # two labels with the same value
    (['1', '2', '4', '8'], '', True),
    (['500uV', '20mV', '1V'], 'V', False),
    ([[1, '50uV'], '200 µV', '1mV', ['5mV', 0.006], [9, 'max', 0.024]], 'V', False),
    (['1m', '1mm', '1µm'], 'm', False),
]


def scaled_label_set(rng):
    """a label set in the '<number><prefix><unit>' form anywhere on the scale of SI prefixes the class knows (quecto .. quetta):
    the behaviour of the float/enum pair must not depend on the magnitude of the values (no absolute tolerances)"""
    from frappy.extparams import FloatEnumParam
    table = FloatEnumParam.PREFIXES
    prefixes = sorted((p for p in table if p != 'µ'), key=lambda p: table[p])
    unit = rng.choice(['A', 'V', 'W', 'Hz', 'T', 'Ohm'])
    start = rng.randrange(len(prefixes))
    window = prefixes[start:start + rng.randint(1, 3)]
    numbers = ['1', '2', '5', '10', '20', '50', '100', '200', '500', '2.5', '.5', '1.5']
    n = rng.randint(1, 6)
    labels = []
    while len(labels) < n:
        lab = rng.choice(numbers) + rng.choice(['', ' ']) + rng.choice(window) + unit
        if lab not in labels:
            labels.append(lab)
    if rng.random() < 0.6:       # usual: ascending (the values as the class itself derives them from the labels)
        try:
            vd = FloatEnumParam('g', labels, unit).valuedict
            labels = [lab for _, lab in sorted(enumerate(labels), key=lambda e: vd[e[0]])]
        except Exception:
            pass
    return labels, unit, False


def near_value(rng, v):
    """a float next to v: one ulp, a relative offset of 2^-k, an absolute offset of 10^-e"""
    import math
    s = rng.choice([-1, 1])
    r = rng.random()
    if r < 0.3:
        return math.nextafter(v, s * math.inf)
    if r < 0.7:
        return v * (1 + s * 2.0 ** -rng.choice([20, 30, 40, 50]))
    return v + s * 10.0 ** -rng.choice([6, 9, 10, 12, 15])


def gen_floatenum(rng, big):
    scaled = rng.random() < 0.3
    labels, unit, dyadic = scaled_label_set(rng) if scaled else rng.choice(LABEL_SETS)
    labels = json.loads(json.dumps(labels))
    hasR, hasW = rng.random() < 0.5, rng.random() < 0.6
    # the values, to draw requests from (a throw-away class: the generator may look, the verdict is Lean's)
    from frappy.extparams import FloatEnumParam
    try:
        p = FloatEnumParam('g', [tuple(e) if isinstance(e, list) else e for e in labels], unit)
    except Exception:
        # the tree under test refuses a label list of the catalogue: not a reason to stop - the labels stream shows it
        return {'kind': 'labels', 'labels': labels, 'unit': unit, 'ops': []}
    vd = dict(p.valuedict)
    vals = sorted(set(vd.values()))
    idxs = list(vd)
    lo, hi = vals[0], vals[-1]

    def near_tie(x):
        d = sorted(abs(Fraction(v) - Fraction(x)) for v in vals)
        return len(d) > 1 and d[1] != d[0] and (d[1] - d[0]) < Fraction(1, 10 ** 6) * max(d[1], Fraction(1, 10 ** 30))

    def xval(for_write=False):
        r = rng.random()
        if r < 0.15:
            return rng.choice(vals)
        if r < 0.3:
            # right next to an allowed value (float comparisons must be exact: equality and "closest").  For a client
            # write only inside the range: FloatRange.validate clamps values outside by less than the resolution (not modelled)
            x = near_value(rng, rng.choice(vals))
            if for_write and not lo <= x <= hi:
                return rng.choice(vals)
            return x
        if r < 0.45 and len(vals) > 1:
            i = rng.randrange(len(vals) - 1)
            a, b = vals[i], vals[i + 1]
            if dyadic:
                return rng.choice([(a + b) / 2, (a + b) / 2 + 0.125 * rng.choice([-1, 1]) * (b - a)])
            return a + (b - a) * rng.choice([0.25, 0.4, 0.6, 0.75])
        if r < 0.8:
            if dyadic:
                return lo + (hi - lo) * rng.randrange(0, 65) / 64
            return lo + (hi - lo) * rng.random()
        if r < 0.9:
            return rng.choice([lo - 1 - abs(lo), hi + 1 + abs(hi), hi + 3 + 2 * abs(hi), lo - 100.0 - abs(lo)])      # clearly outside, at every scale
        return rng.choice([lo, hi])

    def widx(i):
        r = rng.random()
        if r < 0.12:
            return fail_tag(rng)
        if r < 0.4:
            return 'none'
        if r < 0.8:
            return i
        return rng.choice(idxs)

    n = rng.randint(1, 30 if big else 12)
    ops = []
    with_assign_float = rng.random() < 0.7      # driver-side assignment to the float itself (repaired finding of round 1)
    for _ in range(n):
        via = rng.choice(['req', 'call'])
        r = rng.random()
        if r >= 0.9 and not with_assign_float:
            r = rng.random() * 0.9
        if r < 0.4:
            x = xval(True)
            while not dyadic and near_tie(x):
                x = xval(True)
            # the driver mostly takes the selected index over
            w = rng.choice(['none', 'none', 'none', fail_tag(rng), rng.choice(idxs)])
            ops.append(['writeFloat', x, w, via])
        elif r < 0.55:
            i = rng.choice(idxs + [max(idxs) + 1])
            ops.append(['writeIdx', i, widx(i), via])
        elif r < 0.68:
            ops.append(['readIdx', fail_tag(rng) if rng.random() < 0.15 else rng.choice(idxs + [max(idxs) + 2] * (rng.random() < 0.1)), via])
        elif r < 0.76:
            ops.append(['readFloat', via])
        elif r < 0.9:
            ops.append(['assignIdx', rng.choice(idxs + [max(idxs) + 1] * (rng.random() < 0.15)), 'drv'])
        else:
            x = xval()
            while not dyadic and near_tie(x):
                x = xval()
            ops.append(['assignFloat', x, 'drv'])
    return {'kind': 'floatenum', 'labels': labels, 'unit': unit, 'scaled': scaled, 'hasR': hasR, 'hasW': hasW, 'ops': ops}


# ---- the labels argument of FloatEnumParam (glue in front of the float/enum model: labels -> enum members, valuedict, range)
def label_value(label, unit):
    """the number the class itself derives from a label text (oracle of the model: decimal text -> float is Python's float())"""
    from frappy.extparams import FloatEnumParam
    from frappy.errors import ProgrammingError
    try:
        return float(FloatEnumParam('g', [label], unit).valuedict[0])
    except ProgrammingError:
        return None


def impl_labels(case):
    from frappy.extparams import FloatEnumParam
    labels = [tuple(e) if isinstance(e, list) else e for e in case['labels']]
    try:
        p = FloatEnumParam('g', labels, case['unit'])
    except Exception:
        return {'ok': False}
    return {'ok': True, 'edict': sorted([m.name, int(m.value)] for m in p.enumtype._enum.members),
            'vdict': [[int(k), float(v)] for k, v in p.valuedict.items()], 'lo': float(p.datatype.min), 'hi': float(p.datatype.max)}


def labels_requests(case, impl):
    """-> (model request, canonical impl observation): all numbers scaled to integers by their common denominator"""
    specs = []
    for e in case['labels']:
        if isinstance(e, str):
            idx, label, value = None, e, None
        elif isinstance(e[0], str):
            idx, label, value = None, e[0], (e[1] if len(e) > 1 else None)
        else:
            idx, label, value = e[0], e[1], (e[2] if len(e) > 2 else None)
        specs.append([idx, label, value, label_value(label, case['unit'])])
    nums = [x for sp in specs for x in sp[2:] if x is not None]
    den = 1
    for x in nums:
        den = max(den, Fraction(float(x)).denominator)

    def sc(x):
        f = Fraction(float(x)) * den
        assert f.denominator == 1
        return int(f)
    model = {'p': 'C18', 'k': 'labels', 'specs': [[i, lab, None if v is None else sc(v), None if d is None else sc(d)]
                                                  for i, lab, v, d in specs]}
    canon = dict(impl)
    if impl['ok']:
        canon = {'ok': True, 'edict': impl['edict'], 'vdict': [[i, sc(v)] for i, v in impl['vdict']], 'lo': sc(impl['lo']),
                 'hi': sc(impl['hi'])}
    return model, canon


def gen_labels(rng, big):
    """label lists in all forms the constructor accepts - bare labels, (label,), (label, value), (index, label),
    (index, label, value) - mostly valid; now and then an index or a label twice, a label that is no number, no labels at all"""
    unit = rng.choice(['', 'V', 'A', 'm'])
    n = rng.choice([0, 1, 2, 3, 3, 4, 5, 6]) if rng.random() < 0.1 else rng.randint(1, 6)
    texts = ['1', '2', '5', '10', '20', '0.5', '2.5', '-1', '100', '50']
    prefixes = ['', '', 'm', 'k', 'u', 'µ', 'n', 'M']
    words = ['lo', 'hi', 'mid', 'off', 'max']
    labels = []
    used_idx, nextidx = set(), 0
    for _ in range(n):
        numeric = rng.random() < 0.7
        label = (rng.choice(texts) + rng.choice(['', ' ']) + rng.choice(prefixes) + unit) if numeric else rng.choice(words)
        if rng.random() < 0.85:
            while any((lab if isinstance(lab, str) else lab[0] if isinstance(lab[0], str) else lab[1]) == label for lab in labels):
                label += "'"
        r = rng.random()
        with_value = rng.random() < (0.15 if numeric else 0.93)
        value = rng.choice([0.25, 0.5, 1.0, 1.5, 2.0, 3.0, 4.0, 8.0, -2.0, 0.0, 100.0, 1e-3, 5]) if with_value else None
        if r < 0.45:
            idx = None
        else:
            idx = rng.choice([nextidx, nextidx + 1, nextidx + rng.randint(2, 5), rng.randint(0, 8), rng.randint(-3, 8)])
            if rng.random() < 0.9:
                while idx in used_idx:
                    idx += 1
        eff = nextidx if idx is None else idx
        used_idx.add(eff)
        nextidx = eff + 1
        if idx is None and value is None:
            labels.append(label if rng.random() < 0.8 else [label])
        elif idx is None:
            labels.append([label, value])
        elif value is None:
            labels.append([idx, label])
        else:
            labels.append([idx, label, value])
    return {'kind': 'labels', 'labels': labels, 'unit': unit, 'ops': []}


def sig_floatenum(case, bad, trace):
    if bad == 0:
        return 'C18:floatenum:initial-value'
    op = case['ops'][bad - 1]
    if op[0] == 'assignFloat':
        return 'C18:floatenum:driver-assigns-float'
    if op[0] == 'writeFloat' and trace[bad]['ok']:
        return 'C18:floatenum:write-not-closest-or-inconsistent'
    return 'C18:floatenum:' + op[0]


# ----------------------------------------------------------------------------------------
# limit parameters
# ----------------------------------------------------------------------------------------
LSCALE = 4


def limits_case(case):
    """cases recorded before the class layout was part of a case (corpus): one class declaring everything, no check methods"""
    if 'layers' in case:
        return case
    ops = [[op[0], op[1], [], op[2], op[3]] if op[0] == 'write' else op for op in case['ops']]
    return dict(case, layers=[[case['has_min'], case['has_max'], case['has_limits'], False, False]], wlayer=0, ops=ops)


def limits_ro(case):
    """per class (MRO order): the readonly property its body gives <p> (None: nothing; the class declaring <p> always sets it)"""
    ro = list(case.get('ro') or [None] * len(case['layers']))
    ro[-1] = bool(ro[-1])
    return ro


def build_limits_class(case, cur):
    """the class hierarchy of the case.  case['layers'] = the classes in MRO order (most derived first), each
    [declares <p>_min, declares <p>_max, declares <p>_limits, defines check_<p>, is a plain mixin]; the last one declares <p>"""
    from frappy.core import FloatRange, IntRange, Module, Parameter, Writable
    from frappy.params import Limit
    p = case['pname']
    layers = case['layers']
    n = len(layers)
    ro = limits_ro(case)
    lo, hi = case['lo'] / LSCALE, case['hi'] / LSCALE
    dt = IntRange(int(lo), int(hi)) if case['int'] else FloatRange(lo, hi)

    def write_p(self, value):
        w = cur.get('w')
        if w is None or is_fail(w):
            raise_kind(w)
        return None if w == 'none' else w / LSCALE

    def make_check(i):
        def check(self, value):
            c = cur.get('c') or []
            out = c[i] if i < len(c) else 'pass'
            if out == 'stop':
                cur['stopAt'] = i
                return True
            if is_fail(out):
                raise_kind(out)
            return None
        return check

    def body(i):
        dmin, dmax, dlim, own, _ = layers[i]
        ns = {}
        if i == n - 1:
            ns[p] = Parameter('base', dt, readonly=bool(ro[i]), default=case['value0'] / LSCALE)
            if p == 'target':
                ns['value'] = Parameter('value', dt, default=case['value0'] / LSCALE)
        elif ro[i] is not None:
            ns[p] = Parameter(readonly=ro[i])      # a subclass overrides the property of the inherited parameter
        for post, decl in (('min', dmin), ('max', dmax), ('limits', dlim)):
            if decl:
                ns[f'{p}_{post}'] = Limit()
        if own:
            ns['check_' + p] = make_check(i)
        if case['hasW'] and i == case['wlayer']:
            ns['write_' + p] = write_p
        return ns

    cls = Writable if p == 'target' else Module
    pending = []      # plain mixins, combined by the next class towards the module class
    for i in reversed(range(n)):
        if layers[i][4]:
            pending.insert(0, type(f'LimMixin{i}', (), body(i)))
        else:
            cls = type(f'LimMod{i}', tuple(pending) + (cls,), body(i))
            pending = []
    assert not pending
    return cls


def impl_limits(case):
    cur = {}
    cls = build_limits_class(case, cur)
    p = case['pname']
    mcfg = {'cls': cls, 'description': 'x'}
    if case.get('ro_cfg') is not None:
        mcfg[p] = {'readonly': case['ro_cfg']}     # the configuration makes <p> writable (or readonly) for clients
    node, conn = new_node({'m': mcfg}, case.get('omit', False))
    mod = node.modules['m']

    def ex(n):      # exported name (predefined accessibles and their limits have no underscore)
        return mod.parameters[n].export if n in mod.parameters else '?' + n

    def sc(x):
        f = Fraction(float(x)) * LSCALE
        return int(f) if f.denominator == 1 else float(f)

    def limits():
        return {'min': sc(getattr(mod, p + '_min')) if case['has_min'] else None,
                'max': sc(getattr(mod, p + '_max')) if case['has_max'] else None,
                'limits': [sc(v) for v in getattr(mod, p + '_limits')] if case['has_limits'] else None}

    def snapshot(ok, before, rec, exc=None):
        evs = []
        for par, val in updates(conn, 'm'):
            if par == ex(p):
                evs.append(['value', sc(val)])
            elif par == ex(p + '_min'):
                evs.append(['min', sc(val)])
            elif par == ex(p + '_max'):
                evs.append(['max', sc(val)])
            elif par == ex(p + '_limits'):
                evs.append(['limits', sc(val[0]), sc(val[1])])
        errs = [pending(mod.parameters[n]) if n in mod.parameters else False
                for n in (p, p + '_min', p + '_max', p + '_limits')]
        return dict(rec, ok=ok, exc=exc, before=before, after=limits(), value=sc(getattr(mod, p)), evs=evs, errs=errs)

    norec = {'write': None, 'echo': False, 'setLimits': None, 'stopAt': None}
    trace = [snapshot(True, limits(), norec)]
    for op in case['ops']:
        kind, via = op[0], op[-1]
        cur.clear()
        before = limits()
        rec = dict(norec)
        ok, exc = True, None
        try:
            if kind == 'write':
                cur['c'] = op[2]
                cur['w'] = op[3]
                rec['write'] = op[1]
                rec['echo'] = (not case['hasW']) or op[3] == 'none' or op[3] == op[1]
                if via == 'req':
                    ok, exc = reply_outcome(node.request(conn, 'change', 'm:' + ex(p), op[1] / LSCALE))
                else:
                    getattr(mod, 'write_' + p)(op[1] / LSCALE)
            elif kind in ('writeMin', 'writeMax'):
                name = p + ('_min' if kind == 'writeMin' else '_max')
                if via == 'req':
                    ok, exc = reply_outcome(node.request(conn, 'change', 'm:' + ex(name), op[1] / LSCALE))
                else:
                    getattr(mod, 'write_' + name)(op[1] / LSCALE)
            elif kind == 'writeLimits':
                rec['setLimits'] = [op[1], op[2]]
                if via == 'req':
                    ok, exc = reply_outcome(node.request(conn, 'change', 'm:' + ex(p + '_limits'), [op[1] / LSCALE, op[2] / LSCALE]))
                else:
                    getattr(mod, 'write_' + p + '_limits')((op[1] / LSCALE, op[2] / LSCALE))
            elif kind == 'assign':
                setattr(mod, p, op[1] / LSCALE)
                ok = mod.parameters[p].readerror is None
            elif kind in ('assignMin', 'assignMax'):
                name = p + ('_min' if kind == 'assignMin' else '_max')
                setattr(mod, name, op[1] / LSCALE)
                ok = mod.parameters[name].readerror is None
            elif kind == 'assignLimits':
                setattr(mod, p + '_limits', (op[1] / LSCALE, op[2] / LSCALE))
                ok = mod.parameters[p + '_limits'].readerror is None
            else:
                raise ValueError(kind)
        except Exception as e:
            ok, exc = False, EXC_NAMES.get(type(e).__name__)
        rec['stopAt'] = cur.get('stopAt')      # observed: the check method at this MRO position returned True
        trace.append(snapshot(ok, before, rec, exc))
    return trace


def wire_layers(case):
    return [layer[:4] + [r] for layer, r in zip(case['layers'], limits_ro(case))]


def limits_numbers(case, trace):
    """every number of a limits case and of its trace (quarter units: value * LSCALE; integers on the coarse grid, binary64
    values next to a limit are not)"""
    nums = [case['lo'], case['hi'], case['value0']]
    for op in case['ops']:
        nums += [v for v in op[1:-1] if isinstance(v, (int, float)) and not isinstance(v, bool)]
    for t in trace:
        nums += [t['value'], t['write']] + (t['setLimits'] or [])
        for lim in (t['before'], t['after']):
            nums += [lim['min'], lim['max']] + (lim['limits'] or [])
        for e in t['evs']:
            nums += e[1:]
    return [x for x in nums if x is not None]


def limits_den(case, trace):
    """common denominator of all numbers of the case (binary64 values are dyadic rationals): the model and the monitor work on
    exact integers, whatever the distance between a value and a limit"""
    den = 1
    for x in limits_numbers(case, trace):
        den = max(den, Fraction(x).denominator)
    return den


def lsc(den, x):
    if x is None or isinstance(x, (str, bool)):
        return x
    if isinstance(x, list):
        return [lsc(den, v) for v in x]
    f = Fraction(x) * den
    assert f.denominator == 1, (x, den)
    return int(f)


def wire_limits(case, trace):
    den = limits_den(case, trace)
    ops = []
    for op in case['ops']:
        if op[0] == 'write':
            ops.append(['write', lsc(den, op[1]), op[2], lsc(den, op[3]), op[-1] == 'req'])
        else:
            ops.append([op[0]] + [lsc(den, v) for v in op[1:-1]])
    return {'p': 'C18', 'k': 'limits', 'lo': lsc(den, case['lo']), 'hi': lsc(den, case['hi']), 'layers': wire_layers(case),
            'hasW': case['hasW'], 'omit': bool(case.get('omit')), 'errs0': trace[0]['errs'], 'roCfg': case.get('ro_cfg'),
            'value0': lsc(den, case['value0']), 'ops': ops}


def scaled_limits(den, lim):
    return {'min': lsc(den, lim['min']), 'max': lsc(den, lim['max']), 'limits': lsc(den, lim['limits'])}


def judge_limits_req(case, trace):
    den = limits_den(case, trace)
    return {'p': 'C18', 'k': 'judge_limits', 'layers': wire_layers(case),
            'trace': [{'write': lsc(den, t['write']), 'stopAt': t['stopAt'], 'echo': t['echo'], 'setLimits': lsc(den, t['setLimits']),
                       'ok': t['ok'], 'before': scaled_limits(den, t['before']), 'after': scaled_limits(den, t['after']),
                       'value': lsc(den, t['value'])} for t in trace]}


def limits_canon(case, t, den=1):
    """observation compared with the model: the model carries all three limit parameters, the code only those that exist"""
    return {'value': lsc(den, t['value']), 'min': lsc(den, t['after']['min']), 'max': lsc(den, t['after']['max']),
            'limits': lsc(den, t['after']['limits']), 'errs': t['errs'], 'evs': [[e[0]] + lsc(den, e[1:]) for e in t['evs']],
            'ok': t['ok'], 'exc': t['exc']}


def model_limits_canon(case, s):
    return {'value': s['value'], 'min': s['min'] if case['has_min'] else None, 'max': s['max'] if case['has_max'] else None,
            'limits': s['limits'] if case['has_limits'] else None,
            'errs': [e and has for e, has in zip(s['errs'], (True, case['has_min'], case['has_max'], case['has_limits']))],
            'evs': s['evs'], 'ok': s['ok'], 'exc': s['exc']}


def gen_limits(rng, big):
    is_int = rng.random() < 0.3
    lo, hi = rng.choice([(-40, 40), (0, 400), (-20, 20), (0, 32), (-400, -40), (8, 8 + 4 * rng.randint(1, 10))])
    has = {'min': rng.random() < 0.5, 'max': rng.random() < 0.5, 'limits': rng.random() < 0.5}
    if not any(has.values()):
        has[rng.choice(list(has))] = True
    step = LSCALE if is_int else 1

    def inside():
        return rng.randrange(lo, hi + 1, step) if not is_int else LSCALE * rng.randint(lo // LSCALE, hi // LSCALE)

    # what the limit parameters hold if every operation generated so far was accepted (quarter units)
    refs = {'min': lo, 'max': hi, 'lim_lo': lo, 'lim_hi': hi}

    def near_limit():
        """a binary64 value right next to a limit (one ulp, a relative offset of 2^-k, an absolute offset of 10^-e, on either
        side): "outside its current limits" does not depend on how far outside.  Strictly inside the range of the datatype,
        where FloatRange.validate leaves a value as it is (its clamping band at the ends of the range is not modelled)."""
        ref = rng.choice([refs['min']] * has['min'] + [refs['max']] * has['max'] + [refs['lim_lo'], refs['lim_hi']] * has['limits'])
        x = near_value(rng, ref / LSCALE) * LSCALE if ref else rng.choice([-1, 1]) * LSCALE * 10.0 ** -rng.choice([6, 9, 10, 12, 15])
        return x if lo < x < hi else ref

    def anyval():
        r = rng.random()
        if not is_int and r < 0.14:
            return near_limit()
        if r < 0.7:
            return inside()
        if r < 0.8:
            return rng.choice([lo, hi])
        return rng.choice([lo - 4 * rng.randint(1, 5), hi + 4 * rng.randint(1, 5)])
    value0 = inside()
    pname = rng.choice(['target', 'a', 'ramp'])
    hasW = rng.random() < 0.6
    # the class layout: 1..4 classes in MRO order, the last one declares <p>; every limit parameter is declared in some class
    # (the class of <p>, a subclass, a plain mixin; now and then declared again further up), any class may define check_<p>
    ncls = rng.choice([1, 1, 2, 2, 3, 3, 4])
    layers = [[False, False, False, rng.random() < (0.15 if ncls == 1 else 0.3), 0 < i < ncls - 1 and rng.random() < 0.3]
              for i in range(ncls)]
    for k, post in enumerate(('min', 'max', 'limits')):
        if has[post]:
            layers[rng.randrange(ncls)][k] = True
            if rng.random() < 0.1:
                layers[rng.randrange(ncls)][k] = True
    wlayer = rng.choice([i for i in range(ncls) if not layers[i][4]])
    # who may write <p>: declared readonly in the class (then only the driver writes it: `self.write_<p>(x)`) unless the
    # configuration makes it writable for clients; now and then a subclass overrides the property, or the configuration
    # takes the access away.  The limits bind whoever writes.
    ro = [None] * ncls
    ro[-1] = rng.random() < 0.35
    for i in range(ncls - 1):
        if not layers[i][4] and rng.random() < 0.12:
            ro[i] = rng.random() < 0.5
    declared_ro = next(r for r in ro if r is not None)
    ro_cfg = None
    if declared_ro:
        if rng.random() < 0.55:
            ro_cfg = False
    elif rng.random() < 0.06:
        ro_cfg = True
    client_ok = not (declared_ro if ro_cfg is None else ro_cfg)

    def checks():
        return [rng.choice(['pass'] * 8 + [fail_tag(rng), 'stop']) if layer[3] else 'pass' for layer in layers]
    n = rng.randint(1, 30 if big else 12)
    ops = []
    for _ in range(n):
        via = rng.choice(['req', 'call'])
        r = rng.random()
        if r < 0.45:
            if not client_ok and rng.random() < 0.8:
                via = 'call'       # readonly for clients: mostly the driver writes
            x = anyval()
            w = rng.choice(['none', 'none', x, fail_tag(rng), inside()])
            ops.append(['write', x, checks(), w, via])
        elif r < 0.55 and has['min']:
            ops.append(['writeMin', anyval(), via])
            refs['min'] = ops[-1][1]
        elif r < 0.65 and has['max']:
            ops.append(['writeMax', anyval(), via])
            refs['max'] = ops[-1][1]
        elif r < 0.8 and has['limits']:
            a, b = anyval(), anyval()
            if rng.random() < 0.6 and a > b:
                a, b = b, a
            ops.append(['writeLimits', a, b, via])
            if a <= b:
                refs['lim_lo'], refs['lim_hi'] = a, b
        elif r < 0.86:
            ops.append(['assign', anyval(), 'drv'])
        elif r < 0.9 and has['min']:
            ops.append(['assignMin', anyval(), 'drv'])
            refs['min'] = ops[-1][1]
        elif r < 0.94 and has['max']:
            ops.append(['assignMax', anyval(), 'drv'])
            refs['max'] = ops[-1][1]
        elif has['limits']:
            a, b = anyval(), anyval()
            if rng.random() < 0.7 and a > b:
                a, b = b, a
            ops.append(['assignLimits', a, b, 'drv'])
            refs['lim_lo'], refs['lim_hi'] = a, b
        else:
            x = anyval()
            ops.append(['write', x, checks(), 'none', via])
    return {'kind': 'limits', 'int': is_int, 'lo': lo, 'hi': hi, 'pname': pname, 'has_min': has['min'], 'has_max': has['max'],
            'has_limits': has['limits'], 'layers': layers, 'wlayer': wlayer, 'hasW': hasW, 'value0': value0, 'ro': ro,
            'ro_cfg': ro_cfg, 'ops': ops}


def sig_limits(case, bad, trace):
    t = trace[bad]
    if t['setLimits'] is not None and t['setLimits'][1] < t['setLimits'][0]:
        return 'C18:limits:inverted-pair-accepted'
    if t['write'] is not None and t['ok']:
        x, b = t['write'], t['before']
        which = []
        if b['limits'] is not None and not b['limits'][0] <= x <= b['limits'][1]:
            which.append('limits')
        if b['min'] is not None and x < b['min']:
            which.append('min')
        if b['max'] is not None and x > b['max']:
            which.append('max')
        return 'C18:limits:accepted-outside-' + '+'.join(which or ['none'])
    return 'C18:limits:' + (case['ops'][bad - 1][0] if bad else 'initial')


# ----------------------------------------------------------------------------------------
# controllers of one output
# ----------------------------------------------------------------------------------------
def build_control_classes(case, cur=None):
    from frappy.core import FloatRange, Parameter, Writable, Drivable
    from frappy.mixins import HasControlledBy, HasOutputModule
    base = Drivable if case['drivable'] else Writable
    guarded = case['guarded']

    class Out(HasControlledBy, base):
        target = Parameter('t', FloatRange(), default=0)
        value = Parameter('v', FloatRange(), default=0)

        def write_target(self, value):
            self.self_controlled()
            return value

    class In(HasOutputModule, base):
        target = Parameter('t', FloatRange(), default=0)
        value = Parameter('v', FloatRange(), default=0)

        def set_control_active(self, active):
            """the driver's method "for switching hw control": scripted to raise before or after the module is marked"""
            fault = (cur or {}).get('faults', {}).pop((self.name, bool(active)), None)
            if fault and fault[0] == 'before':
                raise_kind(fault[1])
            super().set_control_active(active)
            if fault and fault[0] == 'after':
                raise_kind(fault[1])

        def write_target(self, value):
            if not (guarded and self.control_active):
                self.activate_control()
            return value

    return Out, In


def control_faults(op):
    """the scripted outcomes of the set_control_active calls during one operation: [[input, active, 'before' | 'after', exception], …]"""
    return op[-2] if len(op) >= 3 and isinstance(op[-2], list) else []


def control_plain(op):
    return op[:-2] if len(op) >= 3 and isinstance(op[-2], list) else op[:-1]


def impl_control(case):
    """several outputs in one node, input k attached to output case['outs'][k]"""
    cur = {}
    Out, In = build_control_classes(case, cur)
    outs_of = case['outs']
    n, nout = len(outs_of), case['nout']
    cfg = {}
    for o in range(nout):
        cfg[f'out{o}'] = {'cls': Out, 'description': 'x'}
    for k in range(n):
        cfg[f'in{k}'] = {'cls': In, 'description': 'x', 'output_module': f'out{outs_of[k]}'}
    node, conn = new_node(cfg, case.get('omit', False))
    outs = [node.modules[f'out{o}'] for o in range(nout)]
    ins = [node.modules[f'in{k}'] for k in range(n)]

    def cb_of(o, name):
        return None if name == 'self' else int(name[2:])

    def snapshot(ok):
        evs = []
        for msg in conn.msgs:
            if msg[0] != 'update':
                continue
            mod, par = msg[1].split(':')
            if mod.startswith('out') and par == 'controlled_by':
                o = int(mod[3:])
                # the update carries the enum value: translate through the output's own enum
                member = outs[o].parameters['controlled_by'].datatype(msg[2][0])
                evs.append(['cb', o, cb_of(o, member.name)])
            elif mod.startswith('in') and par == 'control_active':
                evs.append(['act', int(mod[2:]), bool(msg[2][0])])
        conn.msgs.clear()
        return {'cb': [cb_of(o, outs[o].controlled_by.name) for o in range(nout)],
                'act': [bool(m.control_active) for m in ins],
                'cbP': [pending(m.parameters['controlled_by']) for m in outs],
                'actP': [pending(m.parameters['control_active']) for m in ins], 'evs': evs, 'ok': ok}

    trace = [snapshot(True)]
    for op in case['ops']:
        kind, via = op[0], op[-1]
        ok = True
        cur['faults'] = {}
        for i, active, how, exc in control_faults(op):
            cur['faults'].setdefault((f'in{i}', bool(active)), (how, exc))     # the first entry for a call counts
        try:
            if kind == 'writeIn':
                if via == 'req':
                    ok = ok_reply(node.request(conn, 'change', f'in{op[1]}:target', 1.5))
                else:
                    ins[op[1]].write_target(1.5)
            elif kind == 'writeOut':
                if via == 'req':
                    ok = ok_reply(node.request(conn, 'change', f'out{op[1]}:target', 2.5))
                else:
                    outs[op[1]].write_target(2.5)
            elif kind == 'activate':
                ins[op[1]].activate_control()
            elif kind == 'deactivate':
                ins[op[1]].deactivate_control('harness')
            elif kind == 'selfControlled':
                outs[op[1]].self_controlled()
            elif kind == 'updateTarget':
                outs[op[1]].update_target(f'in{op[2]}', 3.5)
            else:
                raise ValueError(kind)
        except Exception:
            ok = False
        cur.clear()
        trace.append(snapshot(ok))
    return trace


def wire_control_ops(case):
    ops = []
    for op in case['ops']:
        plain = ['writeIn', op[1], case['guarded']] if op[0] == 'writeIn' else control_plain(op)
        ops.append({'op': plain, 'faults': [[i, bool(active), how] for i, active, how, _ in control_faults(op)]})
    return ops


def gen_control(rng, big):
    nout = rng.choice([1, 1, 2, 2, 3])
    # 0..3 inputs per output, at least one input in the node; the numbering of the inputs is shuffled over the outputs
    outs = []
    for o in range(nout):
        outs += [o] * rng.choice([0, 1, 1, 2, 2, 3])
    if not outs:
        outs = [rng.randrange(nout)]
    rng.shuffle(outs)
    n = len(outs)
    ops = []
    # 35 % of the histories with faults: the drivers' set_control_active ("to be overridden for switching hw control") raises
    # during some of the operations, before or after the module is marked.  `ctl` = who would control each output if nothing
    # failed: half of the faults are aimed at the previous controller of a take-over, the others fall anywhere
    faulty = rng.random() < 0.35
    ctl = [None] * nout

    def faults(op):
        if not faulty or rng.random() < 0.6:
            return []
        res = []
        o = outs[op[1]] if op[0] in ('writeIn', 'activate', 'deactivate') else op[1]
        if ctl[o] is not None and rng.random() < 0.5:
            res.append([ctl[o], False, rng.choice(['before', 'after']), fail_tag(rng)])
        while not res or rng.random() < 0.25:
            res.append([rng.randrange(n), rng.random() < 0.4, rng.choice(['before', 'after']), fail_tag(rng)])
        return [e for j, e in enumerate(res) if e[:2] not in [x[:2] for x in res[:j]]]

    for _ in range(rng.randint(1, 30 if big else 12)):
        via = rng.choice(['req', 'call'])
        r = rng.random()
        k = rng.randrange(n)
        o = rng.randrange(nout)
        if r < 0.4:
            op = ['writeIn', k]
        elif r < 0.55:
            op = ['writeOut', o]
        elif r < 0.7:
            op, via = ['activate', k], 'drv'
        elif r < 0.78:
            op, via = ['deactivate', k], 'drv'
        elif r < 0.88:
            op, via = ['selfControlled', o], 'drv'
        else:
            op, via = ['updateTarget', o, k], 'drv'
        ops.append(op + [faults(op), via])
        if op[0] in ('writeIn', 'activate'):
            ctl[outs[k]] = k
        elif op[0] in ('writeOut', 'selfControlled'):
            ctl[o] = None
    return {'kind': 'control', 'nout': nout, 'outs': outs, 'guarded': rng.random() < 0.6, 'drivable': rng.random() < 0.4,
            'ops': ops}


# ----------------------------------------------------------------------------------------
# one case: implementation run + the two driver requests + comparison
# ----------------------------------------------------------------------------------------
def prepare(case):
    """-> (impl trace, model request, judge request, impl observations for the comparison)"""
    kind = case['kind']
    if kind == 'struct':
        trace = impl_struct(case)
        return trace, wire_struct(case, trace), judge_struct_req(case, trace), trace
    if kind == 'structconc':
        _, trace, info = impl_struct_conc(case)
        return trace, conc_model_req(case, trace, info), judge_struct_req(case, trace), trace
    if kind == 'floatenum':
        vdict, lo, hi, trace = impl_floatenum(case)
        model, judge, canon = fe_requests(case, vdict, lo, hi, trace)
        return trace, model, judge, canon
    if kind == 'limits':
        case = limits_case(case)
        trace = impl_limits(case)
        den = limits_den(case, trace)
        return trace, wire_limits(case, trace), judge_limits_req(case, trace), [limits_canon(case, t, den) for t in trace]
    if kind == 'labels':
        impl = impl_labels(case)
        model, canon = labels_requests(case, impl)
        # nothing to judge: the statement is about histories on the constructed pair; `lo - 1` never belongs to the (empty) valuedict
        return [dict(impl, idx=0, value=0, write=None)], model, {'p': 'C18', 'k': 'judge_floatenum', 'vdict': [], 'trace': []}, [canon]
    if kind == 'control':
        trace = impl_control(case)
        ops = wire_control_ops(case)
        return trace, {'p': 'C18', 'k': 'control', 'nout': case['nout'], 'outs': case['outs'], 'omit': bool(case.get('omit')),
                       'cbP0': trace[0]['cbP'], 'actP0': trace[0]['actP'], 'ops': ops}, \
            {'p': 'C18', 'k': 'judge_control', 'nout': case['nout'], 'outs': case['outs'], 'ops': ops,
             'trace': [{'cb': t['cb'], 'act': t['act'], 'ok': t['ok']} for t in trace]}, trace
    raise ValueError(kind)


def model_obs(case, answer):
    if case['kind'] == 'labels':
        return [dict(answer, edict=sorted(answer['edict'])) if answer['ok'] else answer]
    states = [answer['init']] + answer['states']
    if case['kind'] == 'limits':
        return [model_limits_canon(case, s) for s in states]
    return states


def impl_obs(case, canon):
    kind = case['kind']
    if kind == 'struct':
        return [{k: t[k] for k in ('struct', 'mem', 'sP', 'mP', 'evs', 'ok', 'exc')} for t in canon]
    if kind == 'control':
        return [{k: t[k] for k in ('cb', 'act', 'cbP', 'actP', 'evs', 'ok')} for t in canon]
    return canon


def first_diff(a, b):
    for i, (x, y) in enumerate(zip(a, b)):
        if x != y:
            return i
    return None if len(a) == len(b) else min(len(a), len(b))


def conc_model_req(case, trace, info):
    """the model request for a run with overlapping operations; info['exact'] tells whether the run has an exact counterpart"""
    noop = {'p': 'C18', 'k': 'judge_struct', 'members': [], 'trace': []}
    sched = info['sched']
    if sched['deadlock'] or sched['aborted'] or sched['errors'] or sched['alive'] or not info['complete']:
        info['exact'], info['why'] = False, 'threads did not finish'
        return noop
    ops, order, why = overlap_ops(case, info['log'])
    info['exact'], info['why'], info['order'] = ops is not None, why, order
    if ops is None:
        return noop
    info['nconc'] = len(ops)
    info['noverlap'] = sum(1 for op in ops if op[0] in ('readStructO', 'writeStructO') and (
        any(b for _, b in op[-1]['before']) or op[-1]['atEnd'] or op[-1]['afterRead'] or op[-1]['beforeErr']))
    info['ncomposite'] = sum(1 for op in ops if op[0] in ('readMemberO', 'writeMemberO') and any(op[-1]))
    allops = [['seq', op[:-1]] for op in case['pre']] + ops + [['seq', op[:-1]] for op in case['ops']]
    return {'p': 'C18', 'k': 'struct_overlap', 'members': case['members'], 'hasRS': case['hasRS'], 'hasWS': case['hasWS'],
            'hasR': case['hasR'], 'hasW': case['hasW'], 'omit': bool(case.get('omit')), 'sP0': trace[0]['sP'],
            'mP0': [m for m, p in zip(case['members'], trace[0]['mP']) if p], 'ops': allops}


def conc_compare(case, trace, info, answer):
    """-> None or a disagreement: the model states at the quiescent points of the run against the implementation"""
    keys = ('struct', 'mem', 'sP', 'mP', 'evs', 'ok', 'exc')
    states = [answer['init']] + answer['states']
    npre, nconc = len(case['pre']), info['nconc']
    mo = states[:npre + 1]
    phase = states[npre + 1:npre + 1 + nconc]
    joined = dict(phase[-1]) if phase else dict(states[npre])
    joined['evs'] = [e for st in phase for e in st['evs']]
    mo.append(joined)
    mo += states[npre + 1 + nconc:]
    io = [{k: t[k] for k in keys} for t in trace]
    for i, (x, y) in enumerate(zip(mo, io)):
        ks = keys if i != npre + 1 else ('struct', 'mem', 'sP', 'mP', 'evs')
        if any(x[k] != y[k] for k in ks):
            return {'case': case, 'at': i, 'model': {k: x[k] for k in ks}, 'impl': {k: y[k] for k in ks}}
    # outcome of every access of the threads, in the order the model took them
    for owner, st in zip(info['order'], phase):
        if owner is not None and [st['ok'], st['exc']] != info['outcomes'][owner[0]][owner[1]]:
            return {'case': case, 'at': f'thread {owner[0]} operation {owner[1]}', 'model': [st['ok'], st['exc']],
                    'impl': info['outcomes'][owner[0]][owner[1]]}
    return None


def signature(case, bad, trace):
    kind = case['kind']
    if kind in ('struct', 'structconc'):
        sig = sig_struct(case, bad) if kind == 'struct' else sig_struct_conc(case, bad)
        return sig + (':member-left-in-error-state' if trace[bad].get('clause') == 'member-left-in-error-state' else '')
    if kind == 'floatenum':
        return sig_floatenum(case, bad, trace)
    if kind == 'limits':
        return sig_limits(case, bad, trace)
    if bad == 0:
        return 'C18:control:initial'
    return 'C18:control:' + case['ops'][bad - 1][0] + ('' if trace[bad]['ok'] else ':operation-failed-half-way')


def linked_values(case, t):
    """the linked parameter values of one record (what the property is about)"""
    kind = case['kind']
    if kind in ('struct', 'structconc'):
        return [t['struct'], t['mem']]
    if kind == 'floatenum':
        return [t['idx'], t['value']]
    if kind == 'limits':
        return [t['after'], t['value']]
    return [t['cb'], t['act']]


def new_bads(case, trace, bads):
    """the rejected records that are not a mere carry-over: record i is a carry-over when record i-1 was rejected
    too and operation i left all linked values as they were (reads, refused requests after an inconsistency)"""
    res = []
    for i in bads:
        if i > 0 and (i - 1) in bads and linked_values(case, trace[i]) == linked_values(case, trace[i - 1]) \
                and not (case['kind'] in ('floatenum', 'limits') and trace[i]['write'] is not None and trace[i]['ok']):
            continue
        res.append(i)
    return res


def judged_sigs(ctx, case):
    """{signature: first index} of the rejected records of a case, run on the real code"""
    trace, _, judge, _ = prepare(case)
    a = ctx.driver.batch([judge])[0]
    if 'driver_error' in a:
        raise RuntimeError(a['driver_error'])
    annotate(trace, a)
    res = {}
    for i in new_bads(case, trace, a['bads']):
        res.setdefault(signature(case, i, trace), i)
    return res, trace


def nontrivial(case, trace):
    kind = case['kind']
    oks = sum(1 for t in trace[1:] if t['ok'])
    fails = len(trace) - 1 - oks
    if kind == 'struct':
        return oks >= 2 and len({json.dumps(t['struct']) for t in trace}) >= 3
    if kind == 'floatenum':
        return len({t['idx'] for t in trace}) >= 2 and any(t['write'] is not None and t['ok'] for t in trace)
    if kind == 'labels':
        return trace[0]['ok'] and len(trace[0]['vdict']) >= 2 and any(not isinstance(e, str) for e in case['labels'])
    if kind == 'limits':
        acc = any(t['write'] is not None and t['ok'] for t in trace)
        rej = any(t['write'] is not None and not t['ok'] for t in trace)
        moved = len({json.dumps(t['after']) for t in trace}) >= 2
        return acc and rej and moved
    return len({json.dumps([t['cb'], t['act']]) for t in trace}) >= 3 and \
        (fails == 0 or any(control_faults(op) for op in case['ops']))


SAMPLES_PER_KIND = {'struct': 2, 'floatenum': 1, 'limits': 1, 'control': 2, 'labels': 1}
GENS = {'struct': gen_struct, 'floatenum': gen_floatenum, 'limits': gen_limits, 'control': gen_control, 'labels': gen_labels}


def constructible(case):
    """a float/enum case whose label list the tree under test refuses becomes a case of the labels stream"""
    if case['kind'] != 'floatenum':
        return case
    from frappy.extparams import FloatEnumParam
    try:
        FloatEnumParam('g', [tuple(e) if isinstance(e, list) else e for e in case['labels']], case['unit'])
        return case
    except Exception:
        return {'kind': 'labels', 'labels': case['labels'], 'unit': case['unit'], 'ops': []}


def run(ctx):
    res = Result()
    res.rule = ('generated modules x operation histories (depth <= 12 quick / 30 thorough), client requests through the real dispatcher '
                'and driver-side calls/assignments mixed.  non-trivial: struct - at least two accepted operations and three distinct '
                'struct values; floatenum - the index changed and a float write was accepted; limits - a write accepted, a write '
                'refused and a limit moved; control - at least three distinct (controlled_by, control_active) states; labels - an '
                'accepted label list with at least two values, not all bare labels.  40 % of the histories run with omission of '
                'unchanged updates (omit_unchanged_within = 10^6 s), the others with 0.  overlapping operations (struct): a run is '
                'non-trivial when the threads issue at least two kinds of operations, a preemption took place and the struct changed')
    big = ctx.tier == 'thorough' or ctx.escalated
    rng = ctx.rng
    cases = []
    cdir = os.path.join(ctx.verif, 'corpus', 'C18')
    if os.path.isdir(cdir):
        for fn in sorted(os.listdir(cdir)):
            with open(os.path.join(cdir, fn)) as f:
                cases.append(json.load(f)['case'])
    corpus_conc = [c for c in cases if c['kind'] == 'structconc']
    cases = [constructible(c) for c in cases if c['kind'] != 'structconc']
    ncorpus = len(cases)
    per = ctx.budget(500, 6250)
    for kind in ('struct', 'floatenum', 'limits', 'control'):
        for _ in range(per):
            case = GENS[kind](rng, big)
            if 'omit' not in case and case['kind'] != 'labels':
                case['omit'] = rng.random() < 0.4
            cases.append(case)
    for _ in range(per):       # glue in front of the float/enum model: correspondence only
        cases.append(gen_labels(rng, big))

    shrunk = {}
    chunk = 400
    # first: the scheduled runs are three times slower at the end of a long run (thousands of module classes later)
    _run_conc(ctx, res, corpus_conc, big)
    for start in range(0, len(cases), chunk):
        _run_chunk(ctx, res, cases[start:start + chunk], start, ncorpus, shrunk)
    return res


def _run_conc(ctx, res, corpus, big):
    """overlapping operations on a struct parameter: generated programs x schedules (no preemption, single preemptions,
    then random), every run judged by the Lean monitor at its quiescent points"""
    from vlib.sched import explore, RandomPolicy
    rng = ctx.rng
    nprog = ctx.budget(96, 900)
    per_basic, per_random = (44, 12) if not big else (60, 24)
    runs = []
    for case in corpus:
        _, trace, info = impl_struct_conc(case)
        runs.append((case, trace, info))
    for i in range(nprog):
        # half of the programs from the catalogue of basic overlaps (all single preemptions of the access), the others random
        basic = i % 2 == 0
        prog = gen_basic_overlap(rng) if basic else gen_struct_conc(rng, big)
        per_prog = per_basic if basic else per_random

        def make_run(policy, prog=prog):
            s, trace, info = impl_struct_conc(prog, policy)
            return s, (dict(prog, choices=info['choices']), trace, info)
        n = 0
        # every single preemption first (as far as the budget goes, in random order), then random schedules
        for _, _, ro in explore(make_run, max_preemptions=1, max_runs=(per_prog * 10) // 11 if basic else (per_prog * 3) // 4, rng=rng):
            runs.append(ro)
            n += 1
        while n < per_prog:
            runs.append(make_run(RandomPolicy(rng, rng.choice([0.2, 0.5, 0.8])))[1])
            n += 1
    reqs = []
    for case, trace, info in runs:
        reqs.append(conc_model_req(case, trace, info))
        reqs.append(judge_struct_req(case, trace))
    answers = ctx.driver.batch(reqs)
    reported = {}
    for j, (case, trace, info) in enumerate(runs):
        model, judge = answers[2 * j], answers[2 * j + 1]
        if 'driver_error' in judge or 'driver_error' in model:
            raise RuntimeError(f'driver error: {model.get("driver_error")} {judge.get("driver_error")} case={json.dumps(case)[:500]}')
        if info['exact']:
            res.count('structconc.compared-with-the-model')
            if info['noverlap']:
                res.count('structconc.compared-with-assignments-inside-a-struct-access')
            if info['ncomposite']:
                res.count('structconc.compared-with-assignments-inside-a-generated-member-method')
            if ctx.model_ok:
                d = conc_compare(case, trace, info, model)
                if d is not None and len(res.disagreements) < 20:
                    res.disagreements.append(d)
        elif info['why'] != 'threads did not finish':
            res.count('structconc.judged-only: ' + info['why'][:70])
        res.evaluations += 1
        res.traces += 1
        res.count('structconc.runs')
        res.count('structconc.catalogue-of-basic-overlaps' if case.get('basic') else 'structconc.random-programs')
        res.count(f'structconc.threads-{len(case["progs"])}')
        res.count('structconc.layout-' + ('combined' if case['combined'] else 'permember'))
        res.count('structconc.preemptions-%d' % min(3, info['preemptions']))
        if case.get('fine'):
            res.count('structconc.guard-load-store-yield-points')
        if case.get('omit'):
            res.count('structconc.omit-unchanged-updates')
        sched = info['sched']
        if sched['deadlock'] or sched['aborted'] or sched['errors'] or sched['alive'] or not info['complete']:
            # the threads must finish: anything else is reported like a disagreement with the model (where they always do)
            if len(res.disagreements) < 20:
                res.disagreements.append({'case': case, 'model': 'all threads finish', 'impl': sched})
            continue
        kinds = {op[0] for prog in case['progs'] for op in prog}
        if len(kinds) >= 2 and info['preemptions'] > 0 and len({json.dumps(t['struct']) for t in trace}) >= 2:
            res.nontriv({k: v for k, v in case.items() if k != 'ops'})
        annotate(trace, judge)
        for bad in new_bads(case, trace, judge['bads']):
            sig = signature(case, bad, trace)
            npre = len(case['pre'])
            small = dict(case, ops=case['ops'][:max(0, bad - npre - 1)])
            if reported.get(sig, 0) < 2:
                reported[sig] = reported.get(sig, 0) + 1
                what = (f'struct, overlapping operations ({"combined" if case["combined"] else "per-member"} layout, members '
                        f'{case["members"]}, own read_ {case["hasR"]}, own write_ {case["hasW"]}, omit unchanged: {bool(case.get("omit"))}, preemption '
                        f'{"also between load and store of the guard counter" if case.get("fine") else "at lock/send primitives"}): '
                        f'after {json.dumps(case["pre"])}, then the threads {json.dumps(case["progs"])} under schedule '
                        f'{info["choices"]}, then {json.dumps(small["ops"])} the recorded values are '
                        f'{json.dumps({k: v for k, v in trace[bad].items() if k != "evs"})}')
            else:
                what = 'struct, overlapping operations: see first occurrence'
            res.violations.append({'sig': sig, 'what': what, 'case': small, 'detail': {'first_bad_index': bad}})
            break


def prepare_limited(case):
    """prepare(case) under a wall-clock limit: a hang is a harness problem (exit 2), never a verdict"""
    import signal
    import sys
    old = signal.signal(signal.SIGALRM, _on_alarm)
    signal.setitimer(signal.ITIMER_REAL, CASE_LIMIT_S)
    try:
        return prepare(case)
    except CaseTimeout:
        print(f'harness: case did not finish within {CASE_LIMIT_S} s (hang): {json.dumps(case)[:600]}')
        sys.stdout.flush()
        sys.exit(2)
    finally:
        signal.setitimer(signal.ITIMER_REAL, 0)
        signal.signal(signal.SIGALRM, old)


def _run_chunk(ctx, res, cases, offset, ncorpus, shrunk):
    reqs, prepared = [], []
    for case in cases:
        trace, model, judge, canon = prepare_limited(case)
        prepared.append((case, trace, canon))
        reqs.append(model)
        reqs.append(judge)
    answers = ctx.driver.batch(reqs)
    for j0, (case, trace, canon) in enumerate(prepared):
        j = offset + j0
        model, judge = answers[2 * j0], answers[2 * j0 + 1]
        if 'driver_error' in model or 'driver_error' in judge:
            raise RuntimeError(f'driver error: {model.get("driver_error")} {judge.get("driver_error")} case={json.dumps(case)[:500]}')
        kind = case['kind']
        res.evaluations += 1
        res.traces += 1
        res.count(f'{kind}.cases')
        res.count(f'{kind}.ops', len(case['ops']))
        for t in trace[1:]:
            res.count(f'{kind}.op-ok' if t['ok'] else f'{kind}.op-refused')
        for op in case['ops']:
            res.count(f'{kind}.via-{op[-1]}')
        if kind == 'struct':
            sc_ = struct_case(case)
            res.count('struct.layout-' + {(True, True): 'combined', (True, False): 'only-read-struct', (False, True): 'only-write-struct',
                                          (False, False): 'permember'}[(sc_['hasRS'], sc_['hasWS'])])
            if sc_['combined'] and (sc_['hasR'] or sc_['hasW']):
                res.count('struct.combined-with-own-member-methods')
        if kind == 'floatenum':
            res.count('floatenum.labels-si-scaled' if case.get('scaled') else 'floatenum.labels-catalogue')
        if kind == 'labels':
            res.count('labels.accepted' if trace[0]['ok'] else 'labels.refused')
            res.count(f'labels.n-{len(case["labels"])}')
        if kind == 'control':
            if any(control_faults(op) for op in case['ops']):
                res.count('control.histories-with-failing-set_control_active')
            for op, t in zip(case['ops'], trace[1:]):
                if control_faults(op):
                    res.count('control.op-with-scripted-fault-' + ('returned' if t['ok'] else 'failed-half-way'))
        if kind == 'limits':
            lay = limits_case(case)['layers']
            res.count(f'limits.classes-{len(lay)}')
            res.count('limits.with-check-method' if any(x[3] for x in lay) else 'limits.no-check-method')
            if any(x[4] for x in lay):
                res.count('limits.with-mixin')
            ro_ = limits_ro(limits_case(case))
            declared = next(r for r in ro_ if r is not None)
            res.count('limits.declared-' + ('readonly' if declared else 'writable') + {None: '', False: '-cfg-makes-writable',
                                                                                      True: '-cfg-makes-readonly'}[case.get('ro_cfg')])
            if any(r is not None for r in ro_[:-1]):
                res.count('limits.readonly-overridden-in-subclass')
            for op, t in zip(case['ops'], trace[1:]):
                if op[0] == 'write' and declared:
                    res.count(f'limits.write-of-declared-readonly-via-{op[-1]}-' + ('accepted' if t['ok'] else 'refused'))
            for t in trace[1:]:
                if t['stopAt'] is not None:
                    res.count('limits.check-returned-true')
                if isinstance(t['write'], float):
                    res.count('limits.write-next-to-a-limit-' + ('accepted' if t['ok'] else 'refused'))
        if nontrivial(case, trace):
            res.nontriv(case)
        if len(res.samples) < 6 and j >= ncorpus and len(case['ops']) <= 5 and nontrivial(case, trace) \
                and sum(1 for s in res.samples if s['kind'] == kind) < SAMPLES_PER_KIND[kind]:
            res.samples.append({'kind': kind, 'case': case, 'observed': impl_obs(case, canon)})
        if case.get('omit'):
            res.count(f'{kind}.omit-unchanged-updates')
        # histories run with omission of unchanged updates are judged; compared with the model where the model covers it
        if ctx.model_ok and (not case.get('omit') or kind in OMIT_MODELLED):
            mo, io = model_obs(case, model), impl_obs(case, canon)
            d = first_diff(mo, io)
            if d is not None and len(res.disagreements) < 20:
                res.disagreements.append({'case': case, 'at': d, 'model': mo[d] if d < len(mo) else None,
                                          'impl': io[d] if d < len(io) else None})
        annotate(trace, judge)
        for bad in new_bads(case, trace, judge['bads']):
            sig = signature(case, bad, trace)
            if sig in {v['sig'] for v in res.violations if v['case'] is case}:
                continue
            if shrunk.get(sig, 0) < 2:
                shrunk[sig] = shrunk.get(sig, 0) + 1
                small = dict(case, ops=case['ops'][:bad])
                if bad > 1:
                    def fails(ops, case=case, sig=sig):
                        return sig in judged_sigs(ctx, dict(case, ops=ops))[0]
                    small = dict(case, ops=ddmin(case['ops'][:bad], fails, max_tests=60))
                sigs, strace = judged_sigs(ctx, small)
                if sig not in sigs:       # the shrinker must never lose the failure
                    small, strace, sbad = case, trace, bad
                else:
                    sbad = sigs[sig]
                layout = f' (all values x {LSCALE}; classes in MRO order, [min, max, limits declared, own check method, mixin]: ' \
                         f'{json.dumps(limits_case(small)["layers"])}, readonly set by the classes: {json.dumps(limits_ro(limits_case(small)))}, ' \
                         f'by the configuration: {json.dumps(small.get("ro_cfg"))})' if kind == 'limits' else ''
                what = f'{kind}{layout}: after {json.dumps(small["ops"][:sbad])} the recorded values are ' \
                       f'{json.dumps({k: v for k, v in strace[sbad].items() if k != "evs"})}'
                res.violations.append({'sig': sig, 'what': what, 'case': small,
                                       'detail': {'first_bad_index': sbad, 'original_ops': case['ops']}})
            else:
                res.violations.append({'sig': sig, 'what': f'{kind}: see first occurrence', 'case': case,
                                       'detail': {'first_bad_index': bad}})


def replay(ctx, rp):
    case = rp['case']
    trace, model, judge, canon = prepare(case)
    a = ctx.driver.batch([model, judge])
    mo, io = model_obs(case, a[0]) if 'init' in a[0] else a[0], impl_obs(case, canon)
    print('case  :', json.dumps({k: v for k, v in case.items() if k != 'ops'}))
    labels = ['(initial state)'] + [json.dumps(op) for op in case['ops']]
    if case['kind'] == 'structconc':
        labels = ['(initial state)'] + [json.dumps(op) for op in case['pre']] + \
                 [f'threads {json.dumps(case["progs"])} under schedule {case.get("choices")}'] + [json.dumps(op) for op in case['ops']]
    for i in range(len(io)):
        print(f'  [{i}] op    :', labels[i])
        print('       impl  :', json.dumps(io[i]))
        print('       model :', json.dumps(mo[i]) if isinstance(mo, list) and i < len(mo) else mo)
    print('judge :', a[1])
    annotate(trace, a[1])
    bads = new_bads(case, trace, a[1].get('bads', []))
    for i in bads:
        print(f'rejected record [{i}]:', signature(case, i, trace))
    return 0 if not bads else 1
