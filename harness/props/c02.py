"""C02 — Valid values survive the wire encoding and the text encoding unchanged."""
import ast
import base64
import json
import math
import os

from check import Result
from vlib import dtcodec, gen
from vlib.dtcodec import f2bits
from vlib.lean import batch_nl

META = {
    'level_text': 'Theorems for every float carrier with the laws of Spec.C02.WireLaws, every well-formed datatype tree of any depth '
                  '(structs included) and every valid value of it (in the declared value set of Spec.C01, every scaled leaf reproduced '
                  'by the grid): export_kind (export_value yields strict JSON of the prescribed kind at every position), '
                  'wire_roundtrip_node (import_value of the exported value is Python-equal to the value), wire_roundtrip_exact (a '
                  'canonical value comes back as the very same value), wire_roundtrip_text (the same through any dumps/loads pair '
                  'with loads(dumps j) = j), wire_roundtrip_client (the same on the datatype rebuilt from the description: clientOf, '
                  'whose import_value and export_value are proved identical), text_roundtrip / text_roundtrip_client (from_string '
                  'accepts to_string, the result has the identical text form and equals the value at every non-float leaf; all '
                  'trees: one-member tuples print as (x,), struct members in the order of the value, enum names with outer blanks), '
                  'client_string_write (for every valid canonical value in the client\'s cache: str(CacheItem) is accepted by '
                  'from_string, and what setParameterFromString sends is strict JSON of the kind the node\'s type prescribes which '
                  'the node imports to a value equal to the one the text was read as — also when a re-read float left the limits), '
                  'client_cache_string_write (the whole path: node export -> updateValue -> cache entry holding exactly v -> '
                  'str -> setParameterFromString -> node import; under the grid law at the scaled limits, LimitsOnGrid), '
                  'client_command_roundtrip (execCommand: the argument the client exports with the rebuilt argument type is strict '
                  'JSON of the kind the node\'s type prescribes and is imported by the node as the very value; the result of a '
                  'command answering its argument comes back to the caller as the very value). The base64 law is proved for the '
                  'model\'s encoder / strict decoder (base64_roundtrip), it is no hypothesis of the theorems any more. '
                  'The models of export_value / format_value / to_string / from_string / CacheItem / updateValue / setParameter / '
                  'setParameterFromString are tied to frappy/datatypes.py and frappy/client/__init__.py by a correspondence run on '
                  'the real classes (json.dumps with the settings of encode_msg_frame, json.loads, a SecopClient whose tables are '
                  'built by the real _init_descriptive_data (get_datatype) and whose request() records the line and, for a do '
                  'request, plays the node\'s part of a command answering its argument), and the Lean monitors (kindOKB, strictB, '
                  'pyEq, sameButFloatsB, textEq) judge every output of the implementation. Values include maximal containers, long '
                  'strings / blobs / enum names (text forms and JSON lines up to > 100 000 characters) and string contents from every '
                  'class of Unicode characters a text layer may treat specially (normalization forms, case mappings, separators, '
                  'format / private-use / unassigned code points, combining sequences), also as struct member names.',
    'level_note': 'Trusted: Lean kernel + axioms propext/Classical.choice/Quot.sound; the laws of WireLaws for binary64 (proved for the '
                  'exact carrier Rat); one law per library leaf (TextLib.Lawful, JsonText.loads_dumps), each tested on every '
                  'leaf drawn (the wire law on the real encode_msg_frame / decode_msg pair, value by value: types, float bits, code '
                  'points, member order); TextLib.Lawful is satisfied by a concrete library over Rat (Lemmas/TextLibRat.lean), so '
                  'is JsonText.loads_dumps (exJsonText, Lemmas/JsonTextRat.lean: a prefix-free code and its inverse); that the model\'s Base64.encode / decode? agree with CPython\'s base64 '
                  'is tested per blob, their round trip is proved; the float format laws speak '
                  'of the library and float arithmetic only (FloatRange.__call__ / ScaledInteger.__call__ are proved from the model); '
                  'the printing/parsing of brackets and commas (ast.parse) is not modelled — texts are compared as syntax trees.',
    'trusted': [
        'binary64 satisfies Spec.C02.WireLaws (x+0.0 compares like x, x*y = y*x, x <= x, -max <= max, float(i) exists for '
        '|i| <= 2^64, order laws); proved for Rat, re-tested on the doubles drawn',
        'grid law at every scaled leaf (part of Valid: round(x/scale)*scale == x); leaves where it fails (|k|*ulp >= 1/2) are probed by '
        'the generator and counted as outside the quantifier; the same law at the snapped limits (LimitsOnGrid, decided per case)',
        "library leaves, one law each, tested on every leaf drawn: fmtstr % clamp(literal_eval(fmtstr % x) + 0.0) == fmtstr % x for a "
        "finite x that is not -0.0 (TextLib.Lawful.fmtDouble), for a grid value x of a scaled leaf fmtstr % y == fmtstr % x where y = "
        "round(literal_eval(fmtstr % x) / scale) * scale, and y is again reproduced by the grid (fmtScaled); the instances where "
        "this fails ('%.1f' % -0.04 == '-0.0' reads back as 0.0 which prints '0.0'; scaled leaves with a grid finer than the double "
        "spacing) are decided per case in Lean (fmtLawB) and counted, not judged; ast.literal_eval(repr(s)) == s for str, bytes, "
        'int, bool; json.loads(json.dumps(j)) == j for strict j through encode_msg_frame / decode_msg (JsonText.loads_dumps: '
        'tested on every line of every case, incl. strings that are not stable under the Unicode normalization forms); the '
        'model\'s base64 functions are CPython\'s (tested per blob leaf; their round trip is proved, Lemmas/Base64RT.lean)',
        'ast.parse as the reader of bracket structure: the observation compares syntax trees, (x) vs (x,) is decided by ast',
        'FrappyDrive/C02.lean: the tagged-token TextLib instance and the fmt read-back table sent by the harness (a float text is '
        'identified with the float it reads back as)',
    ],
    'modelled_not_verified': [
        "CPython '%' formatting, repr(), ast.literal_eval, str.strip, base64, json.dumps/json.loads, float arithmetic",
        'frappy.lib.enum.Enum (dict keyed by names and values)',
        'frappy.properties.HasProperties.exportProperties / get_datatype beyond what values can see (clientOf; the full '
        'description round trip is C03)',
        'SecopClient queueing/threads: request() is replaced by a recorder that calls the real encode_msg_frame (and '
        'decode_msg, import_value, export_value for the node\'s part of a do request); Command.do / Dispatcher._execute_command '
        'themselves are not run',
        'CacheItem.formatted() (the display form with unit, not meant to be read back) is not observed',
    ],
    'assumptions': ['generalConfig.lazy_number_validation is False (default)',
                    'values are canonical (what validation returns): no -0.0 leaf for the text clauses',
                    'fmtstr follows the SECoP syntax %.<n>(e|f|g) or is frappy\'s default %g, and the format law holds at the float '
                    'leaves of the value (fails for negative values that print as -0.0 under %.<n>f)',
                    'node-side from_string (which converts with __call__) is offered structs with all members; the client side '
                    '(client = True) takes structs without their optional members'],
}

FMTS = ['%g', '%g', '%g', '%.6g', '%.3f', '%.15g', '%.2e', '%.1f', '%.0f', '%.17g', '%.10e']


# ---------------------------------------------------------------------------------------------
# the real objects
# ---------------------------------------------------------------------------------------------
def leaf_paths(tree, pos=()):
    """positions of the leaves of a tree (array elements share position 0)"""
    t = tree['t']
    if t == 'array':
        yield from leaf_paths(tree['elem'], pos + (0,))
    elif t == 'tuple':
        for i, e in enumerate(tree['elems']):
            yield from leaf_paths(e, pos + (i,))
    elif t == 'struct':
        for i, (_, m) in enumerate(tree['members']):
            yield from leaf_paths(m, pos + (i,))
    else:
        yield pos, tree


def pos_key(pos):
    return '.'.join(str(i) for i in pos)


def sub_dt(dt, pos):
    for i in pos:
        if hasattr(dt, 'members') and isinstance(dt.members, dict):
            dt = list(dt.members.values())[i]
        elif isinstance(dt.members, tuple):
            dt = dt.members[i]
        else:
            dt = dt.members
    return dt


def variant_dt(tree, cls, pos=()):
    """the datatype of the tree, built with the convenience classes of frappy.datatypes where the case names one for a
    position (`cls`): TextType for a string, LimitsType for a tuple of two equal numeric members, StatusType for a tuple
    (enum, string) - values, exported forms and text forms of these are those of their base classes (the model's)"""
    from frappy.datatypes import ArrayOf, TupleOf, StructOf, TextType, LimitsType, StatusType
    from frappy.lib.enum import Enum
    t = tree['t']
    c = cls.get(pos_key(pos))
    if t == 'string' and c == 'text':
        return TextType(tree['max'])
    if t == 'tuple' and c == 'limits':
        return LimitsType(variant_dt(tree['elems'][0], cls, pos + (0,)))
    if t == 'tuple' and c == 'status':
        return StatusType(Enum('Status', **{k: v for k, v in tree['elems'][0]['members']}))
    if t == 'array':
        return ArrayOf(variant_dt(tree['elem'], cls, pos + (0,)), tree['min'], tree['max'])
    if t == 'tuple':
        return TupleOf(*[variant_dt(e, cls, pos + (i,)) for i, e in enumerate(tree['elems'])])
    if t == 'struct':
        dt = StructOf(optional=list(tree['optional']), **{k: variant_dt(m, cls, pos + (i,)) for i, (k, m) in enumerate(tree['members'])})
        if tree.get('client'):
            dt.client = True
        return dt
    return dtcodec.tree_to_dt(tree)


def gen_variants(rng, tree, pos=()):
    """positions of the tree where a convenience class of frappy.datatypes fits, each taken with probability 1/2"""
    t = tree['t']
    out = {}
    if t == 'string' and tree['min'] == 0 and not tree['utf8']:
        if rng.random() < 0.5:
            out[pos_key(pos)] = 'text'
    elif t == 'tuple':
        es = tree['elems']
        if len(es) == 2 and es[0] == es[1] and es[0]['t'] in ('double', 'int', 'scaled') and rng.random() < 0.5:
            out[pos_key(pos)] = 'limits'
            out.update(gen_variants(rng, es[0], pos + (0,)))
        elif len(es) == 2 and es[0]['t'] == 'enum' and es[1] == {'t': 'string', 'min': 0, 'max': gen.UNLIMITED, 'utf8': False} \
                and all(n.isidentifier() for n, _ in es[0]['members']) and rng.random() < 0.5:
            out[pos_key(pos)] = 'status'
        else:
            for i, e in enumerate(es):
                out.update(gen_variants(rng, e, pos + (i,)))
    elif t == 'array':
        out.update(gen_variants(rng, tree['elem'], pos + (0,)))
    elif t == 'struct':
        for i, (_, m) in enumerate(tree['members']):
            out.update(gen_variants(rng, m, pos + (i,)))
    return out


def build_dt(tree, fmts, units=None, cls=None):
    """real datatype from the tree, with the format strings (and units) of the case set on its float leaves"""
    dt = variant_dt(tree, cls) if cls else dtcodec.tree_to_dt(tree)
    if cls and dt.export_datatype() != dtcodec.tree_to_dt(tree).export_datatype():
        raise RuntimeError('variant classes changed the description: %r' % (cls,))
    for pos, leaf in leaf_paths(tree):
        f = fmts.get(pos_key(pos))
        if f and leaf['t'] in ('double', 'scaled'):
            sub_dt(dt, pos).set_properties(fmtstr=f)
        u = (units or {}).get(pos_key(pos))
        if u and leaf['t'] in ('double', 'scaled'):
            sub_dt(dt, pos).set_properties(unit=u)
    return dt


def rebuild(dt):
    """the client's datatype: get_datatype of the JSON round trip of the description"""
    from frappy.datatypes import get_datatype
    return get_datatype(json.loads(json.dumps(dt.export_datatype())), 'p')


def describe_node(dt):
    """what a `describe` request would answer for a node with one module `m` holding one custom parameter `_par` of this
    datatype (the structure `SecNode.get_descriptive_data` produces), after its JSON round trip"""
    return json.loads(json.dumps({
        'modules': {'m': {'accessibles': {'_par': {'datainfo': dt.export_datatype(), 'description': 'p', 'readonly': False},
                                          '_cmd': {'datainfo': {'type': 'command', 'argument': dt.export_datatype(),
                                                                'result': dt.export_datatype()}, 'description': 'c'}},
                          'description': 'm', 'interface_classes': ['Writable'], 'features': []}},
        'equipment_id': 'c02', 'firmware': 'x', 'description': 'x'}))


class Recorder:
    """a SecopClient whose connection is a recorder: request() encodes the frame with the real encode_msg_frame.
    Given the node's datatype, the client's tables (modules, identifier, internal names, the rebuilt datatype) are built by
    the real `_init_descriptive_data` from the description"""

    def __init__(self, cdt=None, dt=None):
        from frappy.client import SecopClient, NullLogger
        from frappy.protocol.interface import encode_msg_frame

        from frappy.protocol.interface import decode_msg
        from frappy.errors import make_secop_error
        sent = self.sent = []
        node_args = self.node_args = []

        class Client(SecopClient):
            def connect(self, try_period=0):
                pass

            def disconnect(self, shutdown=True):
                pass

            def request(self, action, ident=None, data=None):
                frame = encode_msg_frame(action, ident, data)
                sent.append(frame)
                if action == 'do':
                    # the node's part of a command that answers its argument: Command.do imports the transported
                    # argument, Dispatcher._execute_command exports the result; the reply travels as a line
                    arg = decode_msg(frame)[2]
                    try:
                        a = dt.import_value(arg)
                    except Exception as e:
                        node_args.append(e)
                        raise make_secop_error(getattr(e, 'name', 'InternalError'), str(e)) from None
                    node_args.append(a)
                    return decode_msg(encode_msg_frame('done', ident, [dt.export_value(a), {}]))
                return ('changed', ident, [data, {}])

        c = self.client = Client('recorder', NullLogger)
        if dt is not None:
            c._init_descriptive_data(describe_node(dt))
            self.cdt = c.modules['m']['parameters']['par']['datatype']
            self.ident = c.identifier['m', 'par']
        else:
            c.modules = {'m': {'accessibles': {}, 'parameters': {'par': {'datatype': cdt}}, 'commands': {}, 'properties': {}}}
            c.identifier = {('m', 'par'): 'm:_par'}
            c.internal = {'m:_par': ('m', 'par')}
            self.cdt = cdt
            self.ident = 'm:_par'


def _out(f, enc):
    from frappy.errors import RangeError, WrongTypeError
    try:
        r = f()
    except (RangeError, WrongTypeError):
        return {'err': 'bad'}, None
    except Exception as e:
        return {'err': type(e).__name__}, None
    try:
        return {'ok': enc(r)}, r
    except Exception as e:
        return {'err': 'unencodable:' + type(e).__name__}, None


def enc_json(j):
    if not dtcodec.is_json_value(j):
        raise TypeError('not a JSON value')
    return dtcodec.py_to_json(j)


# ---------------------------------------------------------------------------------------------
# texts -> syntax trees (the observation; float atoms = bits of the float the text reads back as)
# ---------------------------------------------------------------------------------------------
def readback(s):
    """the float a numeric text reads back as; the sign of a zero is kept ('-0' and '0' are different texts)"""
    x = _fnum(ast.parse(s.strip(), mode='eval').body)
    if x is None:
        raise ValueError('not a number: %r' % s)
    return x


def _fnum(node):
    """like _num, as a float, negating after the conversion (so that '-0' reads as -0.0)"""
    if isinstance(node, ast.Constant) and isinstance(node.value, (int, float)) and not isinstance(node.value, bool):
        return float(node.value)
    if isinstance(node, ast.UnaryOp) and isinstance(node.op, (ast.USub, ast.UAdd)):
        x = _fnum(node.operand)
        if x is not None:
            return -x if isinstance(node.op, ast.USub) else x
    return None


def _num(node):
    """the number a numeric literal node denotes (incl. unary minus), else None"""
    if isinstance(node, ast.Constant) and isinstance(node.value, (int, float)) and not isinstance(node.value, bool):
        return node.value
    if isinstance(node, ast.UnaryOp) and isinstance(node.op, (ast.USub, ast.UAdd)):
        x = _num(node.operand)
        if x is not None:
            return -x if isinstance(node.op, ast.USub) else x
    return None


def generic_surf(node):
    if isinstance(node, ast.Constant):
        v = node.value
        if v is True:
            return {'a': 'True'}
        if v is False:
            return {'a': 'False'}
        if v is None:
            return {'a': 'None'}
        if isinstance(v, str):
            return {'a': 's:' + v}
        if isinstance(v, bytes):
            return {'a': 'b:' + v.hex()}
    x = _num(node)
    if isinstance(x, int):
        return {'a': 'i:%d' % x}
    if isinstance(x, float):
        return {'a': 'f:%d' % f2bits(x)}
    if isinstance(node, ast.List):
        return {'l': [generic_surf(e) for e in node.elts]}
    if isinstance(node, ast.Tuple):
        return {'p': [generic_surf(e) for e in node.elts], 'tr': len(node.elts) == 1}
    if isinstance(node, ast.Dict):
        return {'m': [[generic_surf(k)['a'] if 'a' in generic_surf(k) else 'x:key', generic_surf(v)]
                      for k, v in zip(node.keys, node.values)]}
    return {'a': 'x:' + ast.dump(node)[:60]}


def surf_of(node, tree):
    t = tree['t']
    if t in ('double', 'scaled'):
        try:
            x = _fnum(node)
        except OverflowError:
            return {'a': 'x:overflow'}
        if x is not None:
            return {'a': 'f:%d' % f2bits(x)}
    elif t == 'array' and isinstance(node, ast.List):
        return {'l': [surf_of(e, tree['elem']) for e in node.elts]}
    elif t == 'tuple' and isinstance(node, ast.Tuple) and len(node.elts) == len(tree['elems']):
        return {'p': [surf_of(e, m) for e, m in zip(node.elts, tree['elems'])], 'tr': len(node.elts) == 1}
    elif t == 'struct' and isinstance(node, ast.Dict):
        md = dict((k, m) for k, m in tree['members'])
        items = []
        for k, v in zip(node.keys, node.values):
            ks = generic_surf(k)
            key = k.value if isinstance(k, ast.Constant) and isinstance(k.value, str) else None
            items.append([ks.get('a', 'x:key'), surf_of(v, md[key]) if key in md else generic_surf(v)])
        return {'m': items}
    return generic_surf(node)


def enc_text(tree):
    def enc(s):
        if not isinstance(s, str):
            raise TypeError('not a str')
        if dtcodec.has_surrogate(s):
            raise TypeError('surrogate')
        if tree['t'] in ('string', 'enum', 'bool'):
            return {'bare': s}
        try:
            node = ast.parse(s, mode='eval').body
        except (SyntaxError, ValueError):
            return {'bare': s}
        return {'syn': surf_of(node, tree)}
    return enc


def float_leaves(tree, value, pos=()):
    """(position, leaf tree, float) of the float leaves of a value of the tree"""
    t = tree['t']
    try:
        if t in ('double', 'scaled'):
            if isinstance(value, float):
                yield pos, tree, value
        elif t == 'array':
            for x in value:
                yield from float_leaves(tree['elem'], x, pos + (0,))
        elif t == 'tuple':
            for i, (e, x) in enumerate(zip(tree['elems'], value)):
                yield from float_leaves(e, x, pos + (i,))
        elif t == 'struct':
            for i, (k, m) in enumerate(tree['members']):
                if k in value:
                    yield from float_leaves(m, value[k], pos + (i,))
    except TypeError:
        return


def other_leaves(tree, value):
    """str / bytes leaves of a value (for the repr and base64 laws)"""
    t = tree['t']
    if t in ('string', 'blob'):
        yield value
    elif t == 'enum':
        yield value.name
    elif t == 'array':
        for x in value:
            yield from other_leaves(tree['elem'], x)
    elif t == 'tuple':
        for e, x in zip(tree['elems'], value):
            yield from other_leaves(e, x)
    elif t == 'struct':
        for k, m in tree['members']:
            if k in value:
                yield k
                yield from other_leaves(m, value[k])


# ---------------------------------------------------------------------------------------------
# one case against the real code
# ---------------------------------------------------------------------------------------------
def _reject_constant(name):
    raise ValueError('non-strict JSON constant ' + name)


def run_impl(tree, fmts, v, units=None, cls=None):
    """every call of one case; returns (impl outcomes, fmt table, library test failures)"""
    from frappy.protocol.interface import encode_msg_frame, decode_msg
    dt = build_dt(tree, fmts, units, cls)
    impl = dict.fromkeys(KEYS)
    libfail = []
    stats = {}
    floats = list(float_leaves(tree, v))
    try:
        rec = Recorder(dt=dt)                     # the client's own tables, built from the description
        cdt = rec.cdt
        ctree = dtcodec.dt_to_tree(cdt)
        impl['cdt'] = ctree
        if dtcodec.dt_to_tree(rebuild(dt)) != ctree:
            libfail.append('client tables: the datatype in SecopClient.modules differs from get_datatype(description)')
    except Exception as e:
        rec, cdt, ctree = None, None, None
        impl['cdt'] = {'err': type(e).__name__}
    # ---- wire ----
    impl['exp'], exp = _out(lambda: dt.export_value(v), enc_json)
    data = None
    if 'ok' in impl['exp']:
        try:
            frame = encode_msg_frame('update', 'm:_par', [exp, {}])
            text = frame.decode('utf-8').split(' ', 2)[2]
            try:
                json.loads(text, parse_constant=_reject_constant)
            except ValueError:
                libfail.append('strict-json-parser refuses the emitted text')
            stats['line'] = len(frame)
            action, ident, (data, qual) = decode_msg(frame)
            # JsonText.loads_dumps, the wire law the theorems assume, on the real pair encode_msg_frame / decode_msg: the
            # JSON value that arrives is the one that was sent (same types, floats bit by bit, strings code point by code
            # point, members in the same order), and so are action, specifier and qualifiers
            if not same_json(data, exp) or (action, ident, qual) != ('update', 'm:_par', {}):
                libfail.append('wire law JsonText.loads_dumps: decode_msg(encode_msg_frame(j)) != j for j = %.300r' % (exp,))
            impl['exp'] = {'ok': enc_json(data)}           # what arrives: the output of json.loads
        except Exception as e:
            impl['exp'] = {'err': 'dumps:' + type(e).__name__}
    if 'ok' in impl['exp']:
        impl['node'], _ = _out(lambda: dt.import_value(data), dtcodec.py_to_json)
        if cdt is not None:
            impl['client'], _ = _out(lambda: cdt.import_value(data), dtcodec.py_to_json)
    # ---- text on the node's datatype ----
    impl['text'], text = _out(lambda: dt.to_string(v), enc_text(tree))
    if text is not None:
        stats['text'] = len(text)
        impl['back'], back = _out(lambda: dt.from_string(text), dtcodec.py_to_json)
        if 'ok' in impl['back']:
            floats += list(float_leaves(tree, back))
            impl['again'], _ = _out(lambda: dt.to_string(back), enc_text(tree))
    # ---- the client: cache item from the update message, its text, the string write ----
    if cdt is not None and data is not None:
        try:
            rec.client.updateValue(*rec.client.internal[rec.ident], data, 1.0, None)
            item = rec.client.cache['m', 'par']
            impl['cval'] = {'ok': dtcodec.py_to_json(item.value)}
        except Exception as e:
            item = None
            impl['cval'] = {'err': type(e).__name__}
        if item is not None:
            floats += list(float_leaves(ctree, item.value))
            impl['ctext'], ctext = _out(lambda: str(item), enc_text(ctree))
            if ctext is not None:
                impl['cback'], cback = _out(lambda: cdt.from_string(ctext), dtcodec.py_to_json)
                if 'ok' in impl['cback']:
                    floats += list(float_leaves(ctree, cback))
                    impl['cagain'], _ = _out(lambda: cdt.to_string(cback), enc_text(ctree))

                def send():
                    n = len(rec.sent)
                    rec.client.setParameterFromString('m', 'par', ctext)
                    if len(rec.sent) != n + 1:
                        raise RuntimeError('no frame')
                    action, ident, sent = decode_msg(rec.sent[-1])
                    if (action, ident) != ('change', 'm:_par'):
                        raise RuntimeError('unexpected frame')
                    return sent
                impl['sent'], sent = _out(send, enc_json)
                if 'ok' in impl['sent']:
                    impl['cnode'], _ = _out(lambda: dt.import_value(sent), dtcodec.py_to_json)

            def send_value():
                n = len(rec.sent)
                rec.client.setParameter('m', 'par', item.value)
                if len(rec.sent) != n + 1:
                    raise RuntimeError('no frame')
                action, ident, sent = decode_msg(rec.sent[-1])
                if (action, ident) != ('change', 'm:_par'):
                    raise RuntimeError('unexpected frame')
                return sent
            impl['vsent'], vsent = _out(send_value, enc_json)
            if 'ok' in impl['vsent']:
                impl['vnode'], _ = _out(lambda: dt.import_value(vsent), dtcodec.py_to_json)

            # ---- the command call: execCommand with the cached value as argument, the node's command answers its argument
            def call():
                n = len(rec.sent)
                del rec.node_args[:]
                try:
                    rec.result = ('ok', rec.client.execCommand('m', 'cmd', item.value)[0])
                except Exception as e:
                    if len(rec.sent) == n:
                        raise                     # failed before anything was sent (export_value of the argument)
                    rec.result = ('err', e)
                if len(rec.sent) != n + 1:
                    raise RuntimeError('no frame')
                action, ident, sent = decode_msg(rec.sent[-1])
                if (action, ident) != ('do', 'm:_cmd'):
                    raise RuntimeError('unexpected frame')
                return sent
            impl['xsent'], xsent = _out(call, enc_json)
            if 'ok' in impl['xsent']:
                def node_arg():
                    a = rec.node_args[-1]
                    if isinstance(a, Exception):
                        raise a
                    return a

                def cmd_result():
                    if rec.result[0] == 'err':
                        raise rec.result[1]
                    return rec.result[1]
                impl['xnode'], _ = _out(node_arg, dtcodec.py_to_json)
                if 'ok' in impl['xnode']:
                    impl['xres'], _ = _out(cmd_result, dtcodec.py_to_json)
            # ---- an error update: the cache entry shows the error, not a value (the `readerror` branch of CacheItem.__str__)
            from frappy.errors import HardwareError
            exc = HardwareError('sensor %r broken' % (tree['t'],))
            stats_rerr = repr(exc)

            def error_text():
                rec.client.updateValue('m', 'par', None, 2.0, exc)
                return str(rec.client.cache['m', 'par'])
            impl['etext'], _ = _out(error_text, lambda s: {'bare': s})
            impl['rerr'] = stats_rerr
    # ---- the library leaves: the fmt read-back table, and the laws tested on the leaves drawn ----
    table, seen = [], set()
    leafdts = {}
    for pos, leaf, x in floats:
        key = (pos_key(pos), f2bits(x))
        if key in seen or not math.isfinite(x):
            continue
        seen.add(key)
        ldt = leafdts.setdefault(pos, sub_dt(dt, pos))
        try:
            s = ldt.fmtstr % x
            r = readback(s)
            table.append([key[0], key[1], f2bits(r)])
            if f2bits(x + 0.0) == f2bits(x):            # the law is stated for canonical floats
                # TextLib.Lawful.fmtDouble / fmtScaled as stated in Spec/C02.lean: library and float arithmetic only.
                # It is a precondition of the text clauses which the Lean side decides from the table (`fmtlaw`); here it is
                # cross-checked with the real '%' and literal_eval: known to fail for negative values printing as '-0.0'
                # under %.nf and for scaled leaves whose grid is finer than the double spacing
                w = ast.literal_eval(s)
                if isinstance(w, bool) or not isinstance(w, (int, float)) or w != w:
                    libfail.append('fmt law: %r %% %r = %r is not a number literal' % (ldt.fmtstr, x, s))
                else:
                    r = w + 0.0
                    if leaf['t'] == 'double':
                        y = sorted([-gen.FMAX, r, gen.FMAX])[1]
                        ok = ldt.fmtstr % y == s
                    else:
                        y = float(int(round(r / ldt.scale)) * ldt.scale)
                        ok = math.isfinite(y) and ldt.fmtstr % y == s and float(int(round(y / ldt.scale)) * ldt.scale) == y
                    if not ok:
                        libfail.append('fmt law: %r %% %r = %r reads back as %r -> %r which prints %r' % (ldt.fmtstr, x, s, r, y, ldt.fmtstr % y))
                if x + 0.0 != x or not (x <= x) or x * 3.0 != 3.0 * x:
                    libfail.append('float law on %r' % x)
        except Exception as e:
            libfail.append('fmt law: %r %% %r raises %s' % (ldt.fmtstr, x, type(e).__name__))
    for s in other_leaves(tree, v):
        if ast.literal_eval(repr(s)) != s:
            libfail.append('repr law on %r' % (s,))
        if isinstance(s, bytes) and base64.b64decode(base64.b64encode(s).decode('ascii'), validate=True) != s:
            libfail.append('base64 law on %r' % (s,))
    return impl, table, libfail, stats


def same_json(a, b):
    """identity of two JSON values as Python objects: same types (an int is not a float, a bool is not an int), floats
    bit by bit, strings code point by code point, object members in the same order"""
    if type(a) is not type(b):
        return False
    if isinstance(a, float):
        return f2bits(a) == f2bits(b)
    if isinstance(a, list):
        return len(a) == len(b) and all(same_json(x, y) for x, y in zip(a, b))
    if isinstance(a, dict):
        return list(a) == list(b) and all(same_json(a[k], b[k]) for k in a)
    return a == b


LAST_STATS = {}


def eval_case(case):
    v = dtcodec.json_to_py(case['v'])
    impl, table, libfail, stats = run_impl(case['tree'], case.get('fmts', {}), v, case.get('units'), case.get('cls'))
    LAST_STATS.clear()
    LAST_STATS.update(stats)
    req = {'p': 'C02', 'k': 'case', 'dt': case['tree'], 'v': case['v'], 'fmt': table, 'impl': impl, 'rerr': impl.pop('rerr', None)}
    return req, impl, libfail


# ---------------------------------------------------------------------------------------------
# observation
# ---------------------------------------------------------------------------------------------
def canon_out(o):
    if isinstance(o, dict) and 'ok' in o and isinstance(o['ok'], (dict, list)) and not ('bare' in o['ok'] or 'syn' in o['ok']):
        return {'ok': dtcodec.canon(o['ok'])}
    return o


KEYS = ['exp', 'node', 'client', 'cdt', 'text', 'back', 'again', 'cval', 'ctext', 'cback', 'cagain', 'sent', 'cnode', 'vsent',
        'vnode', 'xsent', 'xnode', 'xres', 'etext']


CLIENT_KEYS = ['client', 'cdt', 'cval', 'ctext', 'cback', 'cagain', 'sent', 'cnode', 'vsent', 'vnode', 'xsent', 'xnode', 'xres', 'etext']


def obs(d):
    return {k: (d.get(k) if k == 'cdt' else canon_out(d.get(k))) for k in KEYS}


# ---------------------------------------------------------------------------------------------
# generators: the valid stream
# ---------------------------------------------------------------------------------------------
def gen_fmt(rng):
    """a format string of the SECoP family %.<n>(e|f|g): the catalogue (frappy's default %g three times), or any precision
    0..17 with any of the three conversions (few digits round a limit value up beyond the float range, many digits show
    the binary noise, %.<n>f prints small negative values as -0.00)"""
    r = rng.random()
    if r < 0.4:
        return rng.choice(FMTS)
    return '%%.%d%s' % (rng.choice([0, 1, 2, 3, 4, 5, 6, 7, 8, 9, 10, 11, 12, 15, 16, 17]), rng.choice('efg'))


def blank_names(rng, tree):
    """the same tree with, now and then, an enum member name that starts or ends with white space (the text form of an enum
    value is the bare name: `from_string` must not lose the blanks), sometimes next to the member with the stripped name"""
    t = tree['t']
    if t == 'enum':
        members = [list(m) for m in tree['members']]
        if rng.random() < 0.3:
            names = {n for n, _ in members}
            i = rng.randrange(len(members))
            new = rng.choice([' %s', '%s ', '\t%s', '  %s  ', '%s\n', '\xa0%s'])  % members[i][0]
            if new not in names:
                if rng.random() < 0.3 and len(members) < 8:
                    members.append([new, max(v for _, v in members) + 1])
                else:
                    members[i][0] = new
        return dict(tree, members=members)
    if t == 'array':
        return dict(tree, elem=blank_names(rng, tree['elem']))
    if t == 'tuple':
        return dict(tree, elems=[blank_names(rng, e) for e in tree['elems']])
    if t == 'struct':
        return dict(tree, members=[[k, blank_names(rng, m)] for k, m in tree['members']])
    return tree


UNITS = ['K', '%', 'mm/s', 'T', 'mbar', 'm^2', '1', 'deg C', '\u03a9', '\u2126', '\u00b5m', "'", '"', ', 5', '] #', '$']


def gen_units(rng, tree):
    """units for some of the float leaves (the text form for input - to_string, str(CacheItem) - shows no unit, whatever
    the unit is: format_value(value, unit=False))"""
    return {pos_key(pos): rng.choice(UNITS) for pos, leaf in leaf_paths(tree)
            if leaf['t'] in ('double', 'scaled') and rng.random() < 0.4}


def gen_fmts(rng, tree):
    return {pos_key(pos): gen_fmt(rng) for pos, leaf in leaf_paths(tree) if leaf['t'] in ('double', 'scaled')}


def shuffled_structs(rng, tree, v):
    """the same value with the members of its structs in another order (a dict is valid in any order)"""
    t = tree['t']
    if t == 'array':
        return tuple(shuffled_structs(rng, tree['elem'], x) for x in v)
    if t == 'tuple':
        return tuple(shuffled_structs(rng, e, x) for e, x in zip(tree['elems'], v))
    if t == 'struct':
        md = dict((k, m) for k, m in tree['members'])
        items = [(k, shuffled_structs(rng, md[k], x)) for k, x in v.items()]
        rng.shuffle(items)
        return dict(items)
    return v


def extra_valid(rng, tree):
    """boundary catalogue on top of vlib.gen.gen_valid for a leaf tree"""
    t = tree['t']
    out = []
    if t == 'double':
        lo, hi = gen._f(tree['min']), gen._f(tree['max'])
        out += [x for x in (1e300, -1e300, 1e-300, 123456789.0, 0.1, 1 / 3, 2.0 ** 53 + 2, 5e-324, 1e16, 1e22, 1e23, 0.30000000000000004,
                            -0.0, 1e-5, 99999.95, 999999.5, gen.FMAX, -gen.FMAX,
                            # small negative values: '%.1f' % -0.04 is '-0.0', which reads back as 0.0 and prints '0.0' (the
                            # instances where the assumed format law fails; counted, see `precondition.fmt-law-fails`)
                            -0.04, -0.4, -1e-5, -4e-13,
                            # a format with few digits rounds these up to the next power of ten / beyond the float range
                            9.5, 99.5, 0.95, 9.9999e15, 1.7976931348623157e308, 1.75e308) if lo <= x <= hi]
    elif t == 'scaled':
        kb = gen.grid_bounds(tree)
        if kb and kb[0] <= kb[1]:
            s = gen._f(tree['scale'])
            ks = [kb[0], kb[1], kb[1] - 1, kb[0] + 1, 3, 33, 1234567, 2 ** 31 - 1, 2 ** 45 + 1, 2 ** 51 + 1, 2 ** 52 + 1, 2 ** 53 - 1,
                  -(2 ** 52) - 3]
            out += [float(k * s) for k in ks if kb[0] <= k <= kb[1]]
    elif t == 'enum':
        out += [dtcodec.enum_member(n, k) for n, k in tree['members']]
    elif t == 'string':
        pool = ['"', "'", '\\', '\n', '\t', "'\"", '\\n', ' ', '{}', '(1,)', '\x7f', '\x01'] + (['ü', '€', '\U0001d11e', 'é', '\xa0'] if tree['utf8'] else [])
        for n in {tree['min'], min(tree['max'], tree['min'] + 3)}:
            out.append(''.join(rng.choice(pool)[:1] for _ in range(n)))
        # content a text layer may treat specially (normalization, case mapping, white space, control / format characters)
        for n in {min(tree['max'], max(tree['min'], 2)), min(tree['max'], tree['min'] + rng.choice([1, 4, 9]))}:
            if n >= tree['min']:
                out.append(gen_text(rng, n, tree['utf8'], special=0.7))
    elif t == 'blob':
        for n in {tree['min'], min(tree['max'], 300)}:
            out.append(bytes((i * 7 + rng.randrange(256)) % 256 for i in range(n)))
        if tree['min'] <= 256 <= tree['max']:
            out.append(bytes(range(256)))
    return out


# ---------------------------------------------------------------------------------------------
# generators: the content of strings (every class of characters a text layer may treat specially)
# ---------------------------------------------------------------------------------------------
_UNI = None

# ASCII characters a text layer may treat specially (StringType(isUTF8=False) takes ASCII only, without NUL)
ASCII_SPECIAL = ['\r', '\x0b', '\x0c', '\x1c', '\x1d', '\x1e', '\x1f', '\x1b', '\x08', '\x7f', '#', '%', '{', '}', '[', ']', '(', ')', ',', ':',
                 '\\', '"', "'", '`', '$', '&', '<', '>', ';', '=', '\t', '\n', ' ']


def uni_classes():
    """classes of Unicode characters / character sequences, derived from the `unicodedata` tables of the interpreter
    (nothing is hand-picked): characters a normalization form changes (one class per form), the canonical / compatibility
    decompositions of such characters (sequences which *compose*), combining marks in non-canonical order, characters
    changed by a case mapping, white space, line and paragraph separators, format / private-use / unassigned code points
    (incl. the non-characters), non-printable ones, and code points outside the BMP.  Surrogates are left out (they can
    not travel to the Lean side: `dtcodec.encodable`)."""
    global _UNI
    if _UNI is not None:
        return _UNI
    import unicodedata as u
    cl = {k: [] for k in ('not-NFC', 'not-NFD', 'not-NFKC', 'not-NFKD', 'case', 'space', 'format', 'private', 'unassigned',
                          'combining', 'unprintable', 'astral', 'decomposed', 'misordered-marks')}
    marks = {}
    for cp in range(0x80, 0x110000):
        if 0xD800 <= cp <= 0xDFFF:
            continue
        c = chr(cp)
        cat = u.category(c)
        if cat == 'Cn' and not (cp & 0xFFFE == 0xFFFE or 0xFDD0 <= cp <= 0xFDEF or cp < 0x3000):
            continue                                  # of the unassigned: the non-characters and the holes of the low blocks only
        for f in ('NFC', 'NFD', 'NFKC', 'NFKD'):
            if not u.is_normalized(f, c):
                cl['not-' + f].append(c)
        if not u.is_normalized('NFD', c):
            cl['decomposed'].append(u.normalize('NFD', c))
        if c.lower() != c or c.upper() != c or c.casefold() != c:
            cl['case'].append(c)
        if c.isspace() or cat in ('Zl', 'Zp', 'Zs'):
            cl['space'].append(c)
        if cat == 'Cf':
            cl['format'].append(c)
        elif cat == 'Co':
            if cp in (0xE000, 0xF8FF, 0xF0000, 0xFFFFD, 0x100000, 0x10FFFD) or cp % 4099 == 0:
                cl['private'].append(c)
        elif cat == 'Cn':
            cl['unassigned'].append(c)
        elif cat in ('Mn', 'Mc', 'Me'):
            cl['combining'].append(c)
            cc = u.combining(c)
            if cc and cp < 0x1000:
                marks.setdefault(cc, c)
        if not c.isprintable() and cat not in ('Co', 'Cn'):
            cl['unprintable'].append(c)
        if cp > 0xFFFF and cat not in ('Co', 'Cn') and cp % 7 == 0:
            cl['astral'].append(c)
    ccs = sorted(marks)
    for i, a in enumerate(ccs):
        for b in ccs[i + 1:i + 4]:
            cl['misordered-marks'].append('a' + marks[b] + marks[a])       # higher combining class first: NFC/NFD reorder
    # Hangul: the syllables are composed / decomposed by rule, not by table - keep some of both
    cl['decomposed'] += [u.normalize('NFD', chr(cp)) for cp in range(0xAC00, 0xD7A4, 389)]
    _UNI = {k: v for k, v in cl.items() if v}
    return _UNI


def gen_text(rng, n, utf8, special=0.5):
    """a string of exactly n characters: positions filled from the plain pools or - with probability `special` - from a
    class of characters a text layer may treat specially (ASCII: control characters and the punctuation of the text forms;
    UTF-8: a class of `uni_classes`)"""
    out, k = [], 0
    classes = uni_classes() if utf8 else None
    names = sorted(classes) if utf8 else None
    while k < n:
        if rng.random() < special:
            if utf8 and rng.random() < 0.8:
                s = rng.choice(classes[rng.choice(names)])
            else:
                s = rng.choice(ASCII_SPECIAL)
        else:
            s = rng.choice(gen.ASCII_POOL + (gen.UTF8_POOL if utf8 else []))
        if k + len(s) > n or '\0' in s:
            s = 'a'
        out.append(s)
        k += len(s)
    return ''.join(out)


def text_classes(s):
    """the classes (of `uni_classes`, by property - not by membership in the sampled lists) a string touches; for the
    evidence counts"""
    import unicodedata as u
    out = set()
    if not s.isascii():
        for f in ('NFC', 'NFD', 'NFKC', 'NFKD'):
            if not u.is_normalized(f, s):
                out.add('not-' + f)
        if any(ord(c) > 0xFFFF for c in s):
            out.add('astral')
        if any(u.category(c) in ('Cf', 'Co', 'Cn') for c in s):
            out.add('format/private/unassigned')
        if any(c.isspace() for c in s if ord(c) > 127):
            out.add('unicode-space')
        if s.lower() != s or s.upper() != s:
            out.add('case')
    if any(c in '\r\x0b\x0c\x1c\x1d\x1e\x1f\x1b\x08' for c in s):
        out.add('ascii-control')
    return out or {'plain'}


def odd_keys(rng, tree):
    """the same tree with, now and then, struct member names drawn like string contents (a member name travels as the key
    of a JSON object and is printed as a dict key in the text form)"""
    t = tree['t']
    if t == 'array':
        return dict(tree, elem=odd_keys(rng, tree['elem']))
    if t == 'tuple':
        return dict(tree, elems=[odd_keys(rng, e) for e in tree['elems']])
    if t == 'struct':
        members = [[k, odd_keys(rng, m)] for k, m in tree['members']]
        optional = list(tree['optional'])
        if rng.random() < 0.25:
            i = rng.randrange(len(members))
            new = gen_text(rng, rng.choice([1, 2, 3, 6]), True, special=0.7)
            if new and new not in [k for k, _ in members]:
                optional = [new if k == members[i][0] else k for k in optional]
                members[i][0] = new
        return dict(tree, members=members, optional=optional)
    return tree


# ---------------------------------------------------------------------------------------------
# generators: big values (maximal containers, long strings / blobs: the text form and the JSON line get long)
# ---------------------------------------------------------------------------------------------
# lengths around the constants a buffer / display limit / length field typically has
SIZES = [100, 127, 128, 200, 255, 256, 257, 500, 512, 999, 1000, 1001, 1023, 1024, 1025, 2000, 2048, 4095, 4096, 4097, 8192,
         10000, 16384, 32767, 32768, 65535, 65536, 65537, 100000]


def _size(rng, lo, hi, budget):
    """a length in [lo, hi] (hi may be 'unlimited'), not above budget unless lo is: hi itself when it fits, else one of SIZES"""
    top = min(hi, max(lo, budget))
    if top == hi and rng.random() < 0.6:
        return hi
    c = [s for s in SIZES if lo <= s <= top]
    if c and rng.random() < 0.8:
        return rng.choice(c)
    return top


def gen_big(rng, tree, budget=3000):
    """a valid value which is as large as the type allows, within a budget of (roughly) characters of text: arrays filled
    to maxlen, strings and blobs long, every optional struct member present; None when the value set is (practically) empty"""
    t = tree['t']
    if t == 'string':
        n = _size(rng, tree['min'], tree['max'], budget)
        return gen_text(rng, n, tree['utf8'], special=rng.choice([0.0, 0.05, 0.3]))
    if t == 'blob':
        return gen.gen_bytes(rng, tree, _size(rng, tree['min'], tree['max'], budget // 3))
    if t == 'array':
        lo, hi = tree['min'], tree['max']
        cap = max(lo, min(hi, max(1, budget // 12)))
        n = hi if hi <= cap else rng.choice([cap, _size(rng, lo, cap, cap)])
        items = [gen_big(rng, tree['elem'], max(8, budget // max(1, n))) for _ in range(n)]
        if any(x is None for x in items):
            return () if lo == 0 else None
        return tuple(items)
    if t == 'tuple':
        items = [gen_big(rng, e, budget // len(tree['elems'])) for e in tree['elems']]
        return None if any(x is None for x in items) else tuple(items)
    if t == 'struct':
        res = {}
        for k, m in tree['members']:
            v = gen_big(rng, m, budget // len(tree['members']))
            if v is None:
                if k in tree['optional']:
                    continue
                return None
            res[k] = v
        return res
    if t == 'double' and rng.random() < 0.7:
        # many digits: a number taking 17 significant digits (and a 3 digit exponent), inside the limits
        lo, hi = gen._f(tree['min']), gen._f(tree['max'])
        u = rng.random()
        x = lo + (hi - lo) * u if math.isfinite(hi - lo) else (lo * (1 - u) + hi * u)
        if lo <= x <= hi:
            return x + 0.0
    return gen.gen_valid(rng, tree)


def can_be_big(tree):
    """does the type have values with a long text form (an array of more than 8 elements, a string / blob of more than
    100 characters / bytes, an enum member with a long name)?"""
    t = tree['t']
    if t == 'array':
        return tree['max'] > 8 or can_be_big(tree['elem'])
    if t == 'tuple':
        return any(can_be_big(e) for e in tree['elems'])
    if t == 'struct':
        return len(tree['members']) > 8 or any(can_be_big(m) for _, m in tree['members'])
    if t in ('string', 'blob'):
        return tree['max'] > 100
    if t == 'enum':
        return any(len(n) > 100 for n, _ in tree['members'])
    return False


def big_trees(rng):
    """types whose values can be large: every container kind around every leaf kind, with the widest limits"""
    fj = gen.fj
    db = {'t': 'double', 'min': fj(-gen.FMAX), 'max': fj(gen.FMAX), 'ar': fj(0.0), 'rr': fj(1.2e-7)}
    it = {'t': 'int', 'min': -2 ** 63, 'max': 2 ** 63}
    sc = {'t': 'scaled', 'scale': fj(1e-3), 'min': fj(-1e9), 'max': fj(1e9), 'ar': fj(1e-3), 'rr': fj(1.2e-7)}
    st = {'t': 'string', 'min': 0, 'max': gen.UNLIMITED, 'utf8': True}
    sa = {'t': 'string', 'min': 0, 'max': gen.UNLIMITED, 'utf8': False}
    s9 = {'t': 'string', 'min': 0, 'max': rng.choice([255, 1024, 5000]), 'utf8': True}
    bl = {'t': 'blob', 'min': 0, 'max': rng.choice([1024, 4096, 100000])}
    en = {'t': 'enum', 'members': [['idle', 0], ['n' * rng.choice(SIZES[:20]), 1], ['busy busy', 2]]}
    bo = {'t': 'bool'}
    leaves = [db, it, sc, st, sa, s9, bl, en, bo]
    out = [st, sa, s9, bl, en]
    for leaf in leaves:
        out.append({'t': 'array', 'elem': leaf, 'min': 0, 'max': rng.choice([30, 100, 100, 256, 1000])})
    out.append({'t': 'array', 'elem': {'t': 'array', 'elem': rng.choice([db, it, st]), 'min': 0, 'max': 30}, 'min': 0, 'max': 30})
    out.append({'t': 'tuple', 'elems': [st, sa, bl]})
    out.append({'t': 'tuple', 'elems': [rng.choice(leaves) for _ in range(rng.choice([12, 40]))]})
    out.append({'t': 'struct', 'members': [['text', st], ['data', {'t': 'array', 'elem': db, 'min': 0, 'max': 100}]], 'optional': ['data'],
                'client': False})
    out.append({'t': 'struct', 'members': [['member_%02d' % i, rng.choice([db, it, bo, en, s9])] for i in range(rng.choice([12, 40]))],
                'optional': [], 'client': False})
    out.append({'t': 'array', 'elem': {'t': 'struct', 'members': [['a', it], ['b', db], ['c', st]], 'optional': ['c'], 'client': False},
                'min': 0, 'max': 60})
    return out


def gen_values(rng, tree, n):
    vals = []
    for _ in range(n):
        v = gen.gen_valid(rng, tree)
        if v is None:
            continue
        if rng.random() < 0.25:
            v = shuffled_structs(rng, tree, v)
        vals.append(v)
    if tree['t'] in gen.LEAF_KINDS:
        vals += extra_valid(rng, tree)
    else:
        # a boundary leaf value inside a container value
        for _ in range(max(1, n // 3)):
            v = gen.gen_valid(rng, tree)
            if v is None:
                continue
            leaves = [(p, lt) for p, lt in _value_leaves(tree, v)]
            if not leaves:
                continue
            p, lt = rng.choice(leaves)
            ex = extra_valid(rng, lt)
            if ex:
                vals.append(gen.subst(v, p, rng.choice(ex)))
    return vals


def _value_leaves(tree, value, path=()):
    t = tree['t']
    if t == 'array':
        for i, x in enumerate(value):
            yield from _value_leaves(tree['elem'], x, path + (i,))
    elif t == 'tuple':
        for i, (e, x) in enumerate(zip(tree['elems'], value)):
            yield from _value_leaves(e, x, path + (i,))
    elif t == 'struct':
        md = dict((k, m) for k, m in tree['members'])
        for k, x in value.items():
            yield from _value_leaves(md[k], x, path + (k,))
    else:
        yield path, tree


def _enum_names(tree):
    t = tree['t']
    if t == 'enum':
        for n, _ in tree['members']:
            yield n
    elif t == 'array':
        yield from _enum_names(tree['elem'])
    elif t == 'tuple':
        for e in tree['elems']:
            yield from _enum_names(e)
    elif t == 'struct':
        for _, m in tree['members']:
            yield from _enum_names(m)


def catalogue_trees():
    """small trees every run contains (the shapes the design phase flagged)"""
    fj = gen.fj
    i5 = {'t': 'int', 'min': 0, 'max': 5}
    sc = {'t': 'scaled', 'scale': fj(0.1), 'min': fj(0.0), 'max': fj(10.0), 'ar': fj(0.1), 'rr': fj(1.2e-7)}
    scbig = {'t': 'scaled', 'scale': fj(0.1), 'min': fj(0.0), 'max': fj(0.1 * 2 ** 53), 'ar': fj(0.1), 'rr': fj(1.2e-7)}
    en = {'t': 'enum', 'members': [['off', 0], ['on', 1], ['x y', 5]]}
    enb = {'t': 'enum', 'members': [['off ', 0], [' on', 1], ['on', 2], ['\tx', 5]]}
    bl = {'t': 'blob', 'min': 0, 'max': 300}
    db = {'t': 'double', 'min': fj(-gen.FMAX), 'max': fj(gen.FMAX), 'ar': fj(0.0), 'rr': fj(1.2e-7)}
    st = {'t': 'string', 'min': 0, 'max': gen.UNLIMITED, 'utf8': True}
    return [
        {'t': 'tuple', 'elems': [i5]},
        {'t': 'tuple', 'elems': [{'t': 'tuple', 'elems': [st]}]},
        {'t': 'array', 'elem': {'t': 'tuple', 'elems': [en]}, 'min': 0, 'max': 3},
        sc, scbig, en, enb, bl, db, st,
        {'t': 'tuple', 'elems': [enb, i5]},
        {'t': 'struct', 'members': [['a', i5], ['b', sc]], 'optional': ['b'], 'client': False},
        {'t': 'struct', 'members': [['a', en], ['b', bl]], 'optional': ['a', 'b'], 'client': False},
        {'t': 'array', 'elem': en, 'min': 0, 'max': 4},
        {'t': 'tuple', 'elems': [db, st, bl]},
        # shapes of the convenience classes LimitsType / StatusType / TextType (taken for half of the cases: `gen_variants`)
        {'t': 'tuple', 'elems': [db, db]}, {'t': 'tuple', 'elems': [sc, sc]}, {'t': 'tuple', 'elems': [i5, i5]},
        {'t': 'tuple', 'elems': [{'t': 'enum', 'members': [['IDLE', 100], ['BUSY', 300], ['ERROR', 400]]},
                                 {'t': 'string', 'min': 0, 'max': gen.UNLIMITED, 'utf8': False}]},
        {'t': 'struct', 'members': [['limits', {'t': 'tuple', 'elems': [db, db]}],
                                    ['text', {'t': 'string', 'min': 0, 'max': 2000, 'utf8': False}]], 'optional': ['text'], 'client': False},
    ]


def load_corpus(ctx):
    cases = []
    cdir = os.path.join(ctx.verif, 'corpus', 'C02')
    if os.path.isdir(cdir):
        for fn in sorted(os.listdir(cdir)):
            if fn.endswith('.json'):
                cases.append(json.load(open(os.path.join(cdir, fn)))['case'])
    return cases


# ---------------------------------------------------------------------------------------------
# shrinking, signatures
# ---------------------------------------------------------------------------------------------
def _sub_fmts(fmts, i):
    pre = str(i)
    out = {}
    for k, f in fmts.items():
        parts = k.split('.')
        if parts[0] == pre:
            out['.'.join(parts[1:])] = f
    return out


def sub_cases(case):
    tree, v, fmts, units, cls = case['tree'], case['v'], case.get('fmts', {}), case.get('units') or {}, case.get('cls') or {}
    t = tree['t']
    out = []
    if t == 'array' and isinstance(v, dict) and 't' in v:
        for x in v['t']:
            out.append({'tree': tree['elem'], 'v': x, 'fmts': _sub_fmts(fmts, 0), 'units': _sub_fmts(units, 0), 'cls': _sub_fmts(cls, 0)})
    elif t == 'tuple' and isinstance(v, dict) and 't' in v:
        for i, (e, x) in enumerate(zip(tree['elems'], v['t'])):
            out.append({'tree': e, 'v': x, 'fmts': _sub_fmts(fmts, i), 'units': _sub_fmts(units, i), 'cls': _sub_fmts(cls, i)})
    elif t == 'struct' and isinstance(v, dict) and 'd' in v:
        names = [k for k, _ in tree['members']]
        md = dict((k, m) for k, m in tree['members'])
        for k, x in v['d']:
            if k in md:
                out.append({'tree': md[k], 'v': x, 'fmts': _sub_fmts(fmts, names.index(k)), 'units': _sub_fmts(units, names.index(k)), 'cls': _sub_fmts(cls, names.index(k))})
    return out


def judge_case(ctx, case):
    req, impl, libfail = eval_case(case)
    ans = batch_nl(ctx.driver, [req])[0]
    return ans, impl


SHRINK = {'deadline': None}


def _shrink_time_left():
    import time
    return SHRINK['deadline'] is None or time.time() < SHRINK['deadline']


def shrink(ctx, case, clause):
    for _ in range(8):
        if not _shrink_time_left():
            return case
        smaller = None
        for sc in sub_cases(case)[:16]:
            if not _shrink_time_left():
                break
            try:
                ans, _ = judge_case(ctx, sc)
            except Exception:
                continue
            if clause in ans.get('judge', []):
                smaller = sc
                break
        if smaller is None:
            break
        case = smaller
    # containers: fewer elements
    tree, v = case['tree'], case['v']
    if tree['t'] == 'array' and isinstance(v, dict) and len(v.get('t', [])) > max(1, tree['min']):
        for x in v['t'][:20]:
            cand = dict(case, v={'t': [x] * max(1, tree['min'])})
            try:
                ans, _ = judge_case(ctx, cand)
            except Exception:
                continue
            if clause in ans.get('judge', []):
                return cand
    # a failure that needs a large value: halve arrays / strings / blobs anywhere in the value while it still fails
    calls = 0
    progress = True
    while progress and calls < 60 and _shrink_time_left():
        progress = False
        for vj in smaller_values(case['tree'], case['v']):
            if not _shrink_time_left():
                break
            cand = dict(case, v=vj)
            calls += 1
            try:
                ans, _ = judge_case(ctx, cand)
            except Exception:
                continue
            if clause in ans.get('judge', []):
                case = cand
                progress = True
                break
            if calls >= 60:
                break
    return case


def smaller_values(tree, vj):
    """protocol values like vj with one array / string / blob cut down (a half, three quarters, one element less), the
    largest cuts first; the minimum lengths of the type are respected (an invalid value is not judged anyway)"""
    t = tree['t']

    def cuts(n, lo):
        out = []
        for m in (n // 2, n - n // 4, n - 1):
            if lo <= m < n and m not in out:
                out.append(m)
        return out
    if t == 'string' and isinstance(vj, str):
        if vj != 'a' * len(vj):
            yield 'a' * len(vj)                 # the content does not matter
        for m in cuts(len(vj), tree['min']):
            yield vj[:m]
            if m == len(vj) // 2:
                yield vj[len(vj) - m:]
    elif t == 'blob' and isinstance(vj, dict) and 'b' in vj:
        for m in cuts(len(vj['b']) // 2, tree['min']):
            yield {'b': vj['b'][:2 * m]}
    elif t == 'array' and isinstance(vj, dict) and 't' in vj:
        items = vj['t']
        for m in cuts(len(items), tree['min']):
            yield {'t': items[:m]}
            if m == len(items) // 2:
                yield {'t': items[len(items) - m:]}
        for i, x in enumerate(items[:8]):
            for y in smaller_values(tree['elem'], x):
                yield {'t': items[:i] + [y] + items[i + 1:]}
    elif t == 'tuple' and isinstance(vj, dict) and 't' in vj:
        items = vj['t']
        for i, (e, x) in enumerate(zip(tree['elems'], items)):
            for y in smaller_values(e, x):
                yield {'t': items[:i] + [y] + items[i + 1:]}
    elif t == 'struct' and isinstance(vj, dict) and 'd' in vj:
        md = dict((k, m) for k, m in tree['members'])
        items = vj['d']
        for i, (k, x) in enumerate(items):
            if k in tree['optional']:
                yield {'d': items[:i] + items[i + 1:]}
            if k in md:
                for y in smaller_values(md[k], x):
                    yield {'d': items[:i] + [[k, y]] + items[i + 1:]}


def signature(clause, case):
    if clause.endswith(':neg-zero-text'):
        return 'C02:' + clause                  # the recorded finding: one signature per clause, whatever the tree
    return 'C02:' + clause + ':' + case['tree']['t']


def describe(case, impl):
    dt = build_dt(case['tree'], case.get('fmts', {}), case.get('units'), case.get('cls'))
    v = dtcodec.json_to_py(case['v'])

    def short(a):
        return a if len(a) <= 200 else '%s...<%d characters>...%s' % (a[:120], len(a), a[-40:])

    def show(k):
        o = impl.get(k)
        if isinstance(o, dict) and 'ok' in o:
            x = o['ok']
            if isinstance(x, dict) and ('bare' in x or 'syn' in x):
                return short(json.dumps(x))
            try:
                return short(ascii(dtcodec.json_to_py(x)))
            except Exception:
                return short(json.dumps(x))
        return json.dumps(o)
    real = {}
    try:
        real['to_string'] = dt.to_string(v)
    except Exception as e:
        real['to_string'] = type(e).__name__
    what = ', '.join(f'{k}={show(k)}' for k in KEYS if k != 'cdt' and impl.get(k) is not None)
    n = len(real['to_string'])
    return f'{short(ascii(dt))} value={short(ascii(v))} to_string={short(ascii(real["to_string"]))} ({n} characters): {what}'[:3000]


# ---------------------------------------------------------------------------------------------
def run(ctx):
    res = Result()
    res.rule = ('(tree, format strings, valid value) triples on the real datatype classes: export_value -> encode_msg_frame '
                '(json.dumps) -> decode_msg (json.loads) -> import_value on the node datatype and on get_datatype(json round trip of '
                'export_datatype()); to_string / from_string / to_string; SecopClient.updateValue -> str(CacheItem) -> '
                'setParameterFromString against a recording request() -> import_value of the sent value on the node datatype; '
                'execCommand(cached value) -> the do line -> import_value / export_value on the node datatype -> the done line '
                '-> the result execCommand returns; str(cache entry) after an error update. '
                'Values from the value set itself: limits, grid points far from zero (incl. the region where the grid law fails), '
                'empty/maximal containers, every enum member, quote/backslash/newline/non-ASCII strings, all byte values, structs '
                'without optional members and in shuffled order, one-member tuples; values as large as the type allows (arrays '
                'filled to maxlen, strings / blobs / enum names of the lengths around 2^k and 10^k up to 100 000: text forms and '
                'lines of more than 1000 / 10 000 / 100 000 characters); string contents and struct member names from every class '
                'of characters a text layer may treat specially (unicodedata: unstable under NFC / NFD / NFKC / NFKD, composing '
                'sequences, misordered marks, case mappings, separators, format / private-use / unassigned, astral; ASCII control '
                'characters); units on float leaves; TextType / LimitsType / StatusType.  Non-trivial = a valid value (Lean validB) of a '
                'container type, or of a leaf type other than bool')
    rng = ctx.rng
    big = ctx.tier == 'thorough' or ctx.escalated
    maxdepth = 5 if big else 3
    total = ctx.budget(5000, 120000)
    per_tree = 12 if not big else 16
    ntrees = max(30, total // per_tree)

    cases = [(c, 'corpus') for c in load_corpus(ctx)]
    trees = [(t, 'catalogue') for t in catalogue_trees()] + [(t, 'gen') for t in gen.all_kind_trees(rng, maxdepth)]
    while len(trees) < ntrees:
        d = rng.choice([1, 2, 2, 3, 3, 3] + ([4, 5] if big else []))
        trees.append((gen.gen_tree(rng, min(d, maxdepth)), 'gen'))
    # types whose values can be large (maximal containers, long strings / blobs / names): the text form and the JSON line
    # of such a value are long
    nbig = ctx.budget(16, 400)
    bigs = []
    while len(bigs) < nbig:
        bigs += big_trees(rng)
    trees += [(t, 'big') for t in bigs[:max(nbig, 24)]]
    for tree0, origin in trees:
        if origin == 'gen':
            tree0 = odd_keys(rng, blank_names(rng, tree0))
        try:
            tree = dtcodec.dt_to_tree(dtcodec.tree_to_dt(tree0))
        except Exception as e:
            res.count('tree.refused:' + type(e).__name__)
            continue
        if any(n != n.strip() for n in _enum_names(tree)):
            res.count('tree.enum-name-with-outer-blanks')
        res.count('tree.root=' + tree['t'])
        res.count('tree.depth=%d' % dtcodec.tree_depth(tree))
        for k in set(dtcodec.tree_kinds(tree)):
            res.count('tree.contains=' + k)
        fmts = gen_fmts(rng, tree)
        units = gen_units(rng, tree)
        cls = gen_variants(rng, tree)
        for c in cls.values():
            res.count('tree.class-variant=' + c)
        res.count('tree.float-leaf-with-unit', len(units))
        for f in fmts.values():
            res.count('fmtstr=' + (f if f == '%g' else '%.<n>' + f[-1]))
            res.count('fmtstr.digits=' + ('default' if f == '%g' else '0-2' if int(f[2:-1]) <= 2 else '3-9' if int(f[2:-1]) <= 9
                                          else '10-17'))
        values = gen_values(rng, tree, per_tree if origin != 'big' else 2)
        if can_be_big(tree):
            res.count('tree.can-be-big')
            for _ in range(3 if origin == 'big' else 1):
                # budget: about the number of characters of the text form (mostly around the usual limits, now and then huge)
                v = gen_big(rng, tree, rng.choice([300, 1200, 1200, 3000, 3000, 6000, 12000] + ([150000] if rng.random() < 0.15 else [])))
                if v is not None:
                    values.append(v)
        for v in values:
            if not dtcodec.encodable(v):
                continue
            cases.append(({'tree': tree, 'v': dtcodec.py_to_json(v), 'fmts': fmts, 'units': units, 'cls': cls}, origin))

    CH = 10000
    shrunk = 0
    import time
    shrink_budget = 40.0 if ctx.tier == 'quick' and not ctx.escalated else 300.0      # seconds; shrinking large failing values costs time
    libfails = 0
    seen_unshrunk = set()
    for start in range(0, len(cases), CH):
        chunk = cases[start:start + CH]
        reqs, impls, lfs, sts = [], [], [], []
        for c, _ in chunk:
            req, impl, libfail = eval_case(c)
            reqs.append(req)
            impls.append(impl)
            lfs.append(libfail)
            sts.append(dict(LAST_STATS))
        answers = batch_nl(ctx.driver, reqs)
        for (c, origin), impl, libfail, st, ans in zip(chunk, impls, lfs, sts, answers):
            if 'driver_error' in ans:
                raise RuntimeError(f'driver error {ans} on {json.dumps(c)[:400]}')
            res.evaluations += 1
            res.count('origin=' + origin)
            t = c['tree']['t']
            if not ans['wf']:
                res.disagreements.append({'case': c, 'model': 'tree is not DType.WF', 'impl': 'accepted by the constructors'})
                continue
            if not ans['valid']:
                # outside the quantifier: a scaled leaf the grid does not reproduce (|k|*ulp >= 1/2) — probed, counted
                res.count('precondition.grid-law-fails(not judged)')
                continue
            res.traces += 1
            res.count('valid.root=' + t)
            for key, n in sorted(st.items()):
                # length of the text form (to_string) / of the JSON line (encode_msg_frame) of the value
                res.count('%s.length=%s' % (key, '0-100' if n <= 100 else '101-1000' if n <= 1000 else '1001-10000' if n <= 10000
                                            else '>10000'))
            strs = [x for x in other_leaves(c['tree'], dtcodec.json_to_py(c['v'])) if isinstance(x, str)]
            for k in set().union(*[text_classes(x) for x in strs]) if strs else ():
                res.count('string-content=' + k)
            res.count('canon=%s' % ans['canon'])
            res.count('node-text-judged=%s' % (ans['canon'] and ans['complete'] and ans['fmtlaw']))
            res.count('scaled-limits-on-grid=%s' % ans.get('limits'))
            if ans.get('limits') and ans.get('cvalid') is False and ans['canon']:
                res.disagreements.append({'case': c, 'model': 'Lemmas.C02.valid_clientOf: the cached value is valid for the rebuilt type',
                                          'impl': 'validB cdt cval = false'})
            if ans.get('cvalid') is not None:
                # hypothesis of client_cache_string_write: the cached value lies in the value set of the rebuilt type
                res.count('client-value-valid-for-rebuilt-type=%s' % ans['cvalid'])
            if ans['canon'] and ans.get('negzero'):
                # a float leaf prints as a text that reads back as -0.0: the recorded finding (judged, KNOWN-FINDING)
                res.count('finding.neg-zero-text(judged)')
            elif ans['canon'] and not ans['fmtlaw']:
                # the assumed format law fails at a leaf of this value: a negative value printing as '-0.0' (reads back as
                # 0.0, prints '0.0'), or a scaled leaf whose text reads back to a neighbouring grid point
                res.count('precondition.fmt-law-fails(text not judged)')
            if isinstance(impl.get('cdt'), dict) and 'err' in impl['cdt']:
                res.count('client-datatype-not-rebuilt(client clauses not judged; C03)')
            for k in ('exp', 'node', 'client', 'back', 'cback', 'sent', 'cnode', 'vsent', 'vnode', 'xsent', 'xnode', 'xres'):
                o = impl.get(k)
                res.count(f'{k}=' + ('none' if o is None else 'ok' if 'ok' in o else 'err:' + o['err']))
            if t != 'bool':
                res.nontriv(c)
            if len(res.samples) < 6 and t in ('array', 'tuple', 'struct') and origin == 'gen' and len(json.dumps(c)) < 600:
                res.samples.append({'case': c, 'impl': {k: impl[k] for k in ('exp', 'text', 'ctext', 'sent')}})
            for lf in libfail:
                if lf.startswith('fmt law: ') and not ans['fmtlaw']:    # incl. the neg-zero-text instances
                    res.count('libtest.fmt-law-fails(agrees with the Lean precondition)')
                    continue
                libfails += 1
                res.count('libtest.failed')
                if libfails <= 5:
                    res.disagreements.append({'case': c, 'model': 'library law assumed by the theorems', 'impl': lf})
            if not ans.get('b64', True):
                res.disagreements.append({'case': c, 'model': 'Base64.decode? (Base64.encode b) = some b', 'impl': 'fails in Lean'})
            mo, io = obs(ans['model']), obs(impl)
            if isinstance(impl.get('cdt'), dict) and 'err' in impl['cdt']:
                # the description did not rebuild (C03's matter): nothing of the client side is compared
                for k in CLIENT_KEYS:
                    mo[k] = io[k] = None
            if ctx.model_ok and mo != io:
                diff = [k for k in KEYS if mo[k] != io[k]]
                res.disagreements.append({'case': c, 'model': {k: mo[k] for k in diff}, 'impl': {k: io[k] for k in diff}})
            for clause in ans['judge']:
                small = c
                if (clause, t) in seen_unshrunk and (shrunk >= 12 or clause.endswith(':neg-zero-text')):
                    continue                       # the same clause on the same root kind was reported (and shrunk) already
                seen_unshrunk.add((clause, t))
                if shrunk < 60:
                    shrunk += 1
                    t0 = time.time()
                    SHRINK['deadline'] = t0 + max(0.0, shrink_budget)
                    small = shrink(ctx, c, clause)
                    shrink_budget -= time.time() - t0
                _, simpl, _ = eval_case(small)
                res.violations.append({'sig': signature(clause, small), 'what': f'{clause}: ' + describe(small, simpl),
                                       'case': small, 'detail': {'clause': clause, 'original': c if small is not c else None}})
    res.notes.append('implementation-side tests (labelled tests, not proof): emitted frames parsed by json.loads with a rejecting '
                     'parse_constant; fmt %% float(literal_eval(fmt %% x)) == fmt %% x through the leaf\'s __call__, repr/literal_eval '
                     'and base64 round trips on every leaf drawn; failures: %d' % libfails)
    return res


def replay(ctx, rp):
    case = rp['case']
    req, impl, libfail = eval_case(case)
    ans = batch_nl(ctx.driver, [req])[0]
    dt = build_dt(case['tree'], case.get('fmts', {}), case.get('units'), case.get('cls'))
    v = dtcodec.json_to_py(case['v'])
    print('datatype :', repr(dt))
    print('value    :', repr(v))
    try:
        print('to_string:', repr(dt.to_string(v)))
    except Exception as e:
        print('to_string:', type(e).__name__, e)
    model = ans.get('model', {})
    for k in KEYS:
        if k == 'cdt':
            continue
        print(f'impl  {k:7}:', json.dumps(impl.get(k), ensure_ascii=False))
        print(f'model {k:7}:', json.dumps(model.get(k), ensure_ascii=False))
    print('valid/canon/complete:', ans.get('valid'), ans.get('canon'), ans.get('complete'))
    print('library tests failed:', libfail)
    print('judge    :', ans.get('judge'), '' if ans.get('wf') else '(tree not WF)')
    agree = obs(model) == obs(impl)
    print('model == implementation:', agree)
    if rp.get('kind') == 'no-failing-input-found':
        return 0 if agree and not libfail else 1
    return 1 if ans.get('judge') else 0
