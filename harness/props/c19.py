"""C19 — Discovery responder: bounded well-formed answers, unkillable by datagrams.

The real `UDPListener` is constructed with its socket replaced by a scripted fake (`recvfrom` hands out the
datagrams of the case and finally raises `socket.error`, `sendto` records) and `run()` is executed in a thread.
Observed: the listener's attributes after construction, the bytes of every datagram sent, grouped by the
received datagram that caused them, and whether the loop was still there for the next datagram.
Everything is judged in Lean (`judge_listener`, `judge_run`); Python only runs the code and canonicalises.
"""
import json
import os
import socket as real_socket
import threading

from check import Result
from vlib.shrink import ddmin
from props import c19_server

META = {
    'level_text': 'Theorems for all equipment ids, versions, descriptions, interface lists and all datagram sequences: '
                  'message_le_508, truncation_on_char_boundary (+ description_kept_when_it_fits, truncation_minimal), '
                  'message_fields (the Spec\'s own UTF-8 decoder and JSON reader recover exactly the identity, the port and the '
                  'description sent from the produced bytes), disabled_iff_identity_too_long, answers_iff_discover, '
                  'responder_total, unreachable_sender_survived, later_requests_answered (for every send oracle: a request whose '
                  'sender cannot be answered - sendto raises, e.g. source port 0 - sends nothing and does not end the loop), '
                  'run_satisfies_spec (the whole run meets the monitor `RunOK`), announced_ports_are_served (every '
                  'round of every run of Server.run, any restarts and start failures: announceable ports were bound by TCP '
                  'interfaces started in that round), one_responder_per_round.  The model is tied to '
                  'frappy/protocol/discovery.py by regenerated tables (limit, recvfrom size, message skeleton, except clause) and a '
                  'byte-for-byte correspondence run on the real UDPListener; the Lean monitors judge every implementation trace.',
    'level_note': 'Trusted: Lean kernel + axioms propext/Classical.choice/Quot.sound; json.loads / bytes.decode / json.dumps of the '
                  'standard library are modelled (json.dumps byte-for-byte checked on every case), not verified; which datagrams '
                  'are JSON objects is taken from json.loads of the running interpreter.',
    'trusted': [
        'json.loads(bytes.decode("utf-8")) raises only UnicodeDecodeError, json.JSONDecodeError or another ValueError on datagrams '
        'of at most 1024 bytes (checked on every generated datagram; RecursionError is not reachable at this size on CPython 3.12)',
        'the decision "this datagram is a JSON object with member SECoP" is json.loads\' (the Lean side receives the decoded shape)',
        'socket.sendto to a sender either fails at the first message of the batch or not at all (the send oracle sendOk is a '
        'function of the address); the start-up broadcast to 255.255.255.255 does not raise',
        'TCP ports are at most 65535 (hypothesis of message_le_508: a port the node really listens on)',
    ],
    'modelled_not_verified': [
        'json.dumps(dict, ensure_ascii=False, separators=(",", ":")) — string escaping, key order, integer formatting',
        'str.encode("utf-8") / bytes.decode("utf-8")',
        'json.loads',
        'socket.recvfrom truncating a datagram to the buffer size',
        'Server.run: the 12 s start-up timeout (an interface coming up later is not announced), thread scheduling of the '
        'interface threads (order and outcome of the start attempts are oracles), TCPServer / socketserver binding',
    ],
    'assumptions': [
        'equipment id, version and description are str without lone surrogates (those cannot be encoded to UTF-8 at all)',
        'interface strings have the form <scheme>://<decimal port> with scheme in Server.INTERFACES',
    ],
}

VALID = b'{"SECoP":"discover"}'
WHOLE_UP_TO = 1024      # Spec.wholeUpTo


# ----------------------------------------------------------------------------------------
# the real code on a fake socket
# ----------------------------------------------------------------------------------------
class HarnessTimeout(Exception):
    pass


class FakeSock:
    def __init__(self):
        self.script = []          # [(bytes, addr)]
        self.pos = 0              # datagrams handed out
        self.announce = []
        self.per_dg = []          # sends after datagram i was handed out
        self.bufsizes = set()

    def setsockopt(self, *a):
        pass

    def bind(self, a):
        pass

    def close(self):
        pass

    def shutdown(self, *a):
        pass

    def recvfrom(self, n):
        self.bufsizes.add(n)
        if self.pos >= len(self.script):
            self.pos = len(self.script) + 1       # the loop came back after the last datagram
            raise real_socket.error('script ended')
        dg, addr = self.script[self.pos]
        self.pos += 1
        self.per_dg.append([])
        return dg[:n], addr

    def sendto(self, msg, addr):
        if addr[1] == 0:
            # what the operating system does for a datagram that came with source port 0
            raise OSError(22, 'Invalid argument')
        if isinstance(msg, str):
            raise TypeError('a bytes-like object is required, not str')      # as the real socket
        (self.per_dg[-1] if self.per_dg else self.announce).append((bytes(msg), addr))
        return len(msg)


class SockMod:
    """stands in for the `socket` module inside frappy.protocol.discovery"""

    def __init__(self):
        self.last = None

    def __getattr__(self, name):
        return getattr(real_socket, name)

    def socket(self, *a, **kw):
        self.last = FakeSock()
        return self.last


class Log:
    def __getattr__(self, name):
        return lambda *a, **kw: None

    def getChild(self, name):
        return self


UNREACHABLE_FROM = 200     # sender indices from here on stand for senders that cannot be answered (source port 0)


def addr_of(i):
    if i >= UNREACHABLE_FROM:
        return ('10.0.1.%d' % (i % 250 + 1), 0)
    return ('10.0.0.%d' % (i % 250 + 1), 40000 + i)


def cps(s):
    return [ord(c) if not 0xD800 <= ord(c) < 0xE000 else 0 for c in s]


def split_iface(iface):
    scheme, _, rest = iface.partition('://')
    return [cps(scheme), int(rest)]


def impl_run(case):
    """case: {id, version, desc, ifaces, startup, dgs: [[hex, addr]]} -> observation dict"""
    import frappy.protocol.discovery as D
    sm = SockMod()
    saved = D.socket, D.get_version
    D.socket = sm
    D.get_version = lambda *a, **kw: case['version']
    obs = {}
    try:
        try:
            u = D.UDPListener(case['id'], case['desc'], list(case['ifaces']), Log(), startup_broadcast=case['startup'])
        except Exception as e:       # construction itself fails
            return {'construct_error': type(e).__name__}
        sock = sm.last
        obs['enabled'] = bool(u.is_enabled)
        obs['desc'] = u.description
        obs['fw'] = u.firmware
        obs['ports'] = list(u.ports)
        try:
            def as_bytes(m):       # what goes out is bytes; a text is what its UTF-8 encoding would put on the wire
                return m.encode('utf-8') if isinstance(m, str) else bytes(m)
            obs['messages'] = [list(as_bytes(u._getMessage(p))) for p in u.ports]
            obs['budget_message'] = list(as_bytes(u._getMessage(2 ** 16 - 1)))
        except Exception as e:
            return {'construct_error': 'getMessage:' + type(e).__name__}
        addrs = {}
        for hx, a in case['dgs']:
            addrs[addr_of(a)] = a
            sock.script.append((bytes.fromhex(hx), addr_of(a)))
        died = [None]

        def target():
            try:
                u.run()
            except BaseException as e:    # the thread would end here
                died[0] = type(e).__name__
        th = threading.Thread(target=target, daemon=True)
        th.start()
        th.join(10)
        if th.is_alive():
            raise HarnessTimeout('UDPListener.run did not return on a finite script')
        bcast = ('255.255.255.255', D.UDP_PORT)

        def canon(sends):
            return [{'payload': list(m), 'dest': None if a == bcast else addrs.get(a, 9999)} for m, a in sends]
        obs['announce'] = canon(sock.announce)
        n_done = len(sock.per_dg) - (1 if died[0] else 0)      # datagrams completely processed
        obs['steps'] = [canon(s) for s in sock.per_dg[:n_done]]
        obs['died'] = died[0]
        if died[0] and sock.per_dg:
            obs['partial'] = canon(sock.per_dg[-1])
        obs['bufsize'] = sorted(sock.bufsizes)
        return obs
    finally:
        D.socket, D.get_version = saved


def decode_oracle(dg, bufsize):
    """what json.loads(msg.decode('utf-8')) does with the bytes recvfrom returns, canonicalised"""
    try:
        v = json.loads(dg[:bufsize].decode('utf-8'))
    except UnicodeDecodeError:
        return {'err': 'UnicodeDecodeError'}
    except json.JSONDecodeError:
        return {'err': 'JSONDecodeError'}
    except ValueError:
        return {'err': 'ValueError'}
    except RecursionError:
        return {'err': 'RecursionError'}
    except Exception as e:
        return {'err': type(e).__name__}
    if v is None:
        return {'top': 'null'}
    if isinstance(v, bool):
        return {'top': 'bool'}
    if isinstance(v, (int, float)):
        return {'top': 'num'}
    if isinstance(v, str):
        return {'top': 'str'}
    if isinstance(v, list):
        return {'top': 'arr'}
    return {'obj': [[cps(k), cps(val) if isinstance(val, str) else None] for k, val in v.items()]}


def node_json(case):
    return {'id': cps(case['id']), 'version': cps(case['version']), 'desc': cps(case['desc'] or ''),
            'ifaces': [split_iface(i) for i in case['ifaces']]}


def requests_for(case, obs, bufsize):
    """the four driver lines of one case"""
    base = {'p': 'C19', 'id': cps(case['id']), 'version': cps(case['version']),
            'desc': None if case['desc'] is None else cps(case['desc']),
            'ifaces': [split_iface(i) for i in case['ifaces']]}
    # the model decodes what the implementation's recvfrom(bufsize) hands over; the Spec judges what a responder
    # that receives datagrams of up to 1024 bytes whole (Spec.wholeUpTo) sees
    mdecs = [decode_oracle(bytes.fromhex(hx), bufsize) for hx, _ in case['dgs']]
    decs = [decode_oracle(bytes.fromhex(hx), max(WHOLE_UP_TO, bufsize)) for hx, _ in case['dgs']]
    events = [{'dg': list(bytes.fromhex(hx)), 'addr': a, 'dec': d} for (hx, a), d in zip(case['dgs'], mdecs)]
    node = dict(node_json(case), p='C19')
    received = [{'addr': a, 'dec': d} for (_, a), d in zip(case['dgs'], decs)]
    steps = [{'addr': r['addr'], 'dec': r['dec'], 'sends': s} for r, s in zip(received, obs['steps'])]
    unreachable = sorted({a for _, a in case['dgs'] if a >= UNREACHABLE_FROM})
    return [
        dict(base, k='construct'),
        dict(node, k='judge_listener', enabled=obs['enabled'], sent_desc=cps(obs['desc'])),
        dict(base, k='run', startup=case['startup'], events=events, unreachable=unreachable),
        dict(node, k='judge_run', startup=case['startup'], received=received, announce=obs['announce'], steps=steps,
             unreachable=unreachable),
    ], decs


def impl_obs_run(obs):
    return {'announce': obs['announce'], 'outcomes': obs['steps'] + (['died'] if obs['died'] else [])}


def model_obs_run(ans):
    outs = []
    for o in ans['outcomes']:
        if o == 'ignored':
            outs.append([])
        elif o == 'unanswerable':
            outs.append([])
        elif o == 'died':
            outs.append('died')
        else:
            outs.append(o['answered'])
    return {'announce': ans['announce'], 'outcomes': outs}


def impl_obs_construct(obs):
    return {'enabled': obs['enabled'], 'fw': cps(obs['fw']), 'ports': obs['ports'],
            'desc': cps(obs['desc']) if obs['enabled'] else None,
            'messages': obs['messages'] if obs['enabled'] else None,
            'budget_message': obs['budget_message'] if obs['enabled'] else None}


def model_obs_construct(ans):
    en = ans['enabled']
    return {'enabled': en, 'fw': ans['fw'], 'ports': ans['ports'], 'desc': ans['desc'] if en else None,
            'messages': ans['messages'] if en else None, 'budget_message': ans['budget_message'] if en else None}


def evaluate(ctx, case):
    """runs one case on the implementation and on the Lean side.
    returns (obs, verdicts) with verdicts = {'listener': ans, 'run': ans, 'model_construct', 'model_run', 'decs'}"""
    obs = impl_run(case)
    if 'construct_error' in obs:
        return obs, None
    bufsize = obs['bufsize'][0] if len(obs['bufsize']) == 1 else 1024
    reqs, decs = requests_for(case, obs, bufsize)
    a = ctx.driver.batch(reqs)
    for x in a:
        if 'driver_error' in x:
            raise RuntimeError(f'driver error: {x}')
    return obs, {'model_construct': a[0], 'listener': a[1], 'model_run': a[2], 'run': a[3], 'decs': decs}


def signatures(obs, v):
    """violation signatures of one evaluated case (from the Lean verdicts only)"""
    sigs = []
    if not v['listener']['ok']:
        if not v['listener']['enabled_iff_fits']:
            sigs.append('C19:listener:' + ('enabled-although-identity-too-long' if obs['enabled']
                                           else 'disabled-although-identity-fits'))
        else:
            sigs.append('C19:listener:description-rule')
    if not v['run']['ok']:
        sigs.append('C19:run:' + str(v['run']['why']))
    return sigs


# ----------------------------------------------------------------------------------------
# generators
# ----------------------------------------------------------------------------------------
CLASSES = {
    'ascii': 'a', 'two-byte': '\u00e9', 'three-byte': '\u20ac', 'four-byte': '\U0001f604', 'quote': '"', 'backslash': '\\',
    'control-u': '\x01', 'control-short': '\n', 'del': '\x7f', 'nul': '\x00', 'bs-ff': '\x08', 'u-001f': '\x1f',
    'u-0080': '\x80', 'u-07ff': '\u07ff', 'u-0800': '\u0800', 'u-ffff': '\uffff', 'u-10000': '\U00010000',
    'u-10ffff': '\U0010ffff', 'u-d7ff': '\ud7ff', 'u-e000': '\ue000', 'slash': '/', 'u-2028': '\u2028',
}
ALPHABET = list(CLASSES.values()) + list('abcXYZ 019_-.:;{}[],') + ['\r', '\t', '\x0c', '\x1e', '\u00df', '\u4e2d', '\U0001f600']


def enc_len(s):
    return len(json.dumps(s, ensure_ascii=False).encode('utf-8')) - 2


def frame_len(id_, version):
    """length of a message with empty description and a five-digit port (Python only sizes the *inputs* here)"""
    return 78 + enc_len(id_) + enc_len('FRAPPY ' + version)


def boundary_listeners(limit=508, spread=8):
    """every length from limit-8 to limit+8 per character class, for the description and for the identity"""
    out = []
    for name, ch in CLASSES.items():
        k = enc_len(ch)
        for id_, version in (('eq', '1.2.3'), ('n\u00f6"de\\\x02', 'v"9')):
            base = frame_len(id_, version)
            lo = max(0, (limit - spread - base) // k - 1)
            hi = (limit + spread - base) // k + 2
            for n in range(lo, hi + 1):
                out.append(('desc-boundary:' + name, {'id': id_, 'version': version, 'desc': ch * n}))
            # a one-byte character in front shifts the cut inside a multi-byte character
            for n in range(lo, hi + 1, max(1, (hi - lo) // 6)):
                out.append(('desc-boundary-shifted:' + name, {'id': id_, 'version': version, 'desc': 'x' + ch * n}))
        base = frame_len('', '1.2.3')
        lo = max(0, (limit - spread - base) // k - 1)
        hi = (limit + spread - base) // k + 2
        for n in range(lo, hi + 1):
            for desc in ('', 'd', None):
                out.append(('id-boundary:' + name, {'id': ch * n, 'version': '1.2.3', 'desc': desc}))
        for n in range(lo, hi + 1, 3):
            out.append(('version-boundary:' + name, {'id': '', 'version': ch * max(0, n - 4), 'desc': 'some text'}))
    return out


def rand_str(rng, maxlen):
    r = rng.random()
    n = rng.choice([0, 1, 2, 5, 17]) if r < 0.3 else rng.randint(0, maxlen)
    if rng.random() < 0.4:
        alpha = [rng.choice(ALPHABET) for _ in range(rng.randint(1, 3))]
    else:
        alpha = ALPHABET
    return ''.join(rng.choice(alpha) for _ in range(n))


def rand_ifaces(rng):
    r = rng.random()
    if r < 0.35:
        return ['tcp://%d' % rng.choice([10767, 1, 65535, 0, 2204, 80])]
    n = rng.randint(0, 4)
    out = []
    for _ in range(n):
        scheme = rng.choice(['tcp', 'tcp', 'ws'])
        out.append('%s://%d' % (scheme, rng.choice([10767, 10768, 1, 65535, 0, 8080, 443, 99, 5000])))
    return out


def rand_listener(rng):
    r = rng.random()
    if r < 0.5:       # identity small, description around/over the limit
        id_ = rand_str(rng, 40)
        desc = rand_str(rng, 700)
    elif r < 0.8:     # identity around the limit
        id_ = rand_str(rng, 520)
        desc = rand_str(rng, 30)
    else:
        id_ = rand_str(rng, 300)
        desc = rand_str(rng, 300)
    if rng.random() < 0.05:
        desc = None
    return {'id': id_, 'version': rng.choice(['1.2.3', '0.0.0', '', 'v2024.01-3-gabc"def', rand_str(rng, 30)]), 'desc': desc}


def pad(b, n, fill=b' '):
    return b + fill * max(0, n - len(b))


def hostile_catalogue():
    big_obj = b'{"SECoP":"discover","x":"' + b'y' * 2000 + b'"}'
    return [
        ('empty', b''), ('invalid-utf8', b'\xff\xfe'), ('invalid-utf8-in-json', b'{"SECoP":"disc\xffover"}'),
        ('truncated-utf8', b'"\xe2\x82'), ('overlong-utf8', b'\xc0\xaf'), ('surrogate-utf8', b'"\xed\xa0\x80"'),
        ('utf8-bom', b'\xef\xbb\xbf' + VALID), ('utf16', VALID.decode().encode('utf-16')),
        ('number', b'5'), ('float', b'1.5e3'), ('nan', b'NaN'), ('neg-inf', b'-Infinity'), ('null', b'null'), ('true', b'true'),
        ('string-SECoP', b'"SECoP"'), ('string', b'"discover"'), ('array', b'[1]'), ('array-SECoP', b'["SECoP"]'),
        ('array-of-request', b'[' + VALID + b']'), ('empty-object', b'{}'), ('other-key', b'{"secop":"discover"}'),
        ('other-value', b'{"SECoP":"Discover"}'), ('value-node', b'{"SECoP":"node","port":1}'), ('value-list', b'{"SECoP":["discover"]}'),
        ('value-null', b'{"SECoP":null}'), ('value-number', b'{"SECoP":1}'), ('value-object', b'{"SECoP":{"SECoP":"discover"}}'),
        ('nested-request', b'{"x":' + VALID + b'}'), ('dup-key-last-other', b'{"SECoP":"discover","SECoP":"x"}'),
        ('garbage', b'SECoP discover'), ('two-values', VALID + VALID), ('trailing-garbage', VALID + b'x'),
        ('unterminated', b'{"SECoP":"discover"'), ('nul-bytes', b'\x00' * 20), ('lone-surrogate-escape', b'{"SECoP":"\\ud800"}'),
        ('1024-nested-open', b'[' * 1024), ('deep-array', b'[' * 512 + b']' * 512), ('deep-object', b'{"a":' * 170 + b'1' + b'}' * 170),
        ('deep-array-request-inside', b'[' * 500 + VALID + b']' * 500),
        ('1024-garbage', b'x' * 1024), ('1024-digits', b'9' * 1024), ('2000-bytes-request-cut', big_obj),
        ('1025-cut-brace', pad(b'{"SECoP":"discover","pad":"', 1023, b'p') + b'"}'),
        ('huge', b'\xff' * 4000),
        # deeply nested AND oversized: harmless only as long as the responder looks at a bounded part of a datagram
        # (nesting beyond the interpreter's recursion limit makes json.loads raise RecursionError, not a ValueError)
        ('2000-nested-open', b'[' * 2000), ('5000-nested-array', b'[' * 5000 + b']' * 5000),
        ('30000-nested-open', b'[' * 30000), ('3000-nested-object', b'{"a":' * 3000 + b'1' + b'}' * 3000),
        ('60000-nested-request-inside', b'[' * 30000 + VALID + b']' * 29000),
    ]


def request_catalogue():
    return [
        ('plain', VALID), ('spaces', b' { "SECoP" : "discover" } \n'), ('extra-members', b'{"a":[1,{"b":null}],"SECoP":"discover","z":1.5}'),
        ('escaped-key', b'{"\\u0053ECoP":"discover"}'), ('escaped-value', b'{"SECoP":"\\u0064iscover"}'),
        ('dup-key-last-discover', b'{"SECoP":"x","SECoP":"discover"}'),
        ('1024-padded', pad(VALID, 1024)), ('1500-padded-cut-in-whitespace', pad(VALID, 1500)),
        ('nan-member', b'{"SECoP":"discover","v":NaN}'), ('unicode-member', '{"SECoP":"discover","d":"\u00e9\U0001f604"}'.encode()),
        ('1024-exact', b'{"SECoP":"discover","pad":"' + b'p' * (1024 - 29) + b'"}'),
    ]


def rand_datagram(rng):
    r = rng.random()
    if r < 0.3:
        return 'random-bytes', bytes(rng.randrange(256) for _ in range(rng.choice([1, 2, 3, 8, 20, 60, 1024, 1100])))
    if r < 0.6:       # a request with a few bytes damaged
        b = bytearray(rng.choice(request_catalogue())[1])
        for _ in range(rng.randint(1, 3)):
            i = rng.randrange(len(b))
            op = rng.random()
            if op < 0.4:
                b[i] = rng.randrange(256)
            elif op < 0.7:
                del b[i]
            else:
                b.insert(i, rng.choice(b'"{}:,\\\xc3 '))
            if not b:
                b = bytearray(b'x')
        return 'damaged-request', bytes(b)
    if r < 0.8:       # some JSON value
        v = rng.choice([None, True, 0, -1, 1.5, 'discover', 'SECoP', [], ['SECoP', 'discover'], {}, {'SECoP': None},
                        {'SECoP': 'discove'}, {'SECoP': 'discover '}, {'SECOP': 'discover'}, {'SECoP': 'discover', 'port': 1},
                        {'discover': 'SECoP'}, [[{'SECoP': 'discover'}]], {'SECoP': 'd\u00efscover'}])
        return 'json-value', json.dumps(v, ensure_ascii=rng.random() < 0.5).encode('utf-8')
    text = ''.join(rng.choice(ALPHABET) for _ in range(rng.randint(0, 30)))
    return 'utf8-text', text.encode('utf-8')


def rand_sequence(rng, big):
    hostile = hostile_catalogue()
    reqs = request_catalogue()
    out = []
    n = rng.choice([1, 2, 3, 5, 8] + ([20] if big else []))
    for _ in range(n):
        r = rng.random()
        if r < 0.3:
            kind, dg = rng.choice(reqs)
            kind = 'request:' + kind
        elif r < 0.65:
            kind, dg = rng.choice(hostile)
            kind = 'hostile:' + kind
        else:
            kind, dg = rand_datagram(rng)
        sender = rng.randint(1, 4) if rng.random() < 0.85 else rng.choice([200, 201])     # some cannot be answered
        out.append((kind + (':unanswerable-sender' if sender >= UNREACHABLE_FROM else ''), dg, sender))
    out.append(('request:final', VALID, rng.randint(1, 4)))      # liveness: a request after everything else
    return out


def mk_case(listener, ifaces, startup, seq):
    return {'id': listener['id'], 'version': listener['version'], 'desc': listener['desc'], 'ifaces': ifaces,
            'startup': startup, 'dgs': [[dg.hex(), a] for _, dg, a in seq]}


def generate_cases(ctx):
    rng = ctx.rng
    big = ctx.tier == 'thorough' or ctx.escalated
    cases = []      # (label, kinds, case)
    std_ifaces = ['tcp://10767']
    # 1. every catalogue datagram alone, followed by a request, on a plain listener
    plain = {'id': 'eq_id', 'version': '1.2.3', 'desc': 'a description'}
    for kind, dg in hostile_catalogue():
        seq = [('hostile:' + kind, dg, 1), ('request:final', VALID, 2)]
        cases.append(('catalogue', [s[0] for s in seq], mk_case(plain, ['tcp://10767', 'ws://8080', 'tcp://10768'], False, seq)))
    for kind, dg in request_catalogue():
        seq = [('request:' + kind, dg, 3), ('request:final', VALID, 2)]
        cases.append(('catalogue', [s[0] for s in seq], mk_case(plain, std_ifaces, True, seq)))
    # 2. boundary listeners, each with a short datagram sequence
    short = [('hostile:invalid-utf8', b'\xff\xfe', 1), ('hostile:number', b'5', 1), ('request:final', VALID, 2)]
    bl = boundary_listeners()
    step = 1 if big else 2
    offset = rng.randrange(step)
    for i, (label, lst) in enumerate(bl):
        if i % step != offset and not label.startswith('desc-boundary:'):
            continue
        seq = short if i % 5 == 0 else [('request:final', VALID, 2)]
        cases.append((label.split(':')[0], [s[0] for s in seq],
                      mk_case(lst, std_ifaces if i % 3 else ['tcp://65535', 'tcp://0'], i % 7 == 0, seq)))
    # 3. random listeners x random sequences
    for _ in range(ctx.budget(500, 25000)):
        seq = rand_sequence(rng, big)
        cases.append(('random', [s[0] for s in seq], mk_case(rand_listener(rng), rand_ifaces(rng), rng.random() < 0.5, seq)))
    return cases


# ----------------------------------------------------------------------------------------
def shrink_case(ctx, case, sig):
    """smaller case with the same signature: fewer datagrams, shorter strings"""
    def still(c):
        try:
            obs, v = evaluate(ctx, c)
        except HarnessTimeout:
            return False
        return v is not None and sig in signatures(obs, v)
    cur = dict(case)
    if len(cur['dgs']) > 1:
        cur['dgs'] = ddmin(cur['dgs'], lambda d: still(dict(cur, dgs=d)), max_tests=60)
    if sig.startswith('C19:run:'):
        # replace the listener by a plain one if the failure does not depend on it
        plain = dict(cur, id='eq', version='1.2.3', desc='d', ifaces=['tcp://10767'])
        if still(plain):
            cur = plain
    for key in ('desc', 'id'):
        s = cur.get(key)
        if s and len(s) > 1:
            small = ddmin(list(s), lambda chars, key=key: still(dict(cur, **{key: ''.join(chars)})), max_tests=120)
            cur[key] = ''.join(small)
    return cur


def describe(case, obs, v):
    sends = [len(s['payload']) for st in obs['steps'] for s in st] + [len(s['payload']) for s in obs['announce']]
    return (f'id={case["id"][:20]!r}(len {len(case["id"])}) desc={str(case["desc"])[:20]!r}(len {len(case["desc"] or "")}) '
            f'ifaces={case["ifaces"]} startup={case["startup"]} datagrams={[bytes.fromhex(h)[:24] for h, _ in case["dgs"]]} -> '
            f'enabled={obs["enabled"]} sent_desc_len={len(obs["desc"])} died={obs["died"]} message_lengths={sends[:6]} '
            f'listener={v["listener"]} run={v["run"]}')


# ----------------------------------------------------------------------------------------
# the server part: real Server.run() with restarts and bind failures (see c19_server.py)
# ----------------------------------------------------------------------------------------
SERVER_CATALOGUE = [
    {'ifaces': ['free', 'free'], 'rounds': [[], [1], []]},            # a port is taken during the restart, later free again
    {'ifaces': ['free', 'free', 'free'], 'rounds': [[2], [0], [1, 2]]},
    {'ifaces': ['free', 'zero'], 'rounds': [[], [0]]},                # tcp://0: the system chooses the port
    # before the probes of each round a request with source port 0 arrives over the real socket (it cannot be answered)
    {'ifaces': ['free', 'free'], 'rounds': [[], []], 'spoof': True},
]


def gen_server_case(rng):
    n = rng.choice([2, 2, 3])
    kinds = ['free'] * n
    if rng.random() < 0.3:
        kinds[rng.randrange(n)] = 'zero'
    rounds = []
    for _ in range(rng.choice([2, 3, 3, 4])):
        blocked = [i for i in range(n) if kinds[i] == 'free' and rng.random() < 0.4]
        if len(blocked) == n:
            blocked.pop(rng.randrange(len(blocked)))
        rounds.append(blocked)
    return {'ifaces': kinds, 'rounds': rounds}


def server_requests(obs):
    """driver lines for one server run: the model of the rounds, and one judgement per round"""
    rounds = []
    for r in obs['rounds']:
        if r.get('ended'):
            rounds.append([[[cps(s), p], None] for s, p in r['configured']])
            continue
        started = [[[cps(s), p], b] for s, p, b in r['reported']]
        rep = {(s, p) for s, p, _ in r['reported']}
        failed = [[[cps(s), p], None] for s, p in r['configured'] if (s, p) not in rep]
        rounds.append(started + failed)
    reqs = [{'p': 'C19', 'k': 'server_rounds', 'id': cps(c19_server.EQ_ID), 'version': cps('v0.0.0-c19'),
             'desc': cps('server part of C19'), 'rounds': rounds}]
    for r in obs['rounds']:
        if r.get('ended'):
            continue
        reqs.append({'p': 'C19', 'k': 'judge_server_round', 'served': r['served'], 'listener': r['listener'],
                     'answers': r['answers'] or [], 'answered': r['answers'] is not None,
                     'live': [p for l in r['live'] for p in l]})
    return reqs


def evaluate_server(ctx, case):
    obs = c19_server.impl_server({'ifaces': case['ifaces'], 'rounds': case['rounds'], 'spoof': case.get('spoof', False)})
    ans = ctx.driver.batch(server_requests(obs))
    for x in ans:
        if 'driver_error' in x:
            raise RuntimeError(f'driver error: {x}')
    live_rounds = [r for r in obs['rounds'] if not r.get('ended')]
    model = ans[0]['rounds']
    impl_view = [{'interfaces': [[cps(s), p, b] for s, p, b in r['reported']], 'live': r['live']} for r in live_rounds]
    model_view = [{'interfaces': m['interfaces'], 'live': m['live']} for m in model[:len(live_rounds)]]
    verdicts = ans[1:]
    sigs = []
    for i, v in enumerate(verdicts):
        if not v['ok']:
            sigs.append(('C19:server:' + v['why'], i))
    return obs, {'model': model_view, 'impl': impl_view, 'verdicts': verdicts, 'sigs': sigs}


def describe_server(case, obs, i):
    r = [x for x in obs['rounds'] if not x.get('ended')][i]
    return (f'Server.run with interfaces {[p for _, p in r["configured"]]}, round {i} (ports of interfaces {r["blocked"]} taken by '
            f'somebody else): served={r["served"]} server.interfaces={[[p, b] for _, p, b in r["reported"]]} '
            f'responder of this round announces {r["listener"]}, responders running {r["live"]}, ports in UDP answers '
            f'{sorted(set(r["answers"] or []))}')


def run_server_part(ctx, res):
    cases = []
    cdir = os.path.join(ctx.verif, 'corpus', 'C19')
    if os.path.isdir(cdir):
        for fn in sorted(os.listdir(cdir)):
            c = json.load(open(os.path.join(cdir, fn)))
            if c['case'].get('kind') == 'server':
                cases.append(c['case'])
    cases += [dict(c, kind='server') for c in SERVER_CATALOGUE]
    for _ in range(ctx.budget(1, 14)):
        cases.append(dict(gen_server_case(ctx.rng), kind='server'))
    seen = set()
    for case in cases:
        key = json.dumps(case, sort_keys=True)
        if key in seen:
            continue
        seen.add(key)
        obs, v = evaluate_server(ctx, case)
        res.evaluations += 1
        res.traces += len(v['verdicts'])
        res.count('server.runs')
        res.count('server.rounds', len(v['verdicts']))
        res.count('server.rounds.with-unanswerable-request-over-raw-socket', sum(1 for r in obs['rounds'] if r.get('spoofed')))
        for r in obs['rounds']:
            if not r.get('ended'):
                res.count('server.round.failed-starts=%d' % (len(r['configured']) - len(r['reported'])))
        if any(len(r['configured']) > len(r.get('reported', [])) for r in obs['rounds'][1:] if not r.get('ended')):
            res.nontriv(case)
        if not any(s.get('kind') == 'server' for s in res.samples):
            res.samples.append({'kind': 'server', 'case': case,
                                'rounds': [{k: r.get(k) for k in ('blocked', 'served', 'listener', 'live')} for r in obs['rounds']]})
        if ctx.model_ok and v['model'] != v['impl']:
            res.disagreements.append({'case': case, 'what': 'server rounds', 'model': v['model'], 'impl': v['impl']})
        for sig, i in v['sigs'][:1]:
            small = dict(case, rounds=case['rounds'][:i + 1])       # the rounds up to the failing one
            res.violations.append({'sig': sig, 'what': sig + ': ' + describe_server(case, obs, i), 'case': small,
                                   'detail': {'original_case': case, 'round': i}})


def run(ctx):
    res = Result()
    res.rule = ('listener x datagram sequence on the real UDPListener (fake socket).  Listeners: per character class (ASCII, 2/3/4-byte, '
                'quote, backslash, short and \\u00XX control escapes, DEL, plane boundaries) every length that puts the message between '
                'limit-8 and limit+8 bytes, for the description, the equipment id and the version; random mixed strings.  Datagrams: '
                'catalogue of requests (plain, spaced, escaped, duplicate keys, padded to 1024 and beyond) and hostile ones (invalid/'
                'truncated/overlong UTF-8, BOM, UTF-16, every JSON kind, nested 512 deep, 1024..4000 bytes), random bytes, damaged '
                'requests; every sequence ends with a valid request.  non-trivial = the responder is enabled and the case has a '
                'truncated non-empty description, or an ignored non-request followed by an answered request.  Server part: the real '
                'Server.run() in a thread with 2-3 loopback tcp interfaces (free ports, also tcp://0), 2-4 rounds with scripted '
                'restarts, ports taken by somebody else in restart_hook; per round the ports served (connect + *IDN?), '
                'server.interfaces, the responder\'s ports, the responders still running and the ports in answers over loopback UDP '
                'are judged (announced subset of served); non-trivial = an interface failed to start in a round after a restart')
    # corpus first
    cases = []
    cdir = os.path.join(ctx.verif, 'corpus', 'C19')
    if os.path.isdir(cdir):
        for fn in sorted(os.listdir(cdir)):
            c = json.load(open(os.path.join(cdir, fn)))
            if c['case'].get('kind') != 'server':
                cases.append(('corpus', [], c['case']))
    cases += generate_cases(ctx)

    # the implementation, then one driver batch
    reqs, meta = [], []
    for label, kinds, case in cases:
        obs = impl_run(case)
        res.evaluations += 1
        res.count('listener.' + label)
        if 'construct_error' in obs:
            res.violations.append({'sig': 'C19:construct-raises:' + obs['construct_error'],
                                   'what': f'UDPListener(...) raised {obs["construct_error"]}', 'case': case})
            continue
        bufsize = obs['bufsize'][0] if len(obs['bufsize']) == 1 else 1024
        r, decs = requests_for(case, obs, bufsize)
        reqs += r
        meta.append((label, kinds, case, obs, decs))
    answers = ctx.driver.batch(reqs, timeout=1500)
    shrunk = {}
    exc_classes = set()
    for j, (label, kinds, case, obs, decs) in enumerate(meta):
        a = answers[4 * j: 4 * j + 4]
        for x in a:
            if 'driver_error' in x:
                raise RuntimeError(f'driver error: {x} on {json.dumps(case)[:400]}')
        v = {'model_construct': a[0], 'listener': a[1], 'model_run': a[2], 'run': a[3], 'decs': decs}
        res.traces += 1
        # distribution
        res.count('enabled' if obs['enabled'] else 'disabled')
        full = case['desc'] or ''
        if obs['enabled']:
            res.count('description.' + ('kept' if obs['desc'] == full else 'cut-to-empty' if not obs['desc'] else 'truncated'))
        for kd in kinds:
            res.count('datagram.' + kd.split(':')[0])
        for d in decs:
            res.count('decode.' + (d.get('err') or ('object' if 'obj' in d else d['top'])))
            if 'err' in d:
                exc_classes.add(d['err'])
        answered = sum(1 for s in obs['steps'] if s)
        ignored = sum(1 for s in obs['steps'] if not s)
        if obs['enabled'] and ((obs['desc'] and obs['desc'] != full) or (answered and ignored)):
            res.nontriv(case)
        if len(res.samples) < 5 and obs['enabled'] and obs['desc'] and obs['desc'] != full and len(case['id']) < 12:
            res.samples.append({'id': case['id'], 'description_chars': len(full), 'sent_chars': len(obs['desc']),
                                'message_bytes': [len(m) for m in obs['messages']],
                                'datagrams': [bytes.fromhex(h)[:30].decode('latin-1') for h, _ in case['dgs']],
                                'answers': [len(s) for s in obs['steps']]})
        # correspondence
        if ctx.model_ok:
            mc, ic = model_obs_construct(v['model_construct']), impl_obs_construct(obs)
            if mc != ic:
                diff = [k for k in ic if ic[k] != mc.get(k)]
                res.disagreements.append({'case': case, 'what': 'construct:' + ','.join(diff),
                                          'model': {k: mc.get(k) for k in diff}, 'impl': {k: ic[k] for k in diff}})
            mr, ir = model_obs_run(v['model_run']), impl_obs_run(obs)
            if mr != ir:
                res.disagreements.append({'case': case, 'what': 'run',
                                          'model': [o if o == 'died' else len(o) for o in mr['outcomes']],
                                          'impl': [o if o == 'died' else len(o) for o in ir['outcomes']]})
        # judge
        for sig in signatures(obs, v):
            if sig not in shrunk and len(shrunk) < 6:
                small = shrink_case(ctx, case, sig)
                sobs, sv = evaluate(ctx, small)
                shrunk[sig] = (small, sobs, sv)
            if sig in shrunk:
                small, sobs, sv = shrunk[sig]
            else:
                small, sobs, sv = case, obs, v
            res.violations.append({'sig': sig, 'what': sig + ': ' + describe(small, sobs, sv), 'case': small,
                                   'detail': {'original_case': case if small is not case else None}})
        if not v['listener'].get('minimal', True):
            res.count('note.truncation-cuts-more-than-needed')
    unexpected = exc_classes - {'UnicodeDecodeError', 'JSONDecodeError', 'ValueError'}
    if unexpected:
        res.notes.append(f'decoding raised classes outside the trusted list: {sorted(unexpected)}')
    res.notes.append(f'exception classes raised by the decoding of generated datagrams: {sorted(exc_classes)}')
    run_server_part(ctx, res)
    left = [t.name for t in threading.enumerate() if t is not threading.main_thread() and t.is_alive()]
    res.notes.append(f'threads alive after the server part: {left}')
    return res


def replay_server(ctx, case):
    obs, v = evaluate_server(ctx, case)
    for i, r in enumerate(x for x in obs['rounds'] if not x.get('ended')):
        print(f'round {i}   :', {k: r[k] for k in ('blocked', 'configured', 'reported', 'served', 'listener', 'live')})
        print('  answers :', sorted(set(r['answers'] or [])), '(ports named in answers over loopback UDP)')
        print('  model   :', v['model'][i] if i < len(v['model']) else None)
        print('  judge   :', v['verdicts'][i])
    print('signatures:', [s for s, _ in v['sigs']])
    return 1 if v['sigs'] else 0


def replay(ctx, rp):
    case = rp['case']
    if case.get('kind') == 'server':
        return replay_server(ctx, case)
    obs, v = evaluate(ctx, case)
    if v is None:
        print('construction raised', obs['construct_error'])
        return 1
    print('case      :', json.dumps({k: case[k] for k in ('id', 'version', 'desc', 'ifaces', 'startup')}, ensure_ascii=True)[:1500])
    for (hx, a), d in zip(case['dgs'], v['decs']):
        print('datagram  :', repr(bytes.fromhex(hx)[:60]), 'from', a, 'decodes to', json.dumps(d)[:120])
    print('impl      : enabled=%s sent description %d of %d chars, thread died with %s' %
          (obs['enabled'], len(obs['desc']), len(case['desc'] or ''), obs['died']))
    print('impl sends: announce', [len(s['payload']) for s in obs['announce']], 'per datagram',
          [[len(s['payload']) for s in st] for st in obs['steps']], '(bytes)')
    mr = model_obs_run(v['model_run'])
    print('model     : enabled=%s sent description %d chars; announce %s per datagram %s' %
          (v['model_construct']['enabled'], len(v['model_construct']['desc']), [len(s['payload']) for s in mr['announce']],
           [o if o == 'died' else [len(s['payload']) for s in o] for o in mr['outcomes']]))
    print('judge     : listener', v['listener'], 'run', v['run'])
    sigs = signatures(obs, v)
    print('signatures:', sigs)
    return 1 if sigs else 0
