"""C11 — Client: every caller gets its own reply or an error, under all interleavings; clean shutdown."""
import json
import os

from check import Result
from vlib import sched as vsched
from vlib import fakes
from vlib.shrink import ddmin

META = {}


# ----------------------------------------------------------------------------------------
# running one scenario on the real SecopClient
# ----------------------------------------------------------------------------------------
class PhasePolicy(vsched.Policy):
    """no preemption during the set-up phase (connect) and, when the case says `quiet_until: t`, during the first t
    virtual seconds after it (the default schedule runs; the exploration budget goes to what happens afterwards, e.g. on the
    time-out path); afterwards `inner` decides; its step index starts at 0 there"""

    def __init__(self, inner, quiet=None):
        self.inner = inner
        self.offset = None
        self.quiet = quiet
        self.sched = None
        self.threshold = None

    def start(self, sched):
        if self.quiet:
            self.sched = sched
            self.threshold = sched.now + self.quiet
        else:
            self.offset = len(sched.choices)

    def choose(self, enabled, default, step, labels):
        if self.offset is None:
            if self.threshold is None or self.sched.now < self.threshold:
                return default
            self.offset = step
        return self.inner.choose(enabled, default, step - self.offset, labels)


class HoldPolicy(vsched.Policy):
    """one long preemption: thread `name` is left alone after it has been scheduled `k` times — it stays suspended at that
    synchronisation point while all the others run, until nobody else can (then it goes on and nothing is held any more).
    The class of schedules a bounded number of preemptions does not reach: a check-then-act window that stays open while
    another thread runs a whole `disconnect()`."""

    def __init__(self, name, k):
        self.name = name
        self.k = k
        self.quanta = 0
        self.released = False

    def choose(self, enabled, default, step, labels):
        names = [t.name for t in enabled]
        if self.released or self.name not in names:
            return default
        i = names.index(self.name)
        if self.quanta < self.k:
            if default == i:
                self.quanta += 1
            return default
        others = [j for j in range(len(enabled)) if j != i]
        return default if default != i else others[0]


class PriorityPolicy(vsched.Policy):
    """strict priorities among the user-level threads: `order` lists callers / closer / 'reconnect' (the first reconnect thread,
    and every further one not listed by its own name) from high to low, every other thread (workers, main) comes before them; a thread runs only while no thread of higher
    priority can.  `drop = (cls, k)`: the first thread of that class falls behind all others after its k-th quantum — one
    priority change point.  The class of schedules in which whole activities (a request that connects anew, the end of a
    connection, a disconnect()) are ordered one after the other, with one thread stopped half way: what a bounded number
    of preemptions or one held thread does not reach when three or more activities have to be ordered."""

    def __init__(self, order, drop=None):
        self.order = list(order)
        self.drop = drop
        self.quanta = {}
        self.dropped = None

    def _cls(self, name):
        if name in self.order:
            return name
        return 'reconnect' if name.rstrip('0123456789') == 'reconnect' else name

    def _prio(self, name):
        if name == self.dropped:
            return len(self.order) + 1
        c = self._cls(name)
        return self.order.index(c) + 1 if c in self.order else 0

    def choose(self, enabled, default, step, labels):
        names = [t.name for t in enabled]
        while True:
            best = min(self._prio(n) for n in names)
            cand = [j for j, n in enumerate(names) if self._prio(n) == best]
            c = default if default in cand else cand[0]
            n = names[c]
            if self.drop and self.dropped is None and self._cls(n) == self.drop[0]:
                if self.quanta.get(n, 0) >= self.drop[1]:
                    self.dropped = n
                    continue
                self.quanta[n] = self.quanta.get(n, 0) + 1
            return c


def priority_schedules(case, rng, limit, kmax=40):
    """(order, drop) pairs for a case: all orders of its user-level threads x which class is stopped x after how many quanta;
    a random sample of `limit` of them when there are more"""
    import itertools
    names = hold_targets(case) + (['reconnect', 'reconnect2'] if case.get('activate') else [])
    orders = list(itertools.permutations(names))
    if len(orders) > 24:
        orders = rng.sample(orders, 24)
    allp = [(list(o), (d, k)) for o in orders for d in names for k in range(kmax)]
    if len(allp) > limit:
        allp = rng.sample(allp, limit)
    return allp


def hold_targets(case):
    return ['c%d' % i for i in range(len(case['callers']))] + (['closer'] if case.get('closer') is not None else [])


def _traced_client_class(fine):
    import frappy.client as fc
    if not fine:
        return fc.SecopClient

    class TracedClient(fc.SecopClient):
        io = fakes.YAttr('io', None, log_get=True)
        _txthread = fakes.YAttr('_txthread', None, log_get=True)
        _rxthread = fakes.YAttr('_rxthread', None, log_get=True)
        _running = fakes.YAttr('_running', False, log_get=True)
        _connthread = fakes.YAttr('_connthread', None, log_get=True)
        _cancel_reconnect = fakes.YAttr('_cancel_reconnect', None, log_get=True)
    TracedClient.__name__ = 'SecopClient'
    return TracedClient


class LogDict(dict):
    """stand-in for `SecopClient._reconnecting` (reconnect thread -> cancel event): every access is a yield point and is
    written to the effect log; `items()` is a snapshot (as `list(d.items())` is one step of the interpreter)"""

    def __init__(self, instr, name):
        super().__init__()
        self.instr = instr
        self.yname = name

    def _y(self, op):
        self.instr.s.yield_(('dict.' + op, self.yname))

    def __contains__(self, k):
        self._y('contains')
        r = dict.__contains__(self, k)
        self.instr.ev('r.member', getattr(k, 'name', str(k)), r)
        return r

    def __setitem__(self, k, v):
        self._y('setitem')
        dict.__setitem__(self, k, v)
        self.instr.ev('r.add', getattr(k, 'name', str(k)))

    def add(self, k):           # (the registry was a set before the repair)
        self[k] = None

    def discard(self, k):
        self.pop(k, None)

    def pop(self, k, *default):
        self._y('pop')
        r = dict.pop(self, k, *default)
        self.instr.ev('r.pop', getattr(k, 'name', str(k)))
        return r

    def items(self):
        self._y('items')
        r = list(dict.items(self))
        self.instr.ev('r.items', [getattr(k, 'name', str(k)) for k, _ in r])
        return r


class _Log:
    """logger stand-in that records nothing but counts (texts are never compared)"""

    def __init__(self):
        self.n = {}

    def _mk(level):
        def f(self, fmt, *args, **kwds):
            self.n[level] = self.n.get(level, 0) + 1
        return f
    debug = _mk('debug')
    info = _mk('info')
    warning = _mk('warning')
    error = _mk('error')
    exception = _mk('exception')
    critical = _mk('critical')


class TInstr(fakes.Instr):
    """effect log with the virtual time of every entry (parallel list `times`)"""

    def __init__(self, sched):
        super().__init__(sched)
        self.times = []

    def ev(self, *item):
        super().ev(*item)
        self.times.append(self.s.now)


class EntryNames:
    """names the client's entries `[request, Event, reply]` by object identity (R0, R1, ... in the order in which the effect
    log meets them) and remembers which event each one carries: nothing is assumed about how entries and events relate"""

    def __init__(self):
        self.by_id = {}
        self.keep = []
        self.event = {}

    def __call__(self, item):
        if not (isinstance(item, list) and len(item) == 3):
            return repr(item)
        n = self.by_id.get(id(item))
        if n is None:
            n = 'R%d' % len(self.keep)
            self.by_id[id(item)] = n
            self.keep.append(item)          # (keeps the object alive: its id is not reused)
            self.event[n] = getattr(item[1], 'name', None)
        return n


def flat_requests(case):
    """the requests of a case in a fixed order: [(thread index, request dict)], a caller's follow-up requests (`then`) after its
    first one; in a `handshake` case the connect() of the main thread comes last (as the caller of the set-up requests)"""
    out = []
    for i, c in enumerate(case['callers']):
        out.append((i, c))
        for c2 in c.get('then', ()):
            out.append((i, c2))
    if case.get('handshake'):
        out.append((None, {'action': 'connect()', 'spec': None}))
    return out


def run_case(case, policy, max_steps=6000):
    """one run of the real client under one schedule; returns (scheduler, observation dict)

    case['callers'][i]: a request {action, spec, data, delay}; optional `then`: [request, ...] issued by the same thread one
    after the other (each after the previous one returned or raised); optional `pipeline`: true - the thread queues all its
    requests with queue_request() first and collects the replies with get_reply() afterwards.
    case['handshake']: the scenario (schedule exploration, scripted peer rules, judging) begins BEFORE connect(): the peer's
    answers to `*IDN?` / `describe` / `activate` are rules of the script like any other (late, never, an error reply)."""
    import frappy.client as fc
    from frappy.errors import SECoPError
    pol = PhasePolicy(policy, case.get('quiet_until'))
    s = vsched.Scheduler(policy=pol, max_steps=max_steps)
    instr = TInstr(s)
    peer = fakes.Peer(instr, case['peer'])
    outcomes = {}
    extra = {}
    flat = flat_requests(case)
    first_k = {}
    for k, (i, _) in enumerate(flat):
        first_k.setdefault(i, k)
    names = EntryNames()
    handshake = bool(case.get('handshake'))

    def asynconn(uri, *a, **kw):
        c = peer.connect(uri, *a, **kw)
        if handshake and c.index == 0:
            c.arm()          # the scenario has begun already: spontaneous lines and the drop time apply to this connection
        return c

    def classify(e):
        if isinstance(e, SECoPError):
            return {'kind': 'error', 'cls': type(e).__name__, 'text': str(e)}
        if isinstance(e, TimeoutError):
            return {'kind': 'timeout'}
        if isinstance(e, ConnectionError):
            return {'kind': 'conn', 'cls': type(e).__name__}
        return {'kind': 'other', 'cls': type(e).__name__}

    with s.patched(fc, queue=fakes.LQueueModule(instr, ['txq', 'pending']), Event=fakes.levent_factory(instr),
                   RLock=fakes.llock_factory(instr, ['_lock', 'reqlock']),
                   mkthread=lambda f, *a, **k: fakes.LHandle(instr, s.mkthread(f, *a, **k)), time=s.time,
                   current_thread=lambda: fakes.LHandle(instr, s.threading.current_thread(), announce=False), AsynConn=asynconn):
        fakes.ENTRY_NAMER[0] = names
        cls = _traced_client_class(case.get('fine', False))
        client = cls('fake:1', _Log())
        client.activate = bool(case.get('activate', False))
        client.active_requests = fakes.YDict(instr, 'active')
        client.cleanup = fakes.YList(instr, 'cleanup')
        if case.get('fine', False):
            client.__dict__['_instr'] = instr
            client._reconnecting = LogDict(instr, 'reconnecting')

        def outcome_of(f):
            try:
                r = f()
                out = {'kind': 'reply', 'action': r[0], 'spec': r[1], 'data': json.dumps(r[2])}
            except vsched.SchedAbort:
                raise
            except BaseException as e:    # noqa
                out = classify(e)
            return out

        def finish(k, out, tput):
            out['t'] = s.now
            out['tput'] = tput
            outcomes[k] = out
            instr.ev('call.end', k, out['kind'])

        def caller(i, c0):
            reqs = [c0] + list(c0.get('then', ()))
            k0 = first_k[i]
            if c0.get('pipeline'):
                queued = []
                for j, c in enumerate(reqs):
                    if c.get('delay'):
                        s.time.sleep(c['delay'])
                    instr.ev('call.begin', k0 + j, c['action'], c.get('spec'))
                    tput = s.now
                    box = {}

                    def q(c=c, box=box):
                        box['entry'] = client.queue_request(c['action'], c.get('spec'), c.get('data'))
                        return [None, None, None]
                    out = outcome_of(q)
                    if 'entry' in box:
                        queued.append((k0 + j, box['entry'], tput))
                    else:
                        finish(k0 + j, out, tput)
                for k, entry, tput in queued:
                    t_get = s.now        # (the reply time-out runs from the call of get_reply)
                    finish(k, outcome_of(lambda entry=entry: client.get_reply(entry)), t_get)
                return
            for j, c in enumerate(reqs):
                if c.get('delay'):
                    s.time.sleep(c['delay'])
                instr.ev('call.begin', k0 + j, c['action'], c.get('spec'))
                tput = s.now
                finish(k0 + j, outcome_of(lambda c=c: client.request(c['action'], c.get('spec'), c.get('data'))), tput)

        def closer(c):
            if c.get('delay'):
                s.time.sleep(c['delay'])
            instr.ev('close.begin')
            try:
                client.disconnect()
                extra['closer'] = 'ok'
            except vsched.SchedAbort:
                raise
            except BaseException as e:    # noqa
                extra['closer'] = type(e).__name__
            instr.ev('close.end', extra['closer'])

        def main():
            if handshake:
                instr.ev('start')
                peer.start()
                pol.start(s)
                extra['t0'] = s.now
                instr.ev('call.begin', len(flat) - 1, 'connect()', None)
            tput = s.now
            try:
                client.connect()
                extra['connect'] = 'ok'
            except vsched.SchedAbort:
                raise
            except BaseException as e:    # noqa
                extra['connect'] = type(e).__name__
                if not handshake:
                    return
                finish(len(flat) - 1, classify(e), tput)
            if handshake:
                if extra['connect'] == 'ok':
                    finish(len(flat) - 1, {'kind': 'connected'}, tput)
            else:
                instr.ev('start')
                peer.start()
                pol.start(s)
            extra.setdefault('t0', s.now)
            ts = [s.spawn(f'c{i}', caller, (i, c)) for i, c in enumerate(case['callers'])]
            if case.get('closer') is not None:
                ts.append(s.spawn('closer', closer, (case['closer'],)))
            for t in ts:
                vsched._ThreadHandle(s, t).join()
            if case.get('settle') and case.get('closer') is not None:
                # the user has shut the client down: let everything come to rest, then look at what is left
                s.time.sleep(case['settle'])
                workers = sorted(t.name for t in s.threads if t.status != 'done'
                                 and t.name.rstrip('0123456789') in ('rxthread', 'txthread', 'reconnect'))
                extra['settled'] = {'alive': workers, 'connected': client.io is not None}
                instr.ev('settled', workers, extra['settled']['connected'])
            instr.ev('final.begin')
            try:
                client.disconnect()
                extra['final'] = 'ok'
            except vsched.SchedAbort:
                raise
            except BaseException as e:    # noqa
                extra['final'] = type(e).__name__
            instr.ev('final.end', extra['final'])

        s.spawn('main', main)
        try:
            res = s.run(wall_timeout=20.0)
        finally:
            fakes.ENTRY_NAMER[0] = None
        client.callbacks.clear()
        try:
            impl_final = {
                'active': sorted(fakes._entry_id(v) for v in dict.values(client.active_requests)),
                'pending': [fakes._entry_id(v) for v in client.pending.items],
                'txq': [fakes._entry_id(v) for v in client.txq.items if v is not None],
            }
        except Exception as e:    # noqa
            impl_final = {'error': repr(e)}
    alive = sorted(res['alive'])
    if res['aborted'] is not None and not alive:
        # the scheduler unwinds all threads on abort: who was still busy / waiting when the run was cut off
        alive = sorted({name.rstrip('0123456789') for name, _ in s.trace[-300:]}
                       | ({'main'} if 'final' not in extra and extra.get('connect') == 'ok' else set()))
    obs = {
        'callers': [outcomes.get(k, {'kind': 'none'}) for k in range(len(flat))],
        'handshake': handshake,
        'entry_event': dict(names.event),
        'conn_closed_at': [c.closed_at for c in peer.conns],
        'times': instr.times,
        # (a thread unwound by the scheduler after an abort may trip over a lock in its `finally`: not an observation)
        'errors': {t.name: type(t.error).__name__ for t in s.threads
                   if t.error is not None and 'outside the scheduler' not in str(t.error)},
        'alive': alive,
        'deadlock': bool(res['deadlock']),
        'aborted': res['aborted'],
        'extra': extra,
        'events': instr.events,
        'impl_final': impl_final,
        't0': extra.get('t0'),
        'now': res['now'],
        'choices': [list(c) for c in s.choices[pol.offset:]] if pol.offset is not None else [],
    }
    return s, obs


def explore_case(case, max_preemptions=2, max_runs=2000, rng=None, fuel=None):
    """systematic enumeration of the schedules of one case after the set-up phase (cf. vlib.sched.explore);
    yields (prefix, obs)"""
    seen = set()
    stack = [[]]
    runs = 0
    while stack and runs < max_runs:
        prefix = stack.pop()
        key = tuple(prefix)
        if key in seen:
            continue
        seen.add(key)
        _, obs = run_case(case, vsched.ReplayThenDefault(prefix))
        runs += 1
        yield prefix, obs
        ch = obs['choices']
        used = sum(1 for i, c in enumerate(prefix) if i < len(ch) and c != ch[i][2])
        if used >= max_preemptions:
            continue
        children = []
        for pos in range(len(prefix), len(ch)):
            n, chosen, default = ch[pos]
            base = [ch[i][1] for i in range(pos)]
            for alt in range(n):
                if alt != chosen:
                    children.append(base + [alt])
        if rng is not None:
            rng.shuffle(children)
        stack.extend(reversed(children))


# ----------------------------------------------------------------------------------------
# effect log of the implementation -> label sequence of the model (DESIGN 3.7)
# ----------------------------------------------------------------------------------------
KNOWN_IDENTS = ['m:p', 'm:q', 'm:go']


def split_line(text):
    parts = text.split(' ', 2) + ['', '']
    action, spec, data = parts[0:3]
    return action, (None if spec in ('', '.') else spec), data


def line_is_bad(text):
    """lines on which decode_msg / the update branch raises (the rx thread `continue`s)"""
    action, spec, data = split_line(text)
    if data != '':
        try:
            json.loads(data)
        except ValueError:
            return True
    return False


def to_labels(obs):
    """returns dict(labels, callers, closedAt, ids, seqs, notes)"""
    ev = obs['events']
    try:
        start = next(i for i, e in enumerate(ev) if e[1] == 'start')
    except StopIteration:
        return None
    t0 = obs['t0'] or 0.0
    labels = []
    ids = {}            # event name -> model entry id
    seqs = {}           # model seq -> line text
    puts = {}           # thread -> (id, label index) of its latest put
    callers = {}        # caller index -> dict
    closed_at = []
    closing_threads = set()
    rel_hold = {}       # thread -> [entry names taken by its disconnect]
    rx = {'mode': None, 'line': False, 'found': None, 'fails': 0, 'removed': None, 'clean': False, 'set_for': None,
          'requeue': [], 'took': []}
    has_lock = any(e[1] == 'lk.acq' and e[2] == 'reqlock' for e in ev)
    notes = []
    cut = None          # number of labels when a later connection was established: the matching model is of ONE connection
    ent_ev = obs.get('entry_event', {})      # entry name -> name of the event it carries
    times = obs.get('times') or [0.0] * len(ev)
    first_conn = bool(obs.get('handshake'))  # the scenario began before connect(): the first connection is still to come
    open_call = {}      # thread -> index of the request it has begun and not yet queued
    impl_deliv = {}     # entry name -> model seq of the line the rx thread matched it with (as the implementation did it)
    cur = {'seq': None}
    put_time = {}       # entry name -> virtual time of its put
    workers_made = [not obs.get('handshake')]

    # a handshake case: an `update` of a parameter is consumed before the matching code only once the description has been
    # installed (connect() back from its wait for the reply to `describe`, with a `describing` line); the driver is told
    # `known = []` for these cases and the flag is set here, line by line
    descr = {'entry': None, 'at': None}

    def consumed(text, at):
        if not obs.get('handshake') or descr['at'] is None or at < descr['at']:
            return False
        a, sp, _ = split_line(text)
        return a in ('update', 'error_update') and sp in KNOWN_IDENTS

    def carries(entry, evname):
        return ent_ev.get(entry, entry) == evname

    def rx_matched():
        if rx['found'] is not None and cur['seq'] is not None:
            impl_deliv[rx['found']] = cur['seq']

    def rx_flush_lazy():
        # a line that never reached the matching code (event line / undecodable): dropped
        if rx['line'] and rx['mode'] is None:
            labels.append(['rxMatch', None, ('took', [])])
            rx['line'] = False

    def rx_cleanup_lazy():
        if rx['clean'] and not has_lock:
            labels.append(['rxCleanup', ('id', None), ('took', rx['took'])])
            rx.update(clean=False, took=[])

    for ei in range(start + 1, len(ev)):
        e = ev[ei]
        th, kind = e[0], e[1]
        is_rx, is_tx = th.startswith('rxthread'), th.startswith('txthread')
        if kind == 'c.new' and e[2] and first_conn:
            first_conn = False
            continue
        if kind == 'c.new' and e[2] and cut is None:
            rx_flush_lazy()
            rx_cleanup_lazy()
            cut = len(labels)
        if cut is not None and kind not in ('call.begin', 'call.end', 'close.end', 'final.end'):
            continue
        if kind == 'c.emit':      # (the peer's doing, logged under whichever thread made the scheduler look at the connection)
            continue
        if is_rx and kind not in ('d.pop', 'lk.acq', 'd.next', 'd.next.error', 'd.len') and not (kind == 'q.get' and e[2] == 'pending'):
            rx_flush_lazy()
            if kind not in ('l.len',):
                rx_cleanup_lazy()
        if kind == 'q.put' and e[2] == 'txq':
            name = e[3]
            if name is None:
                continue
            if is_rx and name in rx['requeue']:
                rx['requeue'].remove(name)
                labels.append(['rxRequeue'])
                continue
            if name in ids:
                notes.append(f'entry {name} put twice')
                continue
            ids[name] = len(ids)
            req = e[4] or [None, None]
            puts[th] = (ids[name], len(labels), name)
            put_time[name] = times[ei]
            if obs.get('handshake') and req[0] == 'describe' and descr['entry'] is None:
                descr['entry'] = name
            if th in open_call:
                k, multi = open_call[th]
                callers[k].update(id=ids[name], putAt=len(labels), entry=name)
                if not multi:
                    del open_call[th]
            labels.append(['put', req[0], req[1]])
        elif kind == 'q.get' and e[2] == 'txq':
            name, block = e[3], e[4]
            if name is None:
                if is_tx and block:
                    labels.append(['closeBegin'])     # the marker: somebody is disconnecting; tx leaves its loop
                    closing_threads.add(th)
                continue
            if is_tx and block:
                labels.append(['txGet'])
            else:
                labels.append(['closeTxq'])
                rel_hold.setdefault(th, []).append(name)
        elif kind == 'd.member' and is_tx:
            labels.append(['txTest', bool(e[4])])
        elif kind == 'd.insert' and is_tx:
            labels.append(['txApply'])
        elif kind == 'q.put' and e[2] == 'pending' and is_tx:
            labels.append(['txApply'])
        elif kind in ('c.send', 'c.send.lost') and is_tx:
            labels.append(['txSend'])
        elif kind == 'c.send.fail' and is_tx:
            labels.append(['txSendFail'])
            labels.append(['closeBegin'])
            closing_threads.add(th)
        elif kind == 'c.read' and is_rx:
            seq, text, after, re_idx = e[2], e[3], e[4], e[5]
            action, spec, _ = split_line(text)
            mseq = len(seqs)
            seqs[mseq] = text
            re_id = None
            if re_idx is not None and re_idx < len(obs.get('sent_entries', [])):
                re_id = obs['sent_entries'][re_idx]
            labels.append(['peerEmit', action, spec, line_is_bad(text) or consumed(text, ei), ('re', re_idx)])
            labels.append(['rxRead'])
            cur['seq'] = mseq
            rx.update(line=True, mode=None, found=None, fails=0, took=[])
        elif kind == 'c.read.closed' and is_rx:
            labels.append(['closeBegin'])
            closing_threads.add(th)
        elif kind == 'l.pop' and is_rx:
            labels.append(['rxCleanPop'])
            rx.update(clean=True, removed=None, mode='clean', took=[])
        elif kind == 'd.pop' and is_rx:
            if rx['mode'] == 'clean':
                if e[4] is not None:
                    rx['removed'] = e[4]       # the entry the implementation popped from active_requests
                if not has_lock:
                    rx['pending_label'] = ['rxCleanup', ('id', rx['removed']), ('took', rx['took'])]
                    labels.append(rx['pending_label'])
                    rx.update(clean=False, mode=None)
            else:
                rx['mode'] = 'match'
                if e[4] is not None:
                    rx['found'] = e[4]
                else:
                    rx['fails'] += 1
                if not has_lock and (rx['found'] is not None or rx['fails'] >= 2):
                    rx['pending_label'] = ['rxMatch', ('id', rx['found']), ('took', rx['took'])]
                    labels.append(rx['pending_label'])
                    rx_matched()
                    rx['set_for'] = rx['found']
                    rx.update(line=False, mode=None)
        elif kind == 'q.get' and e[2] == 'pending':
            name, block = e[3], e[4]
            if is_rx and block:
                rx['requeue'].append(name)
                rx['took'].append(name)      # the list object is shared with the label of this section
            else:
                labels.append(['closePending'])
                rel_hold.setdefault(th, []).append(name)
        elif kind == 'lk.rel' and e[2] == 'reqlock' and is_rx:
            if rx['mode'] == 'clean':
                labels.append(['rxCleanup', ('id', rx['removed']), ('took', rx['took'])])
                rx.update(clean=False, mode=None, took=[])
            elif rx['mode'] == 'match':
                labels.append(['rxMatch', ('id', rx['found']), ('took', rx['took'])])
                rx_matched()
                rx['set_for'] = rx['found']
                rx.update(line=False, mode=None, took=[])
        elif kind == 'd.popitem':
            if e[4] is not None:
                labels.append(['closeActive'])
                rel_hold.setdefault(th, []).append(e[4])
        elif kind == 'ev.set':
            name = e[2]              # (the name of the EVENT; which entry it stands for is decided by who sets it)
            held = [n for n in rel_hold.get(th, []) if carries(n, name)]
            if not any(carries(n, name) for n in ids):
                continue             # the client's _shutdown event, a start gate, a cancel event
            if held:
                rel_hold[th].remove(held[0])
                labels.append(['closeSet', ids[held[0]]])
            elif is_rx and rx['set_for'] is not None and carries(rx['set_for'], name):
                rx['set_for'] = None
                labels.append(['rxSetEvent'])
            elif th in puts and carries(puts[th][2], name):
                labels.append(['selfRelease', ids[puts[th][2]]])
            else:
                notes.append(f'unexplained event.set of {name} by {th}')
        elif kind == 'ev.wait' and descr['entry'] is not None and descr['at'] is None and e[3] and carries(descr['entry'], e[2]):
            q = impl_deliv.get(descr['entry'])
            if q is not None and split_line(seqs[q])[0] == 'describing':
                descr['at'] = ei
        elif kind == 'l.append' and e[2] == 'cleanup':
            if e[3] in ids:
                labels.append(['timeout', ids[e[3]]])
        elif kind in ('close.begin', 'final.begin'):
            labels.append(['closeBegin'])
            closing_threads.add(th)
        elif kind == 'a.set' and e[2] == '_running' and e[3] is False:
            labels.append(['closeBegin'])
            closing_threads.add(th)
        elif kind in ('close.end', 'final.end'):
            closed_at.append(len(labels))
        elif kind == 'call.begin':
            callers[e[2]] = {'begin': len(labels), 'thread': th}
            open_call[th] = (e[2], e[3] == 'connect()')     # connect() queues several requests: its record is the last one's
        elif kind == 'call.end':
            c = callers[e[2]]
            if open_call.get(th, (None, False))[1] and e[3] != 'connected' and not workers_made[0]:
                # connect() gave up before it had started the workers: `_running` was never set, the client does not run
                # (the model's word for "not running" is `closing`)
                labels.append(['closeBegin'])
            c['endAt'] = len(labels)
            if open_call.get(th, (None,))[0] == e[2]:
                del open_call[th]
        elif kind == 'th.new' and e[2].rstrip('0123456789') in ('rxthread', 'txthread'):
            workers_made[0] = True
    rx_flush_lazy()
    rx_cleanup_lazy()
    # the rx / tx threads' own disconnect(False) ends with their last effect
    last = {}
    for i, e in enumerate(ev):
        last[e[0]] = i
    # (indices into `labels` are not available per event here; the end of the run is a safe over-approximation
    #  only for threads that end last, so worker disconnects are not used as completion points)
    # resolve `re` (index of the transmission) -> entry id, and found names -> ids
    sent = []           # entry ids in transmission order
    hold = None
    for e in ev[start + 1:]:
        if e[1] == 'q.get' and e[2] == 'txq' and e[0].startswith('txthread') and e[3] is not None and e[4]:
            hold = e[3]
        elif e[1] == 'c.send':
            # (index = position among ALL lines transmitted since the start: `*IDN?` of a handshake is sent by connect() itself)
            sent.append(ids.get(hold) if e[0].startswith('txthread') else None)
    for lb in labels:
        if lb[0] == 'peerEmit':
            idx = lb[4][1]
            lb[4] = sent[idx] if idx is not None and idx < len(sent) else None
        if lb[0] in ('rxMatch', 'rxCleanup') and isinstance(lb[1], tuple):
            lb[1] = ids.get(lb[1][1], 10 ** 6) if lb[1][1] is not None else None
        if lb[0] in ('rxMatch', 'rxCleanup') and isinstance(lb[2], tuple):
            lb[2] = [ids.get(n, 10 ** 6) for n in lb[2][1]]
    # callers
    text_seq = {}
    for q, text in seqs.items():
        a, sp, data = split_line(text)
        try:
            data = json.dumps(json.loads(data)) if data != '' else 'null'
        except ValueError:
            pass
        text_seq.setdefault((a, sp, data), q)
    cobs = []
    for i, out in enumerate(obs['callers']):
        c = callers.get(i, {})
        rec = {'id': c.get('id', 10 ** 6), 'putAt': c.get('putAt', c.get('begin', 0)),
               'endAt': c.get('endAt', len(labels)), 'out': out['kind'], 'seq': 0}
        ev_put = None
        rec['tEnd'] = int(max(0.0, out.get('t', obs['now']) - t0) * 1000)
        rec['tPut'] = int(max(0.0, out.get('tput', t0) - t0) * 1000)
        if out['kind'] == 'reply':
            rec['seq'] = text_seq.get((out['action'], out['spec'], out['data']), 10 ** 6)
        elif out['kind'] == 'error':
            uid = None
            for q, text in seqs.items():
                a, sp, data = split_line(text)
                if a.startswith('error_'):
                    try:
                        msg = json.loads(data)[1]
                    except (ValueError, IndexError, KeyError, TypeError):
                        continue
                    if msg == out.get('text'):      # (every line of a script is unique)
                        uid = q
            if uid is None:
                rec['out'] = 'conn'          # error raised by connect(): the connection could not be re-established
            else:
                rec['seq'] = uid
        elif out['kind'] == 'none':
            rec['out'] = 'other'
        elif out['kind'] == 'connected':
            # connect() returned: its last set-up request was answered; which line the rx thread gave it, as the implementation did it
            rec['out'] = 'reply'
            rec['seq'] = impl_deliv.get(c.get('entry'), 10 ** 6)
        if 'entry' in c and obs.get('handshake') and i == len(obs['callers']) - 1:
            rec['tPut'] = int(max(0.0, put_time[c['entry']] - t0) * 1000)
        if cut is not None and 'id' not in c:
            rec['out'] = 'later'             # served (or not) by a later connection: outside the matching model
        cobs.append(rec)
    # what the peer made readable on the first connection while it lasted, and from when on (whether or not it was ever read)
    arrivals = []
    limit = (obs.get('conn_closed_at') or [None])[0]
    for e in ev[start + 1:]:
        if e[1] == 'c.emit' and e[2] == 0 and not e[7] and (limit is None or e[5] <= limit):
            a, sp, _ = split_line(e[4])
            at = len(ev) if descr['at'] is not None and e[5] >= times[descr['at']] else -1
            arrivals.append([a, sp, line_is_bad(e[4]) or consumed(e[4], at), sent[e[6]] if e[6] is not None and e[6] < len(sent) else None,
                             int(max(0.0, e[5] - t0) * 1000)])
    return {'labels': labels, 'callers': cobs, 'closedAt': closed_at, 'ids': ids, 'seqs': seqs, 'notes': notes,
            'arrivals': arrivals}


def _event_named(obs):
    """the effect log with the entries of queue operations named by their events again (what the two converters below key on)"""
    m = obs.get('entry_event') or {}
    out = []
    for e in obs['events']:
        if e[1] == 'c.emit':
            continue
        if e[1] in ('q.put', 'q.get', 'q.put.fail') and len(e) > 3 and e[3] in m:
            e = e[:3] + [m[e[3]]] + e[4:]
        out.append(e)
    return out


def to_shutdown_acts(obs):
    """fine-grained run -> acts of the shutdown-protocol model (Client/Shutdown.lean), each with the program point the
    acting worker must reach; the conversion stops at the first reconnection attempt (connect() is not in the model)"""
    ev = _event_named(obs)
    try:
        start = next(i for i, e in enumerate(ev) if e[1] == 'start')
    except StopIteration:
        return None
    acts = [{'a': ['tx', False], 'pc': 'get'}, {'a': ['rx', False], 'pc': 'read'}]   # where the workers are after connect()
    ph = {}            # thread -> phase of its disconnect: 'd1' | 'mid' | 'd2done' | 'final' | None
    tx_proc = [False]
    rx_expect = ['read']
    rx_skip = [False]   # the next read of _running by the rx thread is queue_request's (heartbeat), not the loop test
    io_none = {}        # thread -> it read self.io as None at the start of disconnect()
    rx_made = set()     # entries created by the rx thread itself (heartbeats); its other puts requeue parked requests

    def step_of(th, pc=None):
        if th.startswith('txthread'):
            return {'a': ['tx', False], 'pc': pc}
        if th.startswith('rxthread'):
            return {'a': ['rx', False], 'pc': pc}
        return None

    def dstep(th, point, pc=None):
        s = step_of(th, pc)
        if s is None:
            s = {'a': ['user', point], 'pc': pc}
        acts.append(s)

    for e in ev[start + 1:]:
        th, kind = e[0], e[1]
        if th == 'main0':
            continue
        is_tx, is_rx = th == 'txthread', th == 'rxthread'
        if kind == 'ev.new' and is_rx:
            rx_made.add(e[2])
        if kind in ('c.new', 'ev.clear') or th.startswith('reconnect') or th in ('txthread2', 'rxthread2'):
            break          # a connect() body begins (its first effect is _shutdown.clear()): outside the model
        if kind == 'q.put' and e[2] == 'txq':
            if e[3] is None:
                dstep(th, 'd4', 'd5')
            else:
                acts.append({'a': ['put']})
                if is_rx and e[3] in rx_made:
                    rx_made.discard(e[3])      # (a later put of the same entry by the rx thread requeues it after parking)
                    rx_skip[0] = True
        elif kind == 'a.set' and e[2] == '_running' and e[3] is False:
            if is_tx or is_rx:
                acts.append(step_of(th, 'd1'))
            else:
                acts.append({'a': ['userBegin']})
            ph[th] = 'd1'
        elif kind == 'q.get' and e[2] == 'txq' and e[4] is False:
            if ph.get(th) == 'd1':
                dstep(th, 'd1', 'd1')
            elif ph.get(th) == 'final':
                dstep(th, 'd11', 'd11')
        elif kind == 'q.empty' and e[2] == 'txq' and e[3] is True and ph.get(th) == 'd1':
            dstep(th, 'd1', 'd2')
            ph[th] = 'mid'
        elif kind == 'q.get.fail' and e[2] == 'txq':
            if ph.get(th) == 'd1':
                dstep(th, 'd1', 'd2')
                ph[th] = 'mid'
            elif ph.get(th) == 'final':
                dstep(th, 'd11', 'fin')
                ph[th] = None
        elif kind == 'c.shutdown' and ph.get(th) == 'mid':
            dstep(th, 'd2', 'd3')
            ph[th] = 'd2done'
        elif kind == 'a.get' and e[2] == 'io' and ph.get(th) == 'mid':
            io_none[th] = e[3] is None
        elif kind == 'a.get' and e[2] == '_txthread' and ph.get(th) in ('mid', 'd2done'):
            if ph[th] == 'mid' and io_none.get(th, False):
                dstep(th, 'd2', 'd3')       # `if io:` was false: nothing to shut down, the step has no visible effect
            dstep(th, 'd3', 'd7' if e[3] is None else 'd4')
            ph[th] = 'join'
        elif kind == 'th.join' and e[2].startswith('txthread'):
            dstep(th, 'd5', 'd6')
            ph[th] = 'txjoined'
        elif kind == 'th.join' and e[2].startswith('rxthread'):
            dstep(th, 'd8', 'd9')
            ph[th] = 'rxjoined'
        elif kind == 'a.get' and e[2] == '_txthread' and ph.get(th) == 'txjoined':
            # `if self._txthread is txthread: self._txthread = None` — in the model (no connect()) the attribute is clear afterwards
            dstep(th, 'd6', 'd7')
            ph[th] = 'join'
        elif kind == 'a.set' and e[2] == '_txthread' and e[3] is None:
            if is_tx and ph.get(th) is None:
                if tx_proc[0]:
                    acts.append({'a': ['tx', False], 'pc': 'check'})
                    tx_proc[0] = False
                acts.append({'a': ['tx', False], 'pc': 'd0'})
        elif kind == 'a.get' and e[2] == '_rxthread' and ph.get(th) == 'join':
            dstep(th, 'd7', 'd10' if e[3] is None else 'd8')
            ph[th] = 'ioguard' if e[3] is None else 'rxwait'     # rxwait: the next read of io is `newio = self.io`
        elif kind == 'a.get' and e[2] == '_rxthread' and ph.get(th) == 'rxjoined':
            dstep(th, 'd9', 'd10')
            ph[th] = 'ioguard'
        elif kind == 'a.set' and e[2] == '_rxthread' and e[3] is None:
            if is_rx and ph.get(th) is None:
                acts.append({'a': ['rx', False], 'pc': 'd0'})
        elif kind == 'a.get' and e[2] == 'io' and ph.get(th) == 'ioguard':
            # `if self.io is io: self.io = None`
            dstep(th, 'd10', 'd11')
            ph[th] = 'final'
        elif kind == 'a.get' and e[2] == '_running':
            if is_tx and ph.get(th) is None:
                if tx_proc[0]:
                    acts.append({'a': ['tx', False], 'pc': 'check'})
                    tx_proc[0] = False
                acts.append({'a': ['tx', False], 'pc': 'get' if e[3] else 'x0'})
            elif is_rx and ph.get(th) is None and rx_skip[0]:
                rx_skip[0] = False
            elif is_rx and ph.get(th) is None and rx_expect[0] == 'check':
                acts.append({'a': ['rx', False], 'pc': 'read' if e[3] else 'f0'})
                rx_expect[0] = 'read' if e[3] else 'f0'
        elif kind == 'q.get' and e[2] == 'txq' and e[4] is True and is_tx:
            acts.append({'a': ['tx', False], 'pc': 'x0' if e[3] is None else 'proc'})
            tx_proc[0] = e[3] is not None
        elif kind in ('c.send', 'c.send.lost') and is_tx and tx_proc[0]:
            acts.append({'a': ['tx', False], 'pc': 'check'})
            tx_proc[0] = False
        elif kind == 'c.send.fail' and is_tx and tx_proc[0]:
            acts.append({'a': ['tx', True], 'pc': 'x0'})
            tx_proc[0] = False
        elif kind in ('c.read', 'c.read.none') and is_rx and rx_expect[0] == 'read':
            acts.append({'a': ['rx', False], 'pc': 'check'})
            rx_expect[0] = 'check'
        elif kind == 'c.read.closed' and is_rx and rx_expect[0] == 'read':
            acts.append({'a': ['drop']})
            acts.append({'a': ['rx', True], 'pc': 'f0'})
            rx_expect[0] = 'f0'
    for a in acts:
        if a.get('pc') is None:
            a.pop('pc', None)
    return acts


def to_life_acts(obs):
    """attribute-level run -> acts of the life-cycle model (Client/Reconnect.lean): one act per entry of the effect log that
    is a shared access of connect() / disconnect() / the workers / the reconnect threads, with the kind of access (`ev`), the
    queue object touched (`q`) and the thread waited for (`w`); which step that is, is decided by the model.
    The model starts after the first connect(): tx thread = 0, rx thread = 1, connection 0, queue 0."""
    ev = _event_named(obs)
    try:
        start = next(i for i, e in enumerate(ev) if e[1] == 'start')
    except StopIteration:
        return None
    tid = {'txthread': 0, 'rxthread': 1}
    nxt = [2]
    qmap = {}
    for e in ev[:start]:
        if e[1] == 'q.new' and e[2] == 'txq':
            qmap = {e[3]: 0}
    nq = [1]
    acts = []
    lock = set()          # threads inside connect() (holding _lock)
    in_cx = set()         # ... on their way through the except clause
    skip_isset = set()
    skip_run = set()
    expect_gate = set()
    expect_ident = set()
    gates = set()
    cancels = set()
    rx_loop = {'rxthread'}
    rx_io = {'rxthread': 0}
    rx_made = set()
    delivered = set()
    gone = set()          # user threads whose request() has done its put: the rest is the matching model's
    tx_hold = set()

    def conn_of(v):
        return int(v[4:]) if isinstance(v, str) and v.startswith('conn') else None

    def new_thread(name):
        tid[name] = nxt[0]
        nxt[0] += 1

    def act(th, kind, o=0, **kw):
        a = {'a': ['th', tid[th], o], 'ev': kind}
        a.update(kw)
        acts.append(a)

    def nextev(i, th):
        for e in ev[i + 1:]:
            if e[0] == th:
                return e
        return None

    for i in range(start + 1, len(ev)):
        e = ev[i]
        th, kind = e[0], e[1]
        if kind == 'call.begin':
            acts.append({'a': ['newReq'], 'ev': '-'})
            new_thread(th)
            gone.discard(th)      # (a follow-up request of a thread whose previous request is over: a new user request)
            continue
        if kind in ('close.begin', 'final.begin'):
            acts.append({'a': ['newDisc'], 'ev': '-'})
            new_thread(th)
            gone.discard(th)
            continue
        if th not in tid or th in gone:
            continue
        is_rx, is_tx = th.startswith('rxthread'), th.startswith('txthread')
        if kind == 'a.set':
            name, v = e[2], e[3]
            if name == '_running':
                act(th, 'run1' if v else 'run0')
                if v:
                    expect_gate.add(th)
            elif name == 'io':
                act(th, 'set.io0' if v is None else 'set.io')
                if v is not None:
                    expect_ident.add(th)
            elif name == '_txthread':
                if v is None:
                    act(th, 'set.tx0')
                else:
                    act(th, 'set.tx')
                    new_thread(v)
            elif name == '_rxthread':
                if v is None:
                    act(th, 'set.rx0')
                    rx_loop.discard(th)
                else:
                    act(th, 'set.rx')
                    new_thread(v)
                    rx_loop.add(v)
            elif name == '_connthread':
                act(th, 'set.conn0' if v is None else 'set.conn')
            elif name == '_cancel_reconnect':
                cancels.add(v)
                act(th, 'set.cancel')
        elif kind == 'a.get':
            name, v = e[2], e[3]
            if name == '_running':
                if th in skip_run:
                    skip_run.discard(th)
                else:
                    act(th, 'get.run')
            elif name == 'io':
                act(th, 'get.io')
                if is_rx:
                    rx_io[th] = conn_of(v)
                if th in expect_ident and v is None:
                    expect_ident.discard(th)       # AttributeError in connect()
                    in_cx.add(th)
            elif name == '_txthread':
                act(th, 'get.tx')
            elif name == '_rxthread':
                act(th, 'get.rx')
            elif name == '_connthread':
                act(th, 'get.conn')
            elif name == '_cancel_reconnect':
                act(th, 'get.cancel')
        elif kind == 'ev.new':
            if th in expect_gate:
                expect_gate.discard(th)
                gates.add(e[2])
            elif is_rx:
                rx_made.add(e[2])
        elif kind == 'ev.set':
            name = e[2]
            if name == 'E0':
                act(th, 'sdset')
            elif name in gates:
                act(th, 'gate')
            elif name in cancels:
                act(th, 'cancel')
            elif is_rx and th in rx_loop:
                delivered.add(name)
        elif kind == 'ev.clear' and e[2] == 'E0':
            act(th, 'c2')
        elif kind == 'r.member':
            if e[3]:
                act(th, 'c2')
        elif kind == 'r.add':
            act(th, 'r.add')
        elif kind == 'r.pop':
            act(th, 'r.pop')
        elif kind == 'r.items':
            act(th, 'r.items')
        elif kind == 'ev.isset':
            name = e[2]
            if name == 'E0':
                if th in skip_isset:
                    skip_isset.discard(th)
                else:
                    act(th, 'isset')
            elif name in cancels:
                act(th, 'isset.c')
        elif kind == 'ev.wait':
            name = e[2]
            if name == 'E0':
                if th in lock:
                    in_cx.discard(th)
                    act(th, 'cx', 0)
                else:
                    act(th, 'sdwait')
            elif name in gates:
                act(th, 'gwait')
            elif th in lock:
                ok = bool(e[3]) and name in delivered
                act(th, 'wait', 0 if ok else 1)
                if not ok:
                    in_cx.add(th)
                    if e[3]:
                        skip_isset.add(th)      # get_reply() looks at the flag for its message
        elif kind == 'lk.acq' and e[2] == '_lock':
            lock.add(th)
            act(th, 'lock')
        elif kind == 'lk.rel' and e[2] == '_lock':
            raised = th in in_cx
            if raised:
                in_cx.discard(th)
                act(th, 'cx', 1)
            lock.discard(th)
            act(th, 'unlock')
            if raised and th[0] == 'c' and th != 'closer':
                # the connect() of a user's request raised: the request is over for the life-cycle model (the thread may still
                # collect the replies to requests it had queued before: get_reply, the matching model's)
                gone.add(th)
        elif kind == 'c.new':
            act(th, 'cnew', 0 if e[2] else 1)
            if not e[2]:
                in_cx.add(th)
        elif kind in ('c.read.setup', 'c.read.closed', 'c.read.fail', 'c.read.timeout', 'c.read', 'c.read.none'):
            if th in expect_ident:
                expect_ident.discard(th)
                ok = kind == 'c.read.setup'
                act(th, 'ident', 0 if ok else 1)
                if not ok:
                    in_cx.add(th)
            elif is_rx:
                if kind == 'c.read.closed':
                    if rx_io.get(th) is not None:
                        acts.append({'a': ['drop', rx_io[th]], 'ev': '-'})
                    act(th, 'read', 1)
                elif kind in ('c.read.fail', 'c.read.timeout'):
                    act(th, 'read', 3)
                else:
                    n = nextev(i, th)
                    # a heartbeat is due: the rx thread makes an entry (its Event) and queues it
                    hb = n is not None and n[1] == 'ev.new'
                    act(th, 'read', 2 if hb else 0)
        elif kind == 'c.shutdown':
            act(th, 'shut')
        elif kind == 'c.disconnect':
            act(th, 'cdisc')
        elif kind == 'th.join':
            if e[2] in tid:
                act(th, 'join', w=tid[e[2]])
        elif kind == 'th.new':
            if e[2].startswith('reconnect'):
                act(th, 'thnew')
                new_thread(e[2])
        elif kind == 'q.new' and e[2] == 'txq':
            qmap[e[3]] = nq[0]
            nq[0] += 1
            act(th, 'qnew')
        elif kind == 'q.get.fail' and e[2] == 'pending':
            act(th, 'pend')
        elif kind in ('q.empty', 'q.get', 'q.get.fail', 'q.put') and e[2] == 'txq':
            q = qmap.get(e[-1], 99)
            if kind == 'q.empty':
                act(th, 'qempty', q=q)
            elif kind == 'q.get.fail':
                act(th, 'qget', q=q)
            elif kind == 'q.get':
                if e[4]:
                    parked = False
                    for e2 in ev[i + 1:]:
                        if e2[0] == th and e2[1] in ('q.put', 'q.get', 'a.get', 'c.send', 'c.send.lost', 'c.send.setup', 'c.send.fail'):
                            parked = e2[1] == 'q.put' and e2[2] == 'pending'
                            break
                    act(th, 'qgetb', 2 if parked else 0, q=q)
                    if e[3] is not None and not parked:
                        tx_hold.add(th)
                else:
                    act(th, 'qget', q=q)
            elif e[3] is None:
                act(th, 'qputm', q=q)
            elif is_rx and e[3] not in rx_made:
                acts.append({'a': ['put', q], 'ev': '-'})       # a parked request goes back to the queue
            else:
                act(th, 'qput', q=q)
                if is_rx:
                    rx_made.discard(e[3])
                    skip_run.add(th)
                elif th not in lock:
                    gone.add(th)
        elif is_tx and th in tx_hold and (kind in ('c.send', 'c.send.lost', 'c.send.setup', 'c.send.fail')
                                          or (kind == 'q.put' and e[2] == 'pending')):
            tx_hold.discard(th)
            act(th, 'proc', 1 if kind == 'c.send.fail' else 0)
    return acts


def _uid_of_error(out):
    import re
    m = re.search(r'u(\d+)', out.get('text', ''))
    return m.group(1) if m else '?'


# ----------------------------------------------------------------------------------------
# scenarios
# ----------------------------------------------------------------------------------------
REPLY_OF = {'read': 'reply', 'change': 'changed', 'do': 'done', 'ping': 'pong', 'xyz': 'xyzed', 'frob': 'frobbed'}
REQUEST_POOL = [
    {'action': 'read', 'spec': 'm:p'}, {'action': 'read', 'spec': 'm:p'}, {'action': 'read', 'spec': 'm:q'},
    {'action': 'change', 'spec': 'm:p', 'data': 1}, {'action': 'change', 'spec': 'm:q', 'data': 2},
    {'action': 'do', 'spec': 'm:go'}, {'action': 'xyz', 'spec': 'm:p'}, {'action': 'xyz', 'spec': 'm:p'},
    {'action': 'frob', 'spec': None}, {'action': 'ping', 'spec': 'x1'},
]


def sent_text(c):
    parts = [c['action'], c.get('spec') or '', '' if c.get('data') is None else json.dumps(c['data'])]
    return ' '.join(parts).strip()


def reply_line(c, uid, error=False):
    spec = c.get('spec') or '.'
    if error:
        return 'error_%s %s ["CommunicationFailed", "u%d", {}]' % (c['action'], spec, uid)
    return '%s %s [%d, {"t": 1}]' % (REPLY_OF[c['action']], spec, uid)


def handshake_rules(ident=0, describe=0, activate=0):
    """peer rules answering the set-up requests of connect(): a delay in seconds, None = the node stays silent,
    'error' = an error reply"""
    rules = []
    if ident is not None:
        rules.append({'on': '*IDN?', 'emit': [[ident, fakes.Peer.IDENT]]})
    if describe == 'error':
        rules.append({'on': 'describe', 'emit': [[0, 'error_describe . ["InternalError", "u90", {}]']]})
    elif describe is not None:
        rules.append({'on': 'describe', 'emit': [[describe, 'describing . ' + json.dumps(fakes.Peer.DEFAULT_DESCRIPTION)]]})
    if activate == 'error':
        rules.append({'on': 'activate', 'emit': [[0, 'error_activate . ["InternalError", "u91", {}]']]})
    elif activate is not None:
        rules.append({'on': 'activate', 'emit': [[activate, 'active']]})
    return rules


def catalogue():
    """the scenarios in which the design phase and this work package found defects (run on every check)"""
    rp = {'action': 'read', 'spec': 'm:p'}
    rq = {'action': 'read', 'spec': 'm:q'}
    rule_p = {'on': 'read m:p', 'emit': [[0, reply_line(rp, 101)]]}
    return handshake_catalogue(rp, rq, rule_p) + same_thread_catalogue(rp, rq) + [
        {'name': 'F18 user disconnect racing the reply and a peer drop',
         'callers': [rp], 'closer': {'delay': 0},
         'peer': {'rules': [{'on': 'read m:p', 'emit': [[0, reply_line(rp, 101)]], 'drop': 0.0}]}},
        {'name': 'F19 two requests with the same key',
         'callers': [rp, rp],
         'peer': {'rules': [{'on': 'read m:p', 'nth': 0, 'emit': [[0, reply_line(rp, 101)]]},
                            {'on': 'read m:p', 'nth': 1, 'emit': [[0, reply_line(rp, 102)]]}]}},
        {'name': 'F20 time-out clean-up racing new requests',
         'callers': [rp, dict(rq, delay=10.5), {'action': 'change', 'spec': 'm:q', 'data': 1, 'delay': 10.5}],
         'peer': {'rules': [{'on': 'read m:q', 'emit': [[0, reply_line(rq, 102)]]},
                            {'on': 'change m:q 1', 'emit': [[0, 'changed m:q [103, {}]']]}]}},
        {'name': 'F21 unknown action and an unrelated unknown update',
         'callers': [{'action': 'xyz', 'spec': 'm:p'}, rq],
         'peer': {'rules': [{'on': 'xyz m:p', 'emit': [[0.5, 'xyzed m:p [101, {}]']]},
                            {'on': 'read m:q', 'emit': [[0, reply_line(rq, 102)]]}],
                  'spont': [[0.0, 'update x:y [5, {}]']]}},
        {'name': 'peer drop while requests are queued',
         'callers': [rp, rq], 'peer': {'drop_at': 0.0}},
        {'name': 'peer drop, sending fails',
         'callers': [rp, rq], 'peer': {'drop_at': 0.0, 'send_error': True}},
        {'name': 'parked request whose predecessor times out',
         'callers': [rp, dict(rp, delay=5.0)],
         'peer': {'rules': [{'on': 'read m:p', 'nth': 1, 'emit': [[0, reply_line(rp, 102)]]}]}},
        {'name': 'user disconnect and peer drop at once, attribute-level yield points',
         'callers': [rp, rq], 'closer': {'delay': 0}, 'fine': True,
         'peer': {'rules': [{'on': 'read m:p', 'emit': [[0, reply_line(rp, 101)]], 'drop': 0.0}]}},
        {'name': 'user disconnect while two requests are being queued, healthy peer',
         'callers': [rp, rq], 'closer': {'delay': 0},
         'peer': {'rules': [{'on': 'read m:p', 'emit': [[0, reply_line(rp, 101)]]},
                            {'on': 'read m:q', 'emit': [[0, reply_line(rq, 102)]]}]}},
        # ---- the time-out path with equal keys
        {'name': 'two requests with the same key, the filed one is never answered: both run into their time-out',
         'callers': [rp, rp],
         'peer': {'rules': [{'on': 'read m:p', 'nth': 1, 'emit': [[0, reply_line(rp, 102)]]}]}},
        {'name': 'late reply of a timed-out request racing its clean-up and a new request with the same key',
         'callers': [rp, dict(rp, delay=10.5)], 'quiet_until': 10.4,
         'peer': {'rules': [{'on': 'read m:p', 'nth': 0, 'emit': [[10.5, reply_line(rp, 101)]]},
                            {'on': 'read m:p', 'nth': 1, 'emit': [[0, reply_line(rp, 102)]]}]}},
        # ---- the reconnect thread (activated client), the node accepts connections again
        {'name': 'activated client, peer drop after the reply: the final user shutdown races the reconnect thread',
         'callers': [rp], 'activate': True,
         'peer': {'reconnect': 'accept', 'rules': [{'on': 'read m:p', 'emit': [[0, reply_line(rp, 101)]], 'drop': 0.0}]}},
        {'name': 'the same with attribute-level yield points',
         'callers': [rp], 'activate': True, 'fine': True,
         'peer': {'reconnect': 'accept', 'rules': [{'on': 'read m:p', 'emit': [[0, reply_line(rp, 101)]], 'drop': 0.0}]}},
        {'name': 'activated client, peer drop, user disconnect and a request at once; what is left when all is at rest',
         'callers': [rp], 'activate': True, 'closer': {'delay': 0}, 'settle': 25,
         'peer': {'reconnect': 'accept', 'rules': [{'on': 'read m:p', 'emit': [[0, reply_line(rp, 101)]], 'drop': 0.0}]}},
        {'name': 'activated client, two connections lost in a row (two reconnect threads), user disconnect at once; at rest',
         'callers': [rp, rq], 'activate': True, 'closer': {'delay': 0}, 'settle': 25,
         'peer': {'reconnect': 'accept', 'rules': [{'on': 'read m:p', 'emit': [[0, reply_line(rp, 101)]], 'drop': 0.0},
                                                   {'on': 'read m:q', 'emit': [[0, reply_line(rq, 102)]], 'drop': 0.0}]}},
        {'name': 'activated client, a request after the peer drop (reconnect by the caller or by the reconnect thread)',
         'callers': [rp, dict(rq, delay=0.3)], 'activate': True,
         'peer': {'reconnect': 'accept', 'rules': [{'on': 'read m:p', 'emit': [[0, reply_line(rp, 101)]], 'drop': 0.0},
                                                   {'on': 'read m:q', 'emit': [[0, reply_line(rq, 102)]]}]}},
    ]


def handshake_catalogue(rp, rq, rule_p):
    """the scenario begins before connect(): the set-up requests are requests like any other, connect() is their caller"""
    return [
        {'name': 'handshake: the node answers *IDN? and stays silent on describe (the rx thread reaches its heartbeat meanwhile)',
         'callers': [rp], 'handshake': True, 'peer': {'rules': handshake_rules(describe=None) + [rule_p]}},
        {'name': 'handshake, activated client: the node stays silent on activate',
         'callers': [rp], 'handshake': True, 'activate': True,
         'peer': {'rules': handshake_rules(activate=None) + [rule_p]}},
        {'name': 'handshake: describe answered after a while, a request and a user disconnect follow',
         'callers': [rp], 'handshake': True, 'closer': {'delay': 0},
         'peer': {'rules': handshake_rules(describe=0.5) + [rule_p]}},
        {'name': 'handshake: describe answered after 6 s, within its time-out (the rx thread has sent a heartbeat meanwhile)',
         'callers': [rp], 'handshake': True, 'peer': {'rules': handshake_rules(describe=6.0) + [rule_p]}},
        {'name': 'handshake, activated client: activate answered after 6 s',
         'callers': [rp], 'handshake': True, 'activate': True,
         'peer': {'rules': handshake_rules(activate=6.0) + [rule_p]}},
        {'name': 'handshake: error reply to describe',
         'callers': [rp], 'handshake': True, 'peer': {'rules': handshake_rules(describe='error') + [rule_p]}},
        {'name': 'handshake: no answer to *IDN?',
         'callers': [rp], 'handshake': True, 'peer': {'rules': handshake_rules(ident=None) + [rule_p]}},
        {'name': 'handshake: the node closes the connection instead of answering describe',
         'callers': [rp], 'handshake': True,
         'peer': {'rules': handshake_rules(describe=None) + [{'on': 'describe', 'emit': [], 'drop': 0.3}, rule_p]}},
    ]


def same_thread_catalogue(rp, rq):
    """one thread owning several entries: its next request after a time-out while the late reply to the previous one is on
    its way; the asynchronous pair queue_request() / get_reply() with several requests outstanding"""
    return [
        {'name': 'a thread\'s next request after a time-out; the late reply to the first arrives while it waits for the second',
         'callers': [dict(rp, then=[rq])], 'quiet_until': 9.9,
         'peer': {'rules': [{'on': 'read m:p', 'emit': [[10.5, reply_line(rp, 101)]]},
                            {'on': 'read m:q', 'emit': [[0.8, reply_line(rq, 102)]]}]}},
        {'name': 'the same with equal keys (the second request is parked behind the timed-out one)',
         'callers': [dict(rp, then=[rp])], 'quiet_until': 9.9,
         'peer': {'rules': [{'on': 'read m:p', 'nth': 0, 'emit': [[10.5, reply_line(rp, 101)]]},
                            {'on': 'read m:p', 'nth': 1, 'emit': [[0.8, reply_line(rp, 102)]]}]}},
        {'name': 'one thread, two requests outstanding (queue_request twice, then get_reply twice), replies in the other order',
         'callers': [dict(rp, pipeline=True, then=[rq]), {'action': 'change', 'spec': 'm:p', 'data': 1}],
         'peer': {'rules': [{'on': 'read m:p', 'emit': [[0.4, reply_line(rp, 101)]]},
                            {'on': 'read m:q', 'emit': [[0, reply_line(rq, 102)]]},
                            {'on': 'change m:p 1', 'emit': [[0.2, 'changed m:p [103, {}]']]}]}},
        {'name': 'one thread, two requests outstanding, a user disconnect at once',
         'callers': [dict(rp, pipeline=True, then=[rq])], 'closer': {'delay': 0},
         'peer': {'rules': [{'on': 'read m:p', 'emit': [[0, reply_line(rp, 101)]]}]}},
    ]


def gen_case(rng, big):
    n = rng.choice([2, 2, 3, 3, 4])
    callers = []
    for _ in range(n):
        c = dict(rng.choice(REQUEST_POOL))
        r = rng.random()
        if r < 0.12:
            c['delay'] = rng.choice([0.3, 5.0, 10.5, 11.0])
        callers.append(c)
    # one thread owning several entries: follow-up requests of the same thread (after a reply, an error, a time-out), or
    # several requests outstanding at once (queue_request ... get_reply)
    for c in list(callers):
        if rng.random() < 0.22:
            c['then'] = [dict(rng.choice(REQUEST_POOL)) for _ in range(rng.choice([1, 1, 2]))]
            if rng.random() < 0.35:
                c['pipeline'] = True
    # the scenario begins before connect(): how the node answers the set-up requests
    handshake = None
    if rng.random() < 0.12:
        handshake = handshake_rules(ident=rng.choice([0, 0, 0, 0.4, None]),
                                    describe=rng.choice([0, 0, 0.3, 4.0, 6.0, 8.0, None, 'error']),
                                    activate=rng.choice([0, 0, 0.3, 6.0, None, 'error']))
    uid = [100]
    rules = []
    counts = {}
    for c in [x for c0 in callers for x in [c0] + list(c0.get('then', ()))]:
        text = sent_text(c)
        nth = counts.get(text, 0)
        counts[text] = nth + 1
        uid[0] += 1
        r = rng.random()
        emit = []
        drop = None
        if r < 0.45:
            emit = [[rng.choice([0, 0, 0.2, 1.5]), reply_line(c, uid[0])]]
        elif r < 0.58:
            emit = [[rng.choice([0, 0.2]), reply_line(c, uid[0], error=True)]]
        elif r < 0.70:
            uid[0] += 1      # every line of a script is unique: outcomes are mapped back to lines by their text
            upd = rng.choice(['update m:p [%d, {"t": 1}]', 'update x:y [%d, {}]', 'update m:q [%d, {"t": 1}]',
                              'error_update m:p ["CommunicationFailed", "x%d", {}]', 'reply m:p {bad json %d']) % (uid[0] - 1)
            emit = [[0, upd], [rng.choice([0, 0.2]), reply_line(c, uid[0])]]
        elif r < 0.80:
            emit = []                                   # never answered
        elif r < 0.87:
            emit = [[rng.choice([10.5, 12.0]), reply_line(c, uid[0])]]    # after the time-out
        elif r < 0.94:
            emit = [[0, reply_line(c, uid[0])]]
            drop = rng.choice([0.0, 0.1])
        else:
            uid[0] += 1
            emit = [[0, reply_line(c, uid[0] - 1)], [0, reply_line(c, uid[0])]]   # answered twice
        rule = {'on': text, 'nth': nth, 'emit': emit}
        if drop is not None:
            rule['drop'] = drop
        rules.append(rule)
    peer = {'rules': rules}
    spont = []
    for _ in range(rng.choice([0, 0, 1, 2])):
        uid[0] += 1
        spont.append([rng.choice([0.0, 0.1, 0.6]),
                      rng.choice(['update m:p [%d, {"t": 1}]' % uid[0], 'update x:y [%d, {}]' % uid[0],
                                  'update m [%d, {}]' % uid[0], 'reply m:q [%d, {}]' % uid[0],
                                  'error_frob . ["ProtocolError", "u%d", {}]' % uid[0]])])
    if spont:
        peer['spont'] = spont
    r = rng.random()
    if r < 0.15:
        peer['drop_at'] = rng.choice([0.0, 0.1, 0.6, 5.0])
    elif r < 0.25:
        peer['drop_after_reads'] = rng.choice([1, 2, 3])
    if rng.random() < 0.3:
        peer['send_error'] = True
    case = {'callers': callers, 'peer': peer}
    if handshake is not None:
        case['handshake'] = True
        peer['rules'] = handshake + peer['rules']
    if rng.random() < 0.35:
        case['closer'] = {'delay': rng.choice([0, 0, 0.1, 0.7, 10.2])}
    if rng.random() < 0.25:
        case['activate'] = True
        r = rng.random()
        if r < 0.5:
            peer['reconnect'] = 'accept'       # the node is back at once
            if r < 0.15:
                peer['refuse_first'] = 1       # ... after one refused attempt
    if case.get('closer') is not None and rng.random() < 0.3:
        case['settle'] = 25
    if rng.random() < 0.25:
        case['fine'] = True
    return case


# ----------------------------------------------------------------------------------------
# judging one run
# ----------------------------------------------------------------------------------------
def requests_for(case, obs, schedule):
    """driver requests for one run; returns (reqs, L) or None when the run never got past connect()"""
    L = to_labels(obs)
    if L is None:
        return None
    base = {'p': 'C11', 'known': [] if case.get('handshake') else KNOWN_IDENTS, 'labels': L['labels']}
    raised = [x for x in (obs['extra'].get('closer'), obs['extra'].get('final')) if x not in (None, 'ok')]
    judge = dict(base, k='judge', callers=L['callers'], closedAt=L['closedAt'], slackMs=20, arrivals=L['arrivals'], marginMs=1500,
                 threadErrors=sorted(f'{k}:{v}' for k, v in obs['errors'].items()), disconnectRaised=raised,
                 alive=obs['alive'], deadlock=obs['deadlock'], unterminated=obs['aborted'] is not None)
    if 'settled' in obs['extra']:
        ev = obs['events']
        cb = next((i for i, e in enumerate(ev) if e[1] == 'close.begin'), len(ev))
        ends = {e[2]: i for i, e in enumerate(ev) if e[1] == 'call.end'}
        judge['afterShutdown'] = dict(obs['extra']['settled'],
                                      userActivity=any(ends.get(i, len(ev)) > cb for i in range(len(flat_requests(case)))))
    reqs = [dict(base, k='replay', locked=True), judge]
    if case.get('fine') and not case.get('handshake'):      # (the two replays below start after a completed connect())
        acts = to_shutdown_acts(obs)
        if acts is not None:
            reqs.append({'p': 'C11', 'k': 'shutdown_replay', 'acts': acts})
        acts = to_life_acts(obs)
        if acts is not None:
            reqs.append({'p': 'C11', 'k': 'life_replay', 'acts': acts, 'activate': bool(case.get('activate', False))})
    return reqs, L


def known_actions():
    from frappy.protocol.messages import REQUEST2REPLY
    return set(REQUEST2REPLY)


def assess(case, schedule, obs, L, replay_ans, judge_ans, res, ctx, shut_ans=None, life_ans=None):
    """compare model and implementation, classify what the Lean monitors report; returns list of (sig, what)"""
    out = []
    if 'driver_error' in replay_ans or 'driver_error' in judge_ans or (shut_ans is not None and 'driver_error' in shut_ans):
        raise RuntimeError(f'driver error: {replay_ans} {judge_ans} {shut_ans}')
    if shut_ans is not None and (ctx is None or ctx.model_ok):
        k = shut_ans['refused_at'] if shut_ans['refused_at'] is not None else shut_ans['mismatch_at']
        if k is not None:
            res.disagreements.append({
                'model': ('shutdown model refuses act %d' % k) if shut_ans['refused_at'] is not None else
                         ('shutdown model: after act %d the thread is at %s, the implementation at %s'
                          % (k, shut_ans.get('got'), shut_ans.get('want'))),
                'impl': {'state': shut_ans['final']}, 'case': {'case': case, 'schedule': schedule}})
    if life_ans is not None and 'driver_error' in life_ans:
        raise RuntimeError(f'driver error: {life_ans}')
    if life_ans is not None and (ctx is None or ctx.model_ok):
        k = life_ans['refused_at'] if life_ans['refused_at'] is not None else life_ans['mismatch_at']
        acts = to_life_acts(obs) if k is not None else None
        if k is not None and life_ans.get('at') in ('c12', 'c13') and acts[k]['ev'] == 'get.io' and life_ans['refused_at'] is not None:
            # a connect() nested in connect() (queue_request of the set-up requests finds self.io gone): not covered by the model,
            # the replay ends here (the run is still judged by the monitors)
            if hasattr(res, 'count'):
                res.count('life-cycle-replays-ended-at-a-nested-connect')
        elif k is not None:
            res.disagreements.append({
                'model': 'life-cycle model: the acting thread is at %s, which does not produce event %d: %s'
                         % (life_ans.get('at'), k, acts[k]),
                'impl': {'events before': [(a['a'], a['ev']) for a in acts[max(0, k - 6):k]], 'state': life_ans['final']},
                'case': {'case': case, 'schedule': schedule}})
    # ---- correspondence
    if ctx is None or ctx.model_ok:
        dis = None
        if replay_ans['refused_at'] is not None:
            k = replay_ans['refused_at']
            dis = {'model': f'cannot follow label {k}: {L["labels"][k]}', 'impl': L['labels'][max(0, k - 6):k + 1]}
        else:
            fin = replay_ans['final']
            ids = L['ids']
            # (a connect() body that ran - even without an attempt: the flag was set - has replaced the queues)
            i0 = next((i for i, e in enumerate(obs['events']) if e[1] == 'start'), 0)
            reconnected = (any(e[1] == 'c.new' for e in obs['events'][1:] if e[0] != 'main')
                           or any(e[1] == 'q.new' for e in obs['events'][i0:]))
            impl = obs['impl_final']
            if not reconnected and 'error' not in impl:
                im = {'active': sorted(ids.get(x, -1) for x in impl['active']),
                      'pending': [ids.get(x, -1) for x in impl['pending']],
                      'txq': [ids.get(x, -1) for x in impl['txq']]}
                mo = {'active': sorted(fin['active']), 'pending': fin['pending'], 'txq': fin['txq']}
                if im != mo:
                    dis = {'model': mo, 'impl': im}
            if dis is None:
                deliv = {i: q for i, q in fin['delivered']}
                for c in L['callers']:
                    if c['out'] in ('reply', 'error') and deliv.get(c['id']) != c['seq']:
                        dis = {'model': f'entry {c["id"]} gets line {deliv.get(c["id"])}', 'impl': f'line {c["seq"]}'}
        if dis is None and L['notes']:
            dis = {'model': 'label conversion', 'impl': L['notes'][:3]}
        if dis is not None:
            res.disagreements.append(dict(dis, case={'case': case, 'schedule': schedule}))
    # ---- the monitors
    known = known_actions()
    j = judge_ans
    if j['first_parked'] is not None:
        out.append(('C11:no_parking', f'a request is parked with its key free (state {j["first_parked"]} of the run)'))
    if j['first_lost'] is not None:
        out.append(('C11:no_lost_request', 'a request whose caller has neither been answered, released nor timed out is '
                    f'nowhere in the client any more (state {j["first_lost"]} of the run)'))
    if not j['no_double']:
        out.append(('C11:no_double_delivery', 'one received line was handed to two callers'))
    flat = flat_requests(case)
    for i, v in enumerate(j['verdicts']):
        c = flat[i][1]
        if v == 'ok':
            continue
        if v == 'wrong-reply':
            kind = 'known-action' if c['action'] in known or c['action'] == 'connect()' else 'unknown-action'
            out.append((f'C11:reply_matches:{kind}',
                        f'caller {i} ({sent_text(c)}) returned {obs["callers"][i]} which does not answer its request'))
        elif v == 'raised':
            out.append((f'C11:caller-raised:{obs["callers"][i].get("cls", obs["callers"][i]["kind"])}',
                        f'caller {i} ({sent_text(c)}) ended with {obs["callers"][i]}'))
        else:
            out.append((f'C11:{v}', f'caller {i} ({sent_text(c)}): {v}: {obs["callers"][i]}'))
    if not j.get('shutdown_final', True):
        st = obs['extra'].get('settled')
        out.append(('C11:shutdown:not-final', f'some time after the user\'s disconnect() had returned, with no request since: '
                    f'worker threads running {st["alive"]}, connected: {st["connected"]}'))
    if not j['shutdown_clean']:
        if obs['deadlock']:
            out.append(('C11:shutdown:deadlock', 'all threads blocked without a time-out pending'))
        if obs['aborted'] is not None and not obs['deadlock']:
            who = '+'.join(sorted({a.rstrip('0123456789') for a in obs['alive']}))
            # (canonicalisation only) did a request connect anew while a disconnect() called by the user was in progress?
            depth, overlap = 0, False
            for e in obs['events']:
                if e[1] in ('close.begin', 'final.begin'):
                    depth += 1
                elif e[1] in ('close.end', 'final.end'):
                    depth -= 1
                elif e[1] == 'c.new' and e[2] and depth > 0 and e[0].startswith('c') and e[0] != 'closer':
                    overlap = True
            if overlap:
                who += ':request-connects-during-user-disconnect'
            out.append((f'C11:shutdown:no-termination:{who}', f'run aborted: {obs["aborted"]}; threads still running: {obs["alive"]}'))
        for k, v in sorted(obs['errors'].items()):
            out.append((f'C11:shutdown:thread-error:{k.rstrip("0123456789")}:{v}', f'{v} escaped thread {k}'))
        for x in (obs['extra'].get('closer'), obs['extra'].get('final')):
            if x not in (None, 'ok'):
                out.append((f'C11:shutdown:disconnect-raises:{x}', f'disconnect() raised {x}'))
        if obs['alive'] and obs['aborted'] is None:
            out.append(('C11:shutdown:threads-alive', f'threads still alive: {obs["alive"]}'))
    return out


def fails_with(case, schedule, sig, driver):
    _, obs = run_case(case, vsched.ReplayThenDefault(schedule))
    r = requests_for(case, obs, schedule)
    if r is None:
        return False
    reqs, L = r
    a = driver.batch(reqs)

    class _R:
        disagreements = []
    return any(s == sig for s, _ in assess(case, schedule, obs, L, a[0], a[1], _R(), None, a[2] if len(a) > 2 else None,
                                           a[3] if len(a) > 3 else None))


def shrink(case, schedule, sig, driver):
    """shorten the schedule (shortest failing prefix, then defaults for single choices), then drop callers"""
    best = list(schedule)
    for n in range(0, len(best)):
        if fails_with(case, best[:n], sig, driver):
            best = best[:n]
            break
    tests = 0
    for i in range(len(best)):
        if best[i] == 0 or tests > 60:
            continue
        cand = best[:i] + [0] + best[i + 1:]
        tests += 1
        if fails_with(case, cand, sig, driver):
            best = cand
    return case, best


def effective_schedule(obs):
    return [c[1] for c in obs['choices']]


# ----------------------------------------------------------------------------------------
# the connection object: real AsynTcp on loopback sockets, the scripted FakeConn, the client end to end on real sockets
# ----------------------------------------------------------------------------------------
CONN_CATALOGUE = [
    ['peerFin', 'readline', 'shutdown', 'disconnect'],
    ['peerRst:linger', 'readline', 'shutdown', 'disconnect'],
    ['peerRst:linger', 'shutdown', 'readline', 'send', 'disconnect'],
    ['peerRst:unread', 'readline', 'shutdown', 'send'],
    ['peerSend', 'peerRst:linger', 'readline', 'readline', 'shutdown'],
    ['peerSend', 'peerFin', 'readline', 'readline', 'send', 'send', 'shutdown'],
    ['readline', 'shutdown', 'readline', 'send', 'shutdown', 'disconnect', 'shutdown', 'disconnect', 'readline', 'send'],
    ['peerSend', 'shutdown', 'readline', 'readline'],
    ['peerRst:linger', 'send', 'send', 'shutdown'],
    ['peerFin', 'send', 'send', 'readline'],
    ['peerRst:linger', 'disconnect'],
    ['peerFin', 'shutdown', 'shutdown'],
    ['peerSend', 'peerSend', 'readline', 'peerRst:unread', 'readline', 'readline', 'shutdown', 'disconnect'],
    # ---- a complete line still in the buffer when the connection object is closed locally
    ['peerSend', 'peerSend', 'send', 'readline', 'disconnect', 'peerSend', 'shutdown', 'readline', 'readline'],
    # ---- a line arriving in segments, with pauses longer than the inter-byte time-out (readline returns None in between)
    ['peerPart', 'readline', 'peerSend', 'readline', 'readline'],
    ['peerSend', 'peerPart', 'readline', 'readline', 'peerPart', 'readline', 'peerSend', 'peerSend', 'readline', 'readline', 'readline'],
    ['peerPart', 'peerSend', 'readline', 'peerPart', 'readline', 'peerFin', 'readline', 'shutdown'],
    ['peerPart', 'readline', 'peerRst:linger', 'readline', 'send', 'disconnect'],
    ['peerPart', 'readline', 'shutdown', 'readline', 'disconnect'],
]
CONN_STEPS = (['peerSend'] * 3 + ['peerPart'] * 2 + ['peerFin', 'peerRst:linger', 'peerRst:unread'] + ['readline'] * 5 + ['send'] * 2
              + ['shutdown'] * 2 + ['disconnect'])
E2E_KINDS = ['fin', 'rst', 'unread', 'user']
E2E_BOUND_MS = 3000


def gen_conn_script(rng):
    return [rng.choice(CONN_STEPS) for _ in range(rng.randint(3, 8))]


def run_conn(impl, script):
    from vlib import loopback
    return loopback.run_conn_script(script) if impl == 'tcp' else loopback.run_fake_script(script)


def conn_sig(events, k):
    e = events[k]
    return 'C11:conn:' + ':'.join([e[1]] + [str(x) for x in e[2]])


def conn_stream(ctx, res):
    scripts = [list(x) for x in CONN_CATALOGUE] + [gen_conn_script(ctx.rng) for _ in range(ctx.budget(40, 300))]
    nfake = len(CONN_CATALOGUE) + ctx.budget(25, 200)
    cases = [('tcp', sc) for sc in scripts] + [('fake', sc) for sc in scripts[:nfake]]
    runs = [(impl, sc, run_conn(impl, sc)) for impl, sc in cases]
    answers = ctx.driver.batch([{'p': 'C11', 'k': 'conn', 'events': ev} for _, _, ev in runs])
    seen = set()
    for (impl, sc, ev), a in zip(runs, answers):
        if 'driver_error' in a:
            raise RuntimeError(f'driver error: {a}')
        res.evaluations += 1
        res.traces += 1
        res.count('conn-' + impl)
        for e in ev:
            if e[0] == 'call':
                res.count('conn.%s=%s' % (e[1], e[2][0]))
        if any(e[0] in ('peerFin', 'peerRst') for e in ev) and any(e[0] == 'call' for e in ev):
            res.nontriv(['conn', impl, ev])
        if a['refused_at'] is not None and ctx.model_ok:
            res.disagreements.append({'model': f'connection model does not allow event {a["refused_at"]}: {ev[a["refused_at"]]}',
                                      'impl': {'impl': impl, 'events': ev}, 'case': {'conn_script': sc, 'impl': impl}})
        if a['first_bad'] is not None:
            k = a['first_bad']
            if impl == 'fake':     # the stand-in itself is wrong: a harness defect, never a finding about frappy
                res.disagreements.append({'model': f'FakeConn breaks the connection contract at event {k}: {ev[k]}',
                                          'impl': {'impl': impl, 'events': ev}, 'case': {'conn_script': sc, 'impl': impl}})
                continue
            sig = conn_sig(ev, k)
            if sig in seen:
                continue
            seen.add(sig)

            def fails(cand):
                ev2 = run_conn(impl, cand)
                a2 = ctx.driver.batch([{'p': 'C11', 'k': 'conn', 'events': ev2}])[0]
                return a2['first_bad'] is not None and conn_sig(ev2, a2['first_bad']) == sig
            small = ddmin(sc, fails, max_tests=40)
            ev3 = run_conn(impl, small)
            res.violations.append({'sig': sig, 'what': f'AsynTcp on a loopback socket, script {small}: observed {ev3} - '
                                   f'the call {ev[k][1]}() ended with {ev[k][2]}, which the client does not expect there',
                                   'case': {'conn_script': small, 'impl': impl}})
    # ---- the client on real sockets
    from vlib import loopback
    for kind in E2E_KINDS * ctx.budget(1, 3):
        obs = loopback.run_client_drop(kind)
        a = ctx.driver.batch([e2e_request(obs)])[0]
        if 'driver_error' in a:
            raise RuntimeError(f'driver error: {a}')
        res.evaluations += 1
        res.traces += 1
        res.count('e2e-%s=%s' % (kind, obs['out']))
        res.nontriv(['e2e', kind, obs['out']])
        for sig, what in e2e_assess(obs, a):
            if sig not in seen:
                seen.add(sig)
                res.violations.append({'sig': sig, 'what': what, 'case': {'e2e': kind}})


def e2e_request(obs):
    return {'p': 'C11', 'k': 'release', 'out': obs['out'], 'seq': 0, 'elapsedMs': obs['elapsedMs'], 'boundMs': E2E_BOUND_MS,
            'threadErrors': obs['threadErrors'], 'disconnectRaised': obs['disconnectRaised'], 'alive': obs['alive'],
            'unterminated': obs['unterminated']}


def e2e_assess(obs, a):
    out = []
    kind = obs['drop']
    if not a['released_promptly']:
        out.append((f'C11:e2e:{kind}:not-released:{obs["out"]}',
                    f'real sockets, connection lost by "{kind}" while a request was pending: the caller ended with '
                    f'{obs["out"]} after {obs["elapsedMs"]} ms (expected: a connection error within {E2E_BOUND_MS} ms)'))
    if not a['shutdown_clean']:
        out.append((f'C11:e2e:{kind}:shutdown', f'real sockets, connection lost by "{kind}": thread errors {obs["threadErrors"]}, '
                    f'disconnect() raised {obs["disconnectRaised"]}, threads left {obs["alive"]}'))
    return out


META = {
    'level_text': 'Five models of the repaired SecopClient, theorems for all reachable states (any number of callers, requests, '
                  'lines, any interleaving, disconnects at any point).  (1) matching LTS, one action per shared access of caller, '
                  'tx, rx and disconnecting threads: reply_matches_partial (known actions), no_double_delivery, no_parking, '
                  'no_spurious_release (while no shutdown / loss has begun no event is set without a reply: no caller leaves '
                  'get_reply with a connection error on a healthy connection), '
                  'no_lost_request (every queued request is still in the machinery or its caller is answered / released / timed out; '
                  'the keys of active_requests are pairwise different), disconnect_releases_all and '
                  'disconnect_leaves_nobody_waiting (a lone disconnect can run to its end, releases every queued/filed/parked '
                  'request and afterwards every request ever queued is accounted for), table facts by decide over the generated '
                  'REQUEST2REPLY.  (2) timed layer (clock, put/wait deadlines, bounded txq): wait_bounded (every caller returns by '
                  't_put + 3 s + 10 s; fairness assumed only for the callers\' own timers).  (3) shutdown protocol (program counters '
                  'of tx, rx and any number of user threads in disconnect(), _txthread/_rxthread, markers, joins): no_join_cycle, '
                  'shutdown_terminates (deadlock-freedom after any shutdown request: user, peer, failing send, or several).  '
                  '(4) connection object (one TCP endpoint: peer lines / FIN / RST, client readline / send / shutdown / disconnect): '
                  'conn_contract (shutdown and disconnect never raise, readline raises nothing but ConnectionClosed and does so '
                  'on a dead connection, only lines the peer sent are returned, None only when no complete line is waiting), '
                  'lines_in_order (lines arriving whole or in segments with pauses longer than the inter-byte time-out: what readline '
                  'hands out is exactly the sequence of lines sent, nothing lost, garbled or reordered).  (5) life cycle across connections (threads as '
                  'records: user disconnect()/request(), tx/rx workers behind their start gate, reconnect threads with cancel events '
                  'and registry; connect() with _lock, queue replacement, _shutdown.clear(), AsynConn accepted/refused, registration '
                  'of the workers; disconnect(shutdown) with its locals; one step per shared access, ~110 program points): '
                  'shutdown_final_partial (in every reachable state, while the shutdown request of a returned user disconnect() '
                  'stands - flag not cleared since - self.io is None and no thread is past the test of the flag inside connect(): '
                  'not connected, and nobody can connect until a user asks), reconnect_never_revokes (a reconnect thread never clears '
                  'the flag).  Counter-traces: reply_matches_fails (F21, recorded), reply_fresh_fails, no_parking_unlocked_fails, '
                  'and on model (5) with the code before the repairs: marker_eaten_hangs (disconnect() waits for ever in '
                  'txthread.join(): proved for every continuation without a fault of the environment), '
                  'older_reconnect_connects_after_shutdown, no_worker_in_loop_fails.  Models (1), (3) and (5) are replayed '
                  'against every (attribute-level) run of the real client under a deterministic scheduler, model (4) against real '
                  'AsynTcp objects on loopback sockets and against the scripted FakeConn; the Lean monitors judge every run '
                  '(per caller: own reply / released / spurious connection error judged at the state in which it returned / late / '
                  'needless time-out: the reply to its own request was readable 1.5 s before its time-out ran out).  Scenarios '
                  'include threads with several requests in a row or outstanding at once, and the handshake of connect() with a '
                  'node that answers late, never, or with an error (connect() judged as the caller of its set-up requests).',
    'level_note': 'Trusted: Lean kernel + propext/Classical.choice/Quot.sound; queue.Queue / Event / RLock / join semantics are '
                  'those of vlib.sched (modelled, not verified); sections under the request lock are atomic in the model; the '
                  'conversion of the effect log to labels (harness) and the JSON glue.  Model (2) is tied to the source by '
                  'reading (anchored comments) and by the generated constants, not by replay.  For model (5) the liveness half of '
                  'the shutdown clauses (disconnect() terminates, the worker threads run out) is NOT proved - only the safety half '
                  'above, the single-connection shutdown_terminates of model (3), two evaluated schedules, and the exploration '
                  '(catalogue scenarios with a node that accepts connections again; systematic, long-preemption and priority '
                  'schedules) with the monitors ShutdownClean / ShutdownFinal; a connect() nested in connect() and time are not in '
                  'model (5).  Model (4) is tied to AsynTcp on the loopback interface of this kernel; AsynSerial is not covered.',
    'trusted': [
        'vlib.sched primitives behave like threading/queue (one thread runs at a time, yield before every primitive)',
        'code executed under SecopClient._request_lock is atomic with respect to the other sections under that lock',
        'the effect-log -> label conversion in harness/props/c11.py (checked by the replay: every label must be enabled); entries are '
        'identified by object identity, the event an entry carries is looked up when an event is set',
        'NeedlessTimeout: the ready times of the lines are those of the scripted peer (virtual time); margin 1.5 s',
        'life-cycle model: every shared access of connect()/disconnect()/the workers/the reconnect threads is a yield point or a '
        'logged effect of the attribute-level runs (attributes io, _txthread, _rxthread, _running, _connthread, _cancel_reconnect, the '
        'registry, queues, events, locks, joins); reads of self.txq / self.pending are not yield points (the queue object used is '
        'checked by its number); list(dict.items()) and dict item assignment are single steps',
        'fewer than 30 requests are queued or parked at any time in the untimed model (the timed layer models the bound)',
        'timed layer: a caller whose put/wait time-out expired takes its step before the clock moves on (tick is not enabled past a blocked caller\'s deadline)',
        'connection model: loopback TCP of the test machine stands for TCP (a peer action is given 30 ms to reach the client; the outcome sets are loose where the kernel is free)',
        'end-to-end stream on real sockets: "promptly" = within 3 s of real time',
    ],
    'modelled_not_verified': [
        'queue.Queue, threading.Event, threading.RLock, Thread.join',
        'AsynTcp (Client/Conn.lean; replayed on loopback sockets) and its stand-in FakeConn (replayed on the same model; its '
        'silent-loss mode send_error=false is an additional adversary outside that model)',
        'decode_msg / encode_msg_frame, the cache update of update-class messages, callbacks',
        'a connect() nested in connect() (the set-up request finds self.io gone): the life-cycle replay ends there',
        'timed layer: transcribed from the source, not replayed against runs',
        'connect() before its workers run (identification, the except arm) on handshake cases: judged by the monitors and replayed on '
        'the matching model only (the shutdown and life-cycle replays start after a completed connect())',
        'AsynConn.readline with a time-out argument (the identification of connect(), frappy.io): only the no-time-out path of the '
        'rx thread is replayed with segmented lines',
    ],
    'assumptions': ['request identifiers are not "." (the rx thread maps "." to None)',
                    'replies carry no request id: a line that matches syntactically and arrives while the request is filed is its '
                    'answer (reply_fresh_fails shows the stronger reading is unimplementable)',
                    'a caller whose request is queued only after the client has connected anew is judged by the time bound only '
                    '(the matching model is of one connection)'],
}


def run(ctx):
    res = Result()
    res.rule = ('a case = 0..4 concurrent requests (equal/distinct keys, known/unknown actions, start delays) x scripted peer '
                '(reply / error reply / interleaved updates / no answer / late answer / duplicate answer / drop / accepts or '
                'refuses further connections) x optional concurrent user disconnect x optional activated client x one schedule '
                '(systematic with bounded preemptions, random, or one long preemption); non-trivial = the run has a parked '
                'request, or a time-out, or a disconnect/drop while a request is pending, or at least two different outcome '
                'kinds; distinct = distinct label sequences.  Connection stream: a script of peer actions and client calls on a '
                'real AsynTcp / on FakeConn; non-trivial = the peer ended the connection and the client called something.  '
                'End-to-end stream: one pending request on real sockets x how the connection is lost')
    rng = ctx.rng
    big = ctx.tier == 'thorough' or ctx.escalated
    maxpre = 3 if big else 2
    runs = []         # (case, schedule, obs)

    def do(case, policy):
        _, obs = run_case(case, policy)
        runs.append((case, effective_schedule(obs), obs))

    shrunk = {}
    try:
        with open(os.path.join(ctx.verif, 'known_findings', 'C11.json')) as f:
            known_sigs = {x['signature'] for x in json.load(f).get('findings', [])}
    except OSError:
        known_sigs = set()

    def flush():
        reqs, meta = [], []
        for case, schedule, obs in runs:
            res.evaluations += 1
            r = requests_for(case, obs, schedule)
            if r is None:
                res.count('connect-failed')
                continue
            meta.append((case, schedule, obs, r[1], len(reqs), len(r[0])))
            reqs += r[0]
        answers = ctx.driver.batch(reqs)
        for j, (case, schedule, obs, L, off, nreq) in enumerate(meta):
            res.traces += 1
            if nreq > 2:
                res.count('shutdown-model-replays')
            if nreq > 3:
                res.count('life-cycle-model-replays')
                if any(e[1] == 'c.new' for e in obs['events'] if e[0] != 'main'):
                    res.count('life-cycle-model-replays-with-reconnection')
            found = assess(case, schedule, obs, L, answers[off], answers[off + 1], res, ctx,
                           answers[off + 2] if nreq > 2 else None, answers[off + 3] if nreq > 3 else None)
            kinds = sorted({c['out'] for c in L['callers']})
            labs = [lb[0] for lb in L['labels']]
            res.count('outcomes=' + '+'.join(kinds))
            res.count('callers=%d' % len(case['callers']))
            res.count('fine' if case.get('fine') else 'coarse')
            for c in L['callers']:
                res.count('outcome.' + c['out'])
            parked = any(lb == ['txTest', True] for lb in L['labels'])
            if parked:
                res.count('with-parked-request')
            if 'closeBegin' in labs and any(x in labs for x in ('closeActive', 'closePending', 'closeTxq')):
                res.count('release-of-pending-requests')
            if parked or 'timeout' in labs or len(kinds) > 1 or any(x in labs for x in ('closeActive', 'closePending', 'closeTxq')):
                res.nontriv(L['labels'])
            if len(res.samples) < 3 and parked and len(L['labels']) < 60:
                res.samples.append({'callers': case['callers'], 'peer': case['peer'], 'schedule': schedule,
                                    'labels': [' '.join(str(x) for x in lb) for lb in L['labels']],
                                    'outcomes': [c['out'] for c in L['callers']]})
            for sig, what in found:
                if sig in shrunk:
                    continue
                if sig in known_sigs:       # recorded (its minimised replay is in the corpus): reported by name, not shrunk again
                    shrunk[sig] = True
                    res.violations.append({'sig': sig, 'what': what, 'case': {'case': case, 'schedule': schedule}})
                    continue
                c2, s2 = shrink(case, schedule, sig, ctx.driver)
                shrunk[sig] = True
                res.violations.append({'sig': sig, 'what': what, 'case': {'case': c2, 'schedule': s2},
                                       'detail': {'original_schedule': schedule}})

        del runs[:]

    # ---------- corpus first ----------
    cdir = os.path.join(ctx.verif, 'corpus', 'C11')
    if os.path.isdir(cdir):
        for fn in sorted(os.listdir(cdir)):
            c = json.load(open(os.path.join(cdir, fn)))
            do(c['case'], vsched.ReplayThenDefault(c['schedule']))
    # ---------- the catalogue, systematically ----------
    per_case = ctx.budget(90, 900)
    for case in catalogue():
        res.count('catalogue-scenarios')
        case = {k: v for k, v in case.items() if k != 'name'}
        for prefix, obs in explore_case(case, maxpre, per_case, rng):
            runs.append((case, effective_schedule(obs), obs))
            if len(runs) >= 3000:
                flush()
        for name in hold_targets(case):
            for k in range(ctx.budget(10, 40)):
                res.count('hold-schedules')
                do(case, HoldPolicy(name, k))
        if case.get('activate') and case.get('settle'):
            # whole activities ordered one after the other, one thread stopped half way (reconnect threads against a user shutdown)
            for order, drop in priority_schedules(case, rng, ctx.budget(60, 3000), 16):
                res.count('priority-schedules')
                do(case, PriorityPolicy(order, drop))
                if len(runs) >= 3000:
                    flush()
    # ---------- generated cases: a few systematic schedules, then random ones ----------
    for _ in range(ctx.budget(100, 550)):
        case = gen_case(rng, big)
        for prefix, obs in explore_case(case, 1 if not big else 2, ctx.budget(6, 30), rng):
            runs.append((case, effective_schedule(obs), obs))
            if len(runs) >= 3000:
                flush()
        for _ in range(ctx.budget(6, 16)):
            do(case, vsched.RandomPolicy(rng, rng.choice([0.1, 0.3, 0.5])))
        for _ in range(ctx.budget(3, 8)):
            res.count('hold-schedules')
            do(case, HoldPolicy(rng.choice(hold_targets(case)), rng.randrange(14)))
    flush()
    conn_stream(ctx, res)
    return res


def replay(ctx, rp):
    c = rp['case']
    if 'conn_script' in c:
        ev = run_conn(c['impl'], c['conn_script'])
        a = ctx.driver.batch([{'p': 'C11', 'k': 'conn', 'events': ev}])[0]
        print('script  :', c['conn_script'], 'on', c['impl'])
        print('observed:', ev)
        print('model   : refuses event', a['refused_at'], '| contract broken at event', a['first_bad'])
        return 1 if a['first_bad'] is not None or a['refused_at'] is not None else 0
    if 'e2e' in c:
        from vlib import loopback
        obs = loopback.run_client_drop(c['e2e'])
        a = ctx.driver.batch([e2e_request(obs)])[0]
        print('observed:', obs)
        print('judge   :', a)
        found = e2e_assess(obs, a)
        for sig, what in found:
            print('fails   :', sig, '-', what)
        return 1 if found else 0
    case, schedule = c['case'], c['schedule']
    _, obs = run_case(case, vsched.ReplayThenDefault(schedule))
    r = requests_for(case, obs, schedule)
    print('callers :', case['callers'])
    print('peer    :', case['peer'])
    print('schedule:', schedule)
    print('impl    :', [{k: v for k, v in o.items() if k not in ('t', 'tput')} for o in obs['callers']],
          'thread errors', obs['errors'], 'alive', obs['alive'], 'deadlock', obs['deadlock'], obs['extra'])
    if r is None:
        print('connect() failed')
        return 2
    reqs, L = r
    a = ctx.driver.batch(reqs)
    print('labels  :', ' | '.join(' '.join(str(x) for x in lb) for lb in L['labels']))
    print('model   :', a[0])
    print('judge   :', {k: v for k, v in a[1].items() if k != 'final'})
    res = Result()
    if len(a) > 2:
        print('shutdown:', a[2])
    if len(a) > 3:
        print('life    :', a[3])
    found = assess(case, schedule, obs, L, a[0], a[1], res, ctx, a[2] if len(a) > 2 else None, a[3] if len(a) > 3 else None)
    for sig, what in found:
        print('fails   :', sig, '-', what)
    for d in res.disagreements:
        print('disagree:', d['model'], '/', d['impl'])
    want = rp.get('sig')
    if want:
        return 1 if any(s == want for s, _ in found) else 0
    return 1 if found or res.disagreements else 0
