"""C11 — Client: every caller gets its own reply or an error, under all interleavings; clean shutdown."""
import json
import os

from check import Result
from vlib import sched as vsched
from vlib import fakes
from vlib.shrink import ddmin

META = {}


# ----------------------------------------------------------------------------------------
# running one scenario on the real SecopClient
# ----------------------------------------------------------------------------------------
class PhasePolicy(vsched.Policy):
    """no preemption during the set-up phase (connect); afterwards `inner` decides; its step index starts at 0 there"""

    def __init__(self, inner):
        self.inner = inner
        self.offset = None

    def start(self, sched):
        self.offset = len(sched.choices)

    def choose(self, enabled, default, step, labels):
        if self.offset is None:
            return default
        return self.inner.choose(enabled, default, step - self.offset, labels)


def _traced_client_class(fine):
    import frappy.client as fc
    if not fine:
        return fc.SecopClient

    class TracedClient(fc.SecopClient):
        io = fakes.YAttr('io', None, log_get=True)
        _txthread = fakes.YAttr('_txthread', None, log_get=True)
        _rxthread = fakes.YAttr('_rxthread', None, log_get=True)
        _running = fakes.YAttr('_running', False, log_get=True)
    TracedClient.__name__ = 'SecopClient'
    return TracedClient


class _Log:
    """logger stand-in that records nothing but counts (texts are never compared)"""

    def __init__(self):
        self.n = {}

    def _mk(level):
        def f(self, fmt, *args, **kwds):
            self.n[level] = self.n.get(level, 0) + 1
        return f
    debug = _mk('debug')
    info = _mk('info')
    warning = _mk('warning')
    error = _mk('error')
    exception = _mk('exception')
    critical = _mk('critical')


def run_case(case, policy, max_steps=6000):
    """one run of the real client under one schedule; returns (scheduler, observation dict)"""
    import frappy.client as fc
    from frappy.errors import SECoPError
    pol = PhasePolicy(policy)
    s = vsched.Scheduler(policy=pol, max_steps=max_steps)
    instr = fakes.Instr(s)
    peer = fakes.Peer(instr, case['peer'])
    outcomes = {}
    extra = {}
    ncall = len(case['callers'])

    def classify(e):
        if isinstance(e, SECoPError):
            return {'kind': 'error', 'cls': type(e).__name__, 'text': str(e)}
        if isinstance(e, TimeoutError):
            return {'kind': 'timeout'}
        if isinstance(e, ConnectionError):
            return {'kind': 'conn', 'cls': type(e).__name__}
        return {'kind': 'other', 'cls': type(e).__name__}

    with s.patched(fc, queue=fakes.LQueueModule(instr, ['txq', 'pending']), Event=fakes.levent_factory(instr),
                   RLock=s.threading.RLock, mkthread=s.mkthread, time=s.time,
                   current_thread=s.threading.current_thread, AsynConn=peer.connect):
        cls = _traced_client_class(case.get('fine', False))
        client = cls('fake:1', _Log())
        client.activate = bool(case.get('activate', False))
        client.active_requests = fakes.YDict(instr, 'active')
        client.cleanup = fakes.YList(instr, 'cleanup')
        if case.get('fine', False):
            client.__dict__['_instr'] = instr

        def caller(i, c):
            if c.get('delay'):
                s.time.sleep(c['delay'])
            instr.ev('call.begin', i, c['action'], c.get('spec'))
            try:
                r = client.request(c['action'], c.get('spec'), c.get('data'))
                out = {'kind': 'reply', 'action': r[0], 'spec': r[1], 'data': json.dumps(r[2])}
            except vsched.SchedAbort:
                raise
            except BaseException as e:    # noqa
                out = classify(e)
            out['t'] = round(s.now, 3)
            outcomes[i] = out
            instr.ev('call.end', i, out['kind'])

        def closer(c):
            if c.get('delay'):
                s.time.sleep(c['delay'])
            instr.ev('close.begin')
            try:
                client.disconnect()
                extra['closer'] = 'ok'
            except vsched.SchedAbort:
                raise
            except BaseException as e:    # noqa
                extra['closer'] = type(e).__name__
            instr.ev('close.end', extra['closer'])

        def main():
            try:
                client.connect()
                extra['connect'] = 'ok'
            except vsched.SchedAbort:
                raise
            except BaseException as e:    # noqa
                extra['connect'] = type(e).__name__
                return
            instr.ev('start')
            peer.start()
            pol.start(s)
            extra['t0'] = s.now
            ts = [s.spawn(f'c{i}', caller, (i, c)) for i, c in enumerate(case['callers'])]
            if case.get('closer') is not None:
                ts.append(s.spawn('closer', closer, (case['closer'],)))
            for t in ts:
                vsched._ThreadHandle(s, t).join()
            instr.ev('final.begin')
            try:
                client.disconnect()
                extra['final'] = 'ok'
            except vsched.SchedAbort:
                raise
            except BaseException as e:    # noqa
                extra['final'] = type(e).__name__
            instr.ev('final.end', extra['final'])

        s.spawn('main', main)
        res = s.run(wall_timeout=20.0)
        client.callbacks.clear()
    obs = {
        'callers': [outcomes.get(i, {'kind': 'none'}) for i in range(ncall)],
        'errors': dict(res['errors']),
        'alive': sorted(res['alive']),
        'deadlock': bool(res['deadlock']),
        'aborted': res['aborted'],
        'extra': extra,
        'events': instr.events,
        't0': extra.get('t0'),
        'now': res['now'],
        'choices': [list(c) for c in s.choices[pol.offset:]] if pol.offset is not None else [],
    }
    return s, obs


def explore_case(case, max_preemptions=2, max_runs=2000, rng=None, fuel=None):
    """systematic enumeration of the schedules of one case after the set-up phase (cf. vlib.sched.explore);
    yields (prefix, obs)"""
    seen = set()
    stack = [[]]
    runs = 0
    while stack and runs < max_runs:
        prefix = stack.pop()
        key = tuple(prefix)
        if key in seen:
            continue
        seen.add(key)
        _, obs = run_case(case, vsched.ReplayThenDefault(prefix))
        runs += 1
        yield prefix, obs
        ch = obs['choices']
        used = sum(1 for i, c in enumerate(prefix) if i < len(ch) and c != ch[i][2])
        if used >= max_preemptions:
            continue
        children = []
        for pos in range(len(prefix), len(ch)):
            n, chosen, default = ch[pos]
            base = [ch[i][1] for i in range(pos)]
            for alt in range(n):
                if alt != chosen:
                    children.append(base + [alt])
        if rng is not None:
            rng.shuffle(children)
        stack.extend(reversed(children))
