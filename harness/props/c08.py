"""C08 — activation / deactivation boundaries are exact under any interleaving with concurrent updates.

The real Dispatcher + modules run under the deterministic scheduler (vlib.sched): request threads `h<cid>` (one per
connection, a script of activate/deactivate/ident/disconnect and read/change requests with the scripted result of the driver
function) and updater threads `u<k>` (a script of assignments, each with its time stamp).  Initial states (`init`), omit
windows (`omit`) and the module class (`cls`) are part of a case.
Every explored schedule is (1) replayed label by label on the Lean model (`k: replay`) and compared through the
observable trace, the final cache and the dispatcher's tables after every completed operation, (2) judged by the Lean
monitors (`k: judge`).  Nothing about the property is decided here.

Two families of schedules: fine-grained ones (non-preempting default + bounded deviations / random walks, at the yield points
request arrival `recv`, lock acquire / release, send) for short scenarios, and operation-level histories (`SerialPolicy`:
whole requests / assignments in a given or random global order) for long scenarios, where what one operation leaves behind
in the tables shows in what a later operation of another thread does.
"""
import json
import os

import frappy.modulebase
import frappy.protocol.dispatcher
from frappy.datatypes import FloatRange
from frappy.errors import CommunicationFailedError, ConfigError, HardwareError
from frappy.modules import Command, Parameter, Readable

from check import Result
from vlib.node import Conn, Node
from vlib.sched import RandomPolicy, ReplayThenDefault, Scheduler, SLock, explore
from vlib.shrink import ddmin

META = {
    'level_text': 'Theorems (for all interleavings of any number of connections and updaters, all module/parameter names as strings, any '
                  'outcome of the logging switch-off, any initial cache (values, error states, "not initialized"), any per-parameter omit '
                  'window, any time stamps, any read / change requests with any driver result, on the labelled transition system that '
                  'models the repaired dispatcher): '
                  'snapshot_complete, no_loss, quiescent_last_eq_cache and quiescent_last_eq_node_cache (the last message equals the '
                  'node\'s entry, time stamp included), silent_after_deactivate, each also in an index form that says the '
                  'English sentence without the monitor (silent_after_deactivate_explicit, snapshot_complete_explicit with replies_match, '
                  'no_loss_explicit with firm_in_force_explicit; snapshot_monitor_sound / noloss_monitor_sound for ANY trace, i.e. also '
                  'for the implementation traces the monitors judge), others_unaffected, tables_others_unaffected + broadcast_leaves_tables '
                  '(no action changes a table row of another connection; an updater changes none), tables_own (every table entry under '
                  'whatever key is an activation of that very connection still possibly in force), deactivate_exact (the string tests of '
                  'unsubscribe = the matching deactivate), only_exported (no update of a parameter / module that is not exported is ever '
                  'delivered, whatever is activated or assigned), cache_changes_only_by_store + omitted_announcement_stores_nothing (the '
                  'cache, time stamps included, changes only by a store that is in the trace), omit_window_exact, '
                  'request_update_within_request + request_stores_what_the_request_says (an update produced by a read / change request is '
                  'announced by the requesting thread inside that request, for that parameter, with the driver\'s result, and is covered '
                  'by all clauses above), deadlock_free (_lock -> accessLock -> updateLock -> _subscription_lock).  The model is tied to '
                  'frappy/protocol/dispatcher.py and modulebase.announceUpdate / the read_ and write_ wrappers by replaying every explored '
                  'schedule of the real code label by label (request arrival, lock acquire/release, send, end) on the model and comparing '
                  'the global observable trace (values, error classes, time stamps), the final cache and the dispatcher\'s tables '
                  '(_active_connections, _subscriptions) after every completed operation; the Lean monitors of Spec/C08 judge every '
                  'implementation trace, the quiescence clause against the cache read from the real node.',
    'level_note': 'Trusted: Lean kernel + axioms propext/Classical.choice/Quot.sound; the deterministic scheduler preempts only at request '
                  'arrival, lock and send primitives; threading.RLock, the TCP handler send lock and set iteration order are modelled, not '
                  'verified; time stamps are scripted whole numbers (the clock inside announceUpdate is a stand-in).',
    'trusted': [
        'the scheduler yields only at request arrival, lock acquire/release and at send_reply: a preemption inside broadcast_event '
        'between the three set reads is not exercised by the harness (the model covers it by the lock discipline: the sets are only read '
        'and written under _subscription_lock, and the tables are compared with the model after every completed operation)',
        'time stamps: frappy.modulebase.time is replaced by a scripted clock (a thread carrying out a scripted assignment reads that '
        'assignment\'s time stamp, start-up reads a constant), so every time stamp is a whole number; the omit-window comparison is '
        'transcribed exactly (Cfg.omitWithin), real float time is not run',
        'the `emit` event is recorded by a paramCallback, i.e. right after the store under the update lock and before the broadcast, '
        '`emitDone` at the return of announceUpdate (a different order in announceUpdate shows as a correspondence disagreement, not as a '
        'verdict)',
        'the reply of a request is sent by the connection thread after handle_request returned, outside every dispatcher lock '
        '(frappy/protocol/interface/handler.py), which the harness thread reproduces; the request marker is written by the harness '
        'thread right after the `recv` scheduling point',
        'which read / change requests are refused, answered from the cache, or go through the read_/write_ wrapper is computed by the '
        'model (rwKindOf, a transcription of the checks of _getParameterValue / _setParameterValue) from the parameter table the harness '
        'reads off the real objects (readonly, constant, has a read_ function); the theorems hold for every such table (Cfg.rw is '
        'universally quantified); what the driver function returns or raises is part of the request script',
    ],
    'modelled_not_verified': [
        'Python threading.RLock semantics (mutual exclusion, re-entrance, no fairness)',
        'the TCP handler send lock / socket: send_reply is one atomic labelled step',
        'iteration order of the listener set in broadcast_event (the model allows any order; the replay follows the real one)',
        'module.accessLock: acquired / released by request threads only (no lock state; never contended while _lock is held)',
    ],
    'assumptions': ['updaters assign through setattr / announceUpdate only (a poller going through read_<p> takes accessLock first: not '
                    'modelled for updater threads); values are integral floats; errors are SECoP error classes',
                    'one request thread per connection; a connection is disconnected by its own thread',
                    'data of change requests passes import_value / validate / the limit checks (values are chosen so)'],
}


class SerialPolicy:
    """operation-level interleaving: a thread that has started a request / an assignment runs it to its end (all locks
    released, reply sent); between operations the next thread is taken from `order` (thread names, one entry per
    operation) or, when `order` is None, drawn from `rng`.  `p_fine` > 0 adds a few ordinary preemptions inside operations.
    `run_case` binds the scheduler and the per-thread "stands at the start of an operation" flags."""

    def __init__(self, order=None, rng=None, p_fine=0.0):
        self.order = None if order is None else list(order)
        self.rng, self.p_fine = rng, p_fine
        self.sched, self.boundary = None, {}

    def bind(self, sched, boundary):
        self.sched, self.boundary = sched, boundary

    def choose(self, enabled, default, step, labels):
        prev = self.sched.current if self.sched is not None else None
        if prev in enabled and not self.boundary.get(prev.name):
            if self.p_fine and self.rng.random() < self.p_fine:
                return self.rng.randrange(len(enabled))
            return enabled.index(prev)
        if self.order is not None:
            while self.order:
                name = self.order.pop(0)
                for i, t in enumerate(enabled):
                    if t.name == name:
                        return i
            return 0
        return self.rng.randrange(len(enabled))


def policy_for(case):
    if 'choices' in case:
        return ReplayThenDefault(case['choices'])
    if 'serial' in case:
        return SerialPolicy(order=case['serial'])
    return ReplayThenDefault([])


ERRS = [(HardwareError, HardwareError.name), (CommunicationFailedError, CommunicationFailedError.name)]
# error classes as they are observed (index = the model's error class): what updaters / driver functions raise (ERRS), and the
# start-up state of a parameter without value ("not initialized": ConfigError, no time stamp)
OBS_ERRS = [HardwareError, CommunicationFailedError, ConfigError]
UNINIT = 2
# attribute names updaters assign to; exported as value, target, target_max, _a, _ab: `target`/`target_max` and `_a`/`_ab`
# are prefix-related specifiers, as are the module names T / T2 / T_x used by the scenarios
FLOATS = ['value', 'a', 'ab', 'target', 'target_max']
T0 = 1000          # the clock while nothing is scripted: every time stamp taken at start-up is exactly this


class M(Readable):
    a = Parameter('x', FloatRange(), default=0.0, readonly=False)
    ab = Parameter('y', FloatRange(), default=0.0, readonly=False)
    target = Parameter('t', FloatRange(), default=0.0, readonly=False)
    target_max = Parameter('tm', FloatRange(), default=0.0, readonly=False, export='target_max')
    h = Parameter('not exported', FloatRange(), default=0.0, readonly=False, export=False)

    driver = None      # set per run: driver(kind, attr, value) -> what the hardware answers (or raises) for this thread

    @Command()
    def go(self):
        """a command (activate on it must fail)"""

    def _drv(self, kind, attr, value):
        if self.driver is not None:
            return self.driver(self, kind, attr, value)
        return getattr(self, attr) if kind == 'read' else value

    def read_value(self):
        return self._drv('read', 'value', None)

    def read_status(self):
        return self.status

    def read_a(self):
        return self._drv('read', 'a', None)

    def read_ab(self):
        return self._drv('read', 'ab', None)

    def write_a(self, value):
        return self._drv('write', 'a', value)

    def write_ab(self, value):
        return self._drv('write', 'ab', value)

    def write_target(self, value):
        return self._drv('write', 'target', value)

    def write_target_max(self, value):
        return self._drv('write', 'target_max', value)


class M2(M):
    """a second parameter without default: like `value` it starts as "not initialized" unless the run initialises it"""
    nd = Parameter('no default', FloatRange(), readonly=False)

    def read_nd(self):
        return self._drv('read', 'nd', None)

    def write_nd(self, value):
        return self._drv('write', 'nd', value)


CLASSES = {'M': M, 'M2': M2}
READ_FN = ('value', 'a', 'ab', 'nd')      # attributes with a read_ function that goes through the driver hook


def _stamp(ts):
    """a time stamp as the model counts it: none -> 0; the scripted ones are whole numbers"""
    if not ts:
        return 0
    return int(ts) if float(ts) == int(ts) else 999999


def _err_index(name):
    names = [c.__name__ for c in OBS_ERRS]
    return names.index(name) if name in names else 99


def entry_of(pobj):
    """observation of a parameter's current state: ["v", int, t] | ["e", error class index, t]"""
    t = _stamp(pobj.timestamp)
    if pobj.readerror:
        return ['e', _err_index(type(pobj.readerror).__name__), t]
    v = pobj.value
    if isinstance(v, (tuple, list)):
        v = v[0]
    return ['v', int(v), t]


def msg_entry(msg):
    """the same observation decoded from an update / error_update message (value or error class, qualifier t)"""
    t = _stamp(msg[2][-1].get('t'))
    if msg[0] == 'error_update':
        names = [c.name for c in OBS_ERRS]
        return ['e', names.index(msg[2][0]) if msg[2][0] in names else 99, t]
    v = msg[2][0]
    if isinstance(v, (tuple, list)):
        v = v[0]
    return ['v', int(v), t]


class ScriptClock:
    """stand-in for `time` in frappy.modulebase: a thread that carries out a scripted assignment reads the time stamp of that
    assignment; everything else (start-up) reads T0.  So every time stamp in the node is a whole number the model knows."""

    def __init__(self, sched):
        self._sched, self._base = sched, sched.time
        self.override = {}

    def time(self):
        me = self._sched.me()
        t = self.override.get(me.name) if me is not None else None
        return float(T0 if t is None else t)

    def __getattr__(self, name):
        return getattr(self._base, name)


RW = ('read', 'change')


def rw_spec(r):
    """the specifier of a read / change request in full: `modulename, pname = specifier, 'value'` ('target' for a change)"""
    spec = r[1]
    return spec if ':' in spec else spec + (':target' if r[0] == 'change' else ':value')


def param_table(node):
    """the static facts the dispatcher's checks in front of the driver call look at, for every parameter of every module of the
    node (also modules that are not exported) that has an exported name: [module, exported name, readonly, constant, the class
    defines read_<p>].  The model (`rwKindOf`) decides from these what a read / change request does."""
    out = []
    for mn, mo in node.secnode.modules.items():
        for ename, attr in mo.accessiblename2attr.items():
            pobj = mo.parameters.get(attr)
            if pobj is not None:
                has_read = getattr(type(mo), 'read_' + attr).poll is not False or attr in READ_FN
                out.append([mn, ename, bool(pobj.readonly), pobj.constant is not None, bool(has_read)])
    return sorted(out)


class Info:
    """static description of the node, taken from the real objects"""

    def __init__(self, node):
        self.mods = list(node.secnode.export)
        self.pars, self.attr = {}, {}
        for mn in self.mods:
            mo = node.modules[mn]
            pobjs = [pobj for pobj in mo.accessibles.values() if isinstance(pobj, Parameter) and pobj.export]
            self.pars[mn] = [pobj.export for pobj in pobjs]
            self.attr[mn] = {pobj.name: pobj.export for pobj in pobjs}

    def mid(self, mn):          # names travel as they are: the Lean side parses specifiers like the dispatcher does
        return mn

    def pid(self, mn, export):
        return export

    def scope(self, spec):
        return spec or None

    def req(self, r):
        if r[0] in RW:
            return [r[0], rw_spec(r), r[2]]
        if r[0] == 'bad':
            return ['bad', r[1], r[2] or '']
        return [r[0], self.scope(r[1])] if r[0] in ('activate', 'deactivate') else [r[0]]

    def cache(self, node):
        return [[self.mid(mn), self.pid(mn, pobj.export), entry_of(pobj)] for mn in self.mods
                for pobj in node.modules[mn].accessibles.values() if isinstance(pobj, Parameter) and pobj.export]


def emitter(name):
    """who stores a value, as the model numbers the updater slots: 2k for updater thread k, 2c+1 for the request thread of
    connection c (which runs announceUpdate itself inside a read / change request)"""
    if name[:1] == 'u' and name[1:].isdigit():
        return 2 * int(name[1:])
    if name[:1] == 'h' and name[1:].isdigit():
        return 2 * int(name[1:]) + 1
    return None


class SConn(Conn):
    def __init__(self, cid, sched, events, info, stat, completed=None):
        super().__init__(cid, sched)
        self.events, self.info, self.stat = events, info, stat
        self.completed = completed or (lambda: None)
        self.current = None       # the request in progress (set by the handler thread)

    def __hash__(self):           # deterministic iteration order of the dispatcher's listener sets
        return self.cid

    def send_reply(self, msg):
        self.sched.yield_(('send', self.cid))
        if msg[0] in ('update', 'error_update'):
            mn, pn = msg[1].split(':', 1)
            self.events.append(['deliver', self.cid, self.info.mid(mn), self.info.pid(mn, pn), msg_entry(msg)])
            me = self.sched.me()
            if me is not None and me.name.startswith('u'):
                self.stat['bcast'] += 1
                self.stat['during' if self.current is not None and self.current[0] == 'activate' else 'after'] += 1
            elif me is not None and self.sched_current_rw(me):
                self.stat['bcast'] += 1
                self.stat['own'] += 1
            else:
                self.stat['snap'] += 1
        elif msg[0] != 'log':
            self.events.append(['reply', self.cid, self.current, not msg[0].startswith('error_')])
            self.completed()
            self.current = None

    def sched_current_rw(self, me):
        """is the sending thread a request thread inside a read / change (it delivers an update it produced itself)"""
        return self.stat['rw_thread'].get(me.name, False)


def _name(lock, name):
    if isinstance(lock, SLock):
        lock.name = name


def _tid(name):
    if name[:1] in 'hu' and name[1:].isdigit():
        return [name[0], int(name[1:]) * (2 if name[0] == 'u' else 1)]
    return name


def _label(label, info):
    def lk(n):
        if n in ('disp', 'sub'):
            return n
        if isinstance(n, str) and n.startswith('upd:'):
            return ['upd', info.mid(n[4:])]
        if isinstance(n, str) and n.startswith('acc:'):
            return ['acc', info.mid(n[4:])]
        return str(n)
    if label[0] in ('acquire', 'release') and len(label) == 2:
        return [label[0], lk(label[1])]
    if label[0] == 'send' and len(label) == 2:
        return ['send', label[1]]
    if label == ('end',):
        return ['end']
    if label == ('recv',):
        return ['recv']
    return str(label)


def omit_cfg(case):
    """case['omit']: list of attributes with update_unchanged='never' ('*': every module gets a long omit_unchanged_within), or
    a dict attribute -> window ('never' | seconds), '*' -> the module's omit_unchanged_within"""
    omit = case.get('omit') or {}
    if isinstance(omit, list):
        omit = {a: (1000 if a == '*' else 'never') for a in omit}
    return omit


def with_stamps(script, start=T0 + 1):
    """assignments [module, attribute, entry]: an entry without time stamp gets start + its position"""
    return [[mn, a, e if len(e) > 2 else [e[0], e[1], start + i]] for i, (mn, a, e) in enumerate(script)]


def run_case(case, policy):
    """run one case on the real code under the scheduler; returns (scheduler, observation dict)"""
    s = Scheduler(policy=policy, max_steps=5000)
    events, emitted, blocked, tabs, boundary = [], {}, [], [], {}
    stat = {'bcast': 0, 'snap': 0, 'during': 0, 'after': 0, 'dropped': 0, 'hidden': 0, 'own': 0, 'rw_thread': {},
            'uninit': 0, 'window-ended': 0}
    orig_block, orig_yield = s.block, s.yield_
    clock = ScriptClock(s)
    script_value = {}         # thread name -> what the driver function called by this thread returns / raises

    def yield_(label):
        orig_yield(label)
        me = s.me()
        if me is not None:
            boundary[me.name] = False     # resumed after its first yield point: the operation is under way
    s.yield_ = yield_
    if hasattr(policy, 'bind'):
        policy.bind(s, boundary)

    def block(label, cond, timeout=None):
        blocked.append(label[1] if len(label) > 1 else label[0])
        return orig_block(label, cond, timeout)
    s.block = block

    def driver(mo, kind, attr, value):
        me = s.me()
        e = script_value.get(me.name) if me is not None else None
        if e is None:
            return getattr(mo, attr) if kind == 'read' else value
        if e[0] == 'e':
            raise ERRS[e[1]][0]('x')
        return float(e[1])

    with s.patched(frappy.modulebase, threading=s.threading, time=clock, mkthread=s.mkthread), \
            s.patched(frappy.protocol.dispatcher, threading=s.threading, currenttime=s.time):
        # unchanged values: see omit_cfg; everything else: window 0
        omit = omit_cfg(case)
        mcfg = {'cls': CLASSES[case.get('cls', 'M')], 'description': 'x'}
        mcfg.update({a: {'update_unchanged': w} for a, w in omit.items() if a != '*'})
        if '*' in omit:
            mcfg['omit_unchanged_within'] = omit['*']
        modcfg = {mn: dict(mcfg, description=mn) for mn in case['mods']}
        modcfg.update({mn: dict(mcfg, description=mn, export=False) for mn in case.get('hidden_mods', [])})
        node = Node(modcfg, omit_unchanged_within=0)
        info = Info(node)
        omit_within = [[info.mid(mn), pobj.export, int(min(pobj.omit_unchanged_within, 10 ** 9))] for mn in info.mods
                       for pobj in node.modules[mn].parameters.values() if pobj.export and pobj.omit_unchanged_within > 0]
        _name(node.dispatcher._lock, 'disp')
        _name(getattr(node.dispatcher, '_subscription_lock', None), 'sub')
        for mn, mo in node.modules.items():
            _name(mo.updateLock, 'upd:' + mn)
            _name(mo.accessLock, 'acc:' + mn)
            mo.driver = driver
        # initial states: case['init'][module][attribute] = 'uninit' (left as the start-up code leaves a parameter without value:
        # ConfigError "not initialized", no time stamp) | an entry (announced at T0); without the key: initialised with its default
        init = case.get('init', {})
        for mn in info.mods:
            mo = node.modules[mn]
            for pobj in mo.parameters.values():
                how = init.get(mn, {}).get(pobj.name)
                if how == 'uninit':
                    if pobj.export and pobj.readerror:
                        stat['uninit'] += 1
                    continue
                if how is not None:
                    if how[0] == 'e':
                        mo.announceUpdate(pobj.name, err=ERRS[how[1]][0]('x'))
                    else:
                        mo.announceUpdate(pobj.name, float(how[1]))
                elif pobj.export and pobj.readerror:      # a parameter without default starts as "not initialized"
                    mo.announceUpdate(pobj.name, pobj.value)
        cache0 = info.cache(node)

        def completed():
            """the dispatcher's tables after a completed operation (a reply was sent / an announced assignment returned)"""
            d = node.dispatcher
            tabs.append([len(events) - 1, {
                'active': sorted(c.cid for c in d._active_connections),
                'subs': sorted([k, sorted(c.cid for c in v)] for k, v in d._subscriptions.items() if v)}])
        if case.get('broken_logging'):
            # remote logging not set up: no RemoteLogHandler above the module loggers, so that
            # Module.setRemoteLogging -> ValueError('remote handler not found') on every *IDN? and disconnect
            # (mlzlog children carry copies of the parent's handlers and do not propagate)
            node.root.removeHandler(node.loghandler)
            for mo in node.modules.values():
                log = mo.log
                while log is not None:
                    log.removeHandler(node.loghandler)
                    log = log.parent

        def mkcb(m_id, p_id, pobj):
            def cb(*value_err):
                me = s.me()
                eid = emitter(me.name) if me is not None else None
                if eid is not None:
                    events.append(['emit', eid, m_id, p_id, entry_of(pobj)])
                    emitted[eid] = True
            return cb

        def wrap_announce(mo):
            """the end of an announced assignment (`emitDone`) is the return of announceUpdate, whoever called it: an updater
            thread, or a request thread inside read_<p> / write_<p>"""
            orig = mo.announceUpdate

            def announce(*args, **kwds):
                try:
                    return orig(*args, **kwds)
                finally:
                    me = s.me()
                    eid = emitter(me.name) if me is not None else None
                    if eid is not None and emitted.get(eid):
                        events.append(['emitDone', eid])
                        completed()
                        emitted[eid] = False
                        emitted[('did', eid)] = True
            mo.announceUpdate = announce
        floats = FLOATS + (['nd'] if case.get('cls') == 'M2' else [])
        for mn in info.mods:
            mo = node.modules[mn]
            for a in floats:      # (a parameter that is not exported gets no callback here: nothing is announced for it)
                mo.addCallback(a, mkcb(info.mid(mn), info.pid(mn, info.attr[mn][a]), mo.parameters[a]))
        for mo in node.modules.values():
            wrap_announce(mo)
        conns = {}
        for cid in range(1, case['nconn'] + 1):
            conns[cid] = node.conns[cid] = SConn(cid, s, events, info, stat, completed)
            node.dispatcher.add_connection(conns[cid])

        def handler(cid, script):
            conn = conns[cid]
            name = 'h%d' % cid
            for i, r in enumerate(script):
                boundary[name] = i > 0                # a thread that has not started stands before its first operation anyway
                s.yield_(('recv',))                   # the request arrives: other threads may run before the marker is written
                rj = info.req(r)
                events.append(['reqStart', cid, rj])
                conn.current = rj
                if r[0] == 'disconnect':
                    try:
                        node.disconnect(conn)      # no reply is sent; an exception is only logged by the real handler
                        ok = True
                    except Exception:
                        ok = False
                    events.append(['reply', cid, rj, ok])
                    completed()
                    conn.current = None
                    break
                if r[0] == 'ident':
                    reply = node.request(conn, '*IDN?')
                elif r[0] in RW:
                    e = r[2]
                    script_value[name], clock.override[name], stat['rw_thread'][name] = e, e[2], True
                    try:
                        reply = node.request(conn, r[0], r[1], float(e[1]) if r[0] == 'change' else None)
                    finally:
                        script_value[name], clock.override[name], stat['rw_thread'][name] = None, None, False
                elif r[0] == 'bad':      # refused on the first lines of the handler: ['bad', action, specifier, data]
                    reply = node.request(conn, r[1], r[2], r[3])
                else:
                    reply = node.request(conn, r[0], r[1], None)
                conn.send_reply(reply)
            s.yield_(('end',))

        def updater(u, script):
            name, eid = 'u%d' % u, 2 * u
            for i, (mn, a, e) in enumerate(script):
                boundary[name] = i > 0
                mo = node.modules[mn]
                pobj = mo.parameters[a]
                before = entry_of(pobj)
                emitted[('did', eid)] = False
                if e[0] == 'e':
                    mo.announceUpdate(a, err=ERRS[e[1]][0]('x'), timestamp=float(e[2]))
                else:
                    clock.override[name] = e[2]       # the clock read inside announceUpdate
                    try:
                        setattr(mo, a, float(e[1]))
                    finally:
                        clock.override[name] = None
                if emitted[('did', eid)]:
                    if e[0] == 'v' and before[:2] == e[:2]:
                        stat['window-ended'] += 1     # the same value again, announced: its window was over (or is 0)
                elif e[0] == 'v' and a in info.attr.get(mn, {}):
                    stat['dropped'] += 1          # an unchanged value inside its omit window
                elif a not in info.attr.get(mn, {}):
                    stat['hidden'] += 1           # a parameter that is not exported (or of a module that is not)
            s.yield_(('end',))

        hs = sorted((int(c), scr) for c, scr in case['handlers'].items())
        us = sorted((int(u), with_stamps(scr)) for u, scr in case['updaters'].items())
        params = param_table(node)
        for cid, scr in hs:
            s.spawn('h%d' % cid, handler, (cid, scr))
        for u, scr in us:
            s.spawn('u%d' % u, updater, (u, scr))
        result = s.run(wall_timeout=20)
        cache1 = info.cache(node)
    # every Node registers its logger tree with the logging manager for good; Logger.setLevel walks all registered
    # loggers, so thousands of runs in one process would get slower and slower: forget this run's loggers
    import logging
    registry = logging.Logger.manager.loggerDict
    for k in [k for k in registry if k == node.root.name or k.startswith(node.root.name + '.')]:
        del registry[k]
    if result['aborted'] not in (None, 'deadlock'):
        raise RuntimeError(f'scheduler aborted ({result["aborted"]}) on case {json.dumps(case)}')
    setup = {'mods': [[mn, list(info.pars[mn])] for mn in info.mods],
             'conns': sorted(conns), 'cache': cache0, 'logFails': sorted(conns) if case.get('broken_logging') else [],
             'omitWithin': omit_within, 'params': params}
    stat.pop('rw_thread')
    obs = {'events': events, 'cache': cache1, 'result': result, 'setup': setup, 'stat': stat, 'blocked': blocked, 'tabs': tabs,
           'sched': [[_tid(t), _label(l, info)] for t, l in s.trace],
           'handlers': [[cid, [info.req(r) for r in scr]] for cid, scr in hs],
           'updaters': [[2 * u, [[info.mid(mn), info.attr.get(mn, {}).get(a, '#' + a), e] for mn, a, e in scr]] for u, scr in us],
           'choices': [c for _, c, _ in s.choices], 'preempt': sum(1 for _, c, d in s.choices if c != d)}
    return s, obs


def requests(obs):
    su = obs['setup']
    finished = not obs['result']['deadlock'] and not obs['result']['errors']
    judge = dict(su, p='C08', k='judge', trace=obs['events'])
    if finished:
        judge['final'] = obs['cache']      # the node's cache read from the real objects at the end of the run
    return [dict(su, p='C08', k='replay', handlers=obs['handlers'], updaters=obs['updaters'], sched=obs['sched']), judge]


def _diff(a, b):
    for i in range(max(len(a), len(b))):
        x, y = (a[i] if i < len(a) else None), (b[i] if i < len(b) else None)
        if x != y:
            return {'index': i, 'model': x, 'impl': y}
    return None


def _tabs(tabs):
    """canonical form of the model's table snapshots: keys sorted"""
    return [[i, {'active': t['active'], 'subs': sorted(t['subs'])}] for i, t in tabs]


def _odd(sched):
    """schedule entries the model has no label for (unexpected thread / lock / primitive)"""
    return [x for x in sched if isinstance(x[0], str) or isinstance(x[1], str)
            or (x[1][0] in ('acquire', 'release') and isinstance(x[1][1], str) and x[1][1] not in ('disp', 'sub'))]


def assess(obs, model, judge, model_ok=True):
    """-> (violations [(sig, what)], disagreement dict | None) from the driver's answers"""
    ev, res = obs['events'], obs['result']
    viols, dis = [], None
    if res['errors']:
        viols.append(('C08:thread-exception:' + ','.join(sorted(set(res['errors'].values()))),
                      f'exception escaped a thread: {res["errors"]}'))
    if res['deadlock']:
        viols.append(('C08:deadlock', f'all threads blocked (deadlock); last lock waits: {obs["blocked"][-3:]}'))
    if 'driver_error' in judge:
        return viols, {'model': {'judge': judge}, 'impl': ev[:8]}
    for clause in ('silent', 'snapshot', 'noloss', 'exported'):
        i = judge[clause]
        if i is None:
            continue
        bad = ev[i]
        if clause == 'exported':
            shape = 'update-of-unexported-parameter'
        elif clause == 'silent':
            prev = [e for e in ev[:i] if e[0] == 'reply' and e[1] == bad[1]]
            kind = 'never-active'
            if prev:
                r, ok = prev[-1][2], prev[-1][3]
                kind = {'deactivate': 'inactive', 'ident': 'ident', 'disconnect': 'disconnect', 'read': 'read', 'change': 'change'}.get(
                    r[0], 'active' if ok else 'failed-activate')
            shape = 'update-after-' + kind
        elif clause == 'snapshot':
            shape = 'not-current' if bad[0] == 'deliver' else 'incomplete'
        else:
            shape = 'lost-update'
        viols.append((f'C08:{clause}:{shape}', f'{clause} monitor rejects event {i} {bad} of {ev}'))
    if judge['quiescent'] is not None:
        viols.append(('C08:quiescent:last-differs-from-cache',
                      f'quiescent: last update of (conn, mod, par)={judge["quiescent"]} differs from the cache; trace {ev}'))
    # ---- correspondence
    finished = not res['deadlock'] and not res['errors']
    if finished and not judge['quiet']:
        dis = {'model': {'judge_quiet': False}, 'impl': ev[-4:]}
    elif judge['cache'] != obs['cache'] and finished:
        dis = {'model': {'judge_cache': _diff(judge['cache'], obs['cache'])}, 'impl': 'final cache differs from the trace'}
    if model_ok and dis is None:
        if 'driver_error' in model:
            dis = {'model': model, 'impl': {'unmapped_labels': _odd(obs['sched'])[:3]}}
        elif model['stuck'] is not None:
            k = model['stuck']
            dis = {'model': {'stuck': k, 'why': model['why'], 'trace_so_far': model['trace'][-3:]},
                   'impl': {'label': obs['sched'][k], 'before': obs['sched'][max(0, k - 4):k]}}
        elif bool(model['deadlock']) != bool(res['deadlock']):
            dis = {'model': {'deadlock': model['deadlock'], 'done': model['done']}, 'impl': {'deadlock': res['deadlock']}}
        elif finished and not model['done']:
            dis = {'model': {'done': False}, 'impl': 'all threads finished'}
        elif model['trace'] != ev:
            dis = {'model': {'trace': _diff(model['trace'], ev)}, 'impl': 'observable trace differs'}
        elif model['cache'] != obs['cache']:
            dis = {'model': {'cache': _diff(model['cache'], obs['cache'])}, 'impl': 'final cache differs'}
        elif _tabs(model['tabs']) != obs['tabs']:
            d = _diff(_tabs(model['tabs']), obs['tabs'])
            dis = {'model': {'tables': d, 'event': ev[(d['model'] or d['impl'])[0]]},
                   'impl': 'subscription tables (_active_connections, _subscriptions) differ after a completed operation'}
    return viols, dis


def judge_case(ctx, case):
    """run + ask the driver for one case (shrinking, replay, corpus)"""
    _, obs = run_case(case, policy_for(case))
    model, judge = ctx.driver.batch(requests(obs))
    viols, dis = assess(obs, model, judge, ctx.model_ok)
    return obs, model, judge, viols, dis


# ----------------------------------------------------------------------------------------
# scenarios
# ----------------------------------------------------------------------------------------
def scn(kind, mods, handlers, updaters, broken_logging=False, omit=None, hidden_mods=None, cls=None, init=None):
    case = {'mods': mods, 'nconn': len(handlers), 'handlers': {str(i + 1): h for i, h in enumerate(handlers)},
            'updaters': {str(i + 1): u for i, u in enumerate(updaters)}}
    if cls:
        case['cls'] = cls
    if init:
        case['init'] = init
    if broken_logging:
        case['broken_logging'] = True
    if omit:
        case['omit'] = omit
    if hidden_mods:
        case['hidden_mods'] = hidden_mods
    return kind, case


def gen_omit(rng):
    """no window (60 %), a long one for the whole module, `never` for some parameters, or short windows (1-3 time units)
    that end during the run"""
    r = rng.random()
    if r < 0.5:
        return None
    if r < 0.6:
        return ['*']
    if r < 0.7:
        return rng.sample(FLOATS, rng.randint(1, 3))
    if r < 0.8:
        return {'*': rng.randint(1, 3)}
    return {a: rng.choice([1, 2, 3, 'never']) for a in rng.sample(FLOATS, rng.randint(1, 3))}


def gen_init(rng, mods, cls):
    """initial states: mostly as configured; sometimes `value` (and `nd` of M2) is left "not initialized", sometimes a
    parameter starts in an ordinary error state or with another value"""
    init = {}
    for mn in mods:
        d = {}
        for a in ['value'] + (['nd'] if cls == 'M2' else []):
            if rng.random() < 0.6:
                d[a] = 'uninit'
        if rng.random() < 0.3:
            d[rng.choice(FLOATS)] = E(rng.randrange(len(ERRS))) if rng.random() < 0.5 else V(rng.randint(1, 9))
        if d:
            init[mn] = d
    return init


class Stamps:
    """time stamps of one thread's scripted assignments: mostly increasing by 0-3, now and then going back"""

    def __init__(self, rng, start=None):
        self.rng, self.t = rng, (T0 + 1 + rng.randint(0, 3)) if start is None else start

    def next(self):
        self.t = max(T0 + 1, self.t + self.rng.choice([0, 1, 1, 2, 3, -2]))
        return self.t


def gen_bad(rng, specs):
    """a request the handler refuses as malformed before it looks at anything"""
    spec = rng.choice([s for s in specs if s] or ['T'])
    return rng.choice([['bad', 'activate', rng.choice([spec, None]), 1], ['bad', 'deactivate', rng.choice([spec, None]), 1],
                       ['bad', 'read', spec, 1], ['bad', 'read', None, None], ['bad', 'change', None, 5]])


def gen_rw(rng, mods, stamps, hot=None, hidden=()):
    """a read / change request: mostly a parameter with a driver function, a value or an error from the driver; sometimes
    something refused (unknown module / parameter, a read-only parameter) or answered without the driver (no read_ function)"""
    w = rng.random() < 0.4
    r = rng.random()
    mn = rng.choice(mods)
    attrs = ['a', 'ab', 'target', 'target_max'] if w else ['value', 'a', 'ab']
    a = rng.choice(hot) if hot and rng.random() < 0.6 and set(hot) & set(attrs) else rng.choice(attrs)
    if a not in attrs:
        a = rng.choice(attrs)
    spec = mn + ':' + EXPORT[a]
    if r < 0.08:
        spec = rng.choice(['zz:value', mn + ':nosuch', mn + ':go', mn + ':value' if w else mn + ':h'])
    elif r < 0.16:
        spec = rng.choice([mn + ':target', mn + ':target_max', mn + ':pollinterval']) if not w else mn + ':_a'
    elif r < 0.22:
        spec = mn      # `read T` = T:value, `change T` = T:target
    elif r < 0.27 and hidden:
        spec = hidden[0] + ':' + ('_a' if w else 'value')
    e = E(rng.randrange(len(ERRS))) if rng.random() < 0.2 else V(rng.randint(1, 9))
    if w and e[0] == 'v' and rw_spec(['change', spec]).endswith(':target'):
        e = V(0)       # `target` is checked against the limit `target_max` (checkLimits, a RangeError otherwise): 0 always passes
    return ['change' if w else 'read', spec, e + [stamps.next()]]


A, D, I, X = 'activate', 'deactivate', ['ident'], ['disconnect']
V, E = (lambda n: ['v', n]), (lambda k: ['e', k])
Vt, Et = (lambda n, t: ['v', n, T0 + t]), (lambda k, t: ['e', k, T0 + t])
RD, CH = (lambda spec, e: ['read', spec, e]), (lambda spec, e: ['change', spec, e])
EXPORT = {'value': 'value', 'a': '_a', 'ab': '_ab', 'target': 'target', 'target_max': 'target_max'}

CATALOGUE = [
    scn('act-deact-global', ['T'], [[[A, None], [D, None]]], [[['T', 'value', V(1)], ['T', 'value', V(2)]]]),
    scn('act-ident', ['T'], [[[A, None], I]], [[['T', 'value', V(1)], ['T', 'a', V(2)]]]),
    scn('act-disconnect', ['T'], [[[A, None], X]], [[['T', 'value', V(1)], ['T', 'ab', V(2)]]]),
    scn('act-mod-deact-global', ['T'], [[[A, 'T'], [D, None]]], [[['T', 'value', V(1)], ['T', 'value', V(2)]]]),
    scn('act-par-deact-mod', ['T'], [[[A, 'T:value'], [D, 'T']]], [[['T', 'value', V(1)], ['T', 'a', V(2)]]]),
    scn('double-activate', ['T'], [[[A, 'T'], [A, 'T'], [D, 'T']]], [[['T', 'value', V(1)], ['T', 'value', V(2)]]]),
    scn('deact-without-act', ['T'], [[[D, None], [D, 'T'], [A, 'T:value']]], [[['T', 'value', V(4)]]]),
    scn('invalid-specifiers', ['T'], [[[A, 'zz'], [A, 'T:nosuch'], [A, 'T:go'], [D, 'T:go'], [A, 'T:value']]],
        [[['T', 'value', V(1)], ['T', 'value', V(2)]]]),
    scn('two-conns', ['T'], [[[A, None], [D, None]], [[A, 'T'], [D, 'T']]], [[['T', 'value', V(1)], ['T', 'a', V(2)]]]),
    scn('three-conns-two-mods', ['T', 'T2'], [[[A, None]], [[A, 'T:value'], I], [[A, 'T2'], X]],
        [[['T', 'value', V(1)], ['T2', 'value', V(2)]]]),
    scn('errors', ['T'], [[[A, 'T:value'], [D, 'T:value']]], [[['T', 'value', E(0)], ['T', 'value', E(0)], ['T', 'value', V(3)]]]),
    scn('two-updaters-one-par', ['T'], [[[A, 'T']]], [[['T', 'value', V(1)], ['T', 'value', V(2)]], [['T', 'value', V(3)]]]),
    scn('two-updaters-two-mods', ['T', 'T2'], [[[A, None], [D, None]]],
        [[['T', 'value', V(1)], ['T2', 'value', V(2)]], [['T2', 'a', V(5)], ['T', 'a', E(1)]]]),
    scn('act-par-other-par', ['T'], [[[A, 'T:_a']]], [[['T', 'value', V(1)], ['T', 'a', V(2)]]]),
    scn('reactivate', ['T'], [[[A, None], [D, None], [A, None]]], [[['T', 'value', V(1)], ['T', 'value', V(2)], ['T', 'value', V(3)]]]),
    scn('two-conns-same-par', ['T'], [[[A, 'T:value']], [[A, 'T:value'], [D, 'T:value']]], [[['T', 'value', V(1)], ['T', 'value', V(2)]]]),
    scn('error-vs-activate', ['T'], [[[A, 'T:value'], I]], [[['T', 'value', E(0)]], [['T', 'value', E(1)], ['T', 'value', E(1)]]]),
    scn('global-and-mod', ['T', 'T2'], [[[A, None], [A, 'T2'], [D, None]]], [[['T2', 'value', V(1)], ['T', 'value', V(2)], ['T2', 'ab', V(3)]]]),
    # ---- specifiers that are string prefixes of one another (unsubscribe must use the exact key / the `module:` prefix)
    scn('prefix-params', ['T'], [[[A, 'T:target'], [A, 'T:target_max'], [D, 'T:target']]],
        [[['T', 'target_max', V(1)], ['T', 'target', V(2)], ['T', 'target_max', V(3)]]]),
    scn('prefix-params-custom', ['T'], [[[A, 'T:_ab'], [A, 'T:_a'], [D, 'T:_a']]], [[['T', 'ab', V(1)], ['T', 'a', V(2)], ['T', 'ab', V(3)]]]),
    scn('prefix-modules', ['T', 'T2', 'T_x'], [[[A, 'T2'], [A, 'T'], [A, 'T_x:value'], [D, 'T']]],
        [[['T2', 'value', V(1)], ['T_x', 'value', V(2)], ['T2', 'a', V(3)]]]),
    scn('prefix-modules-par', ['T', 'T2'], [[[A, 'T2:value'], [A, 'T:value'], [D, 'T'], [A, 'T']]],
        [[['T2', 'value', V(1)], ['T', 'value', V(2)]], [['T2', 'value', V(3)]]]),
    scn('prefix-two-conns', ['T'], [[[A, 'T:target_max']], [[A, 'T:target'], [D, 'T:target']]],
        [[['T', 'target_max', V(1)], ['T', 'target', V(2)]]]),
    # ---- remote logging not set up: switching it off raises on every *IDN? and disconnect; activations must end anyway
    scn('broken-logging-ident', ['T'], [[[A, None], I]], [[['T', 'value', V(1)], ['T', 'value', V(2)]]], True),
    scn('broken-logging-disconnect', ['T'], [[[A, 'T'], X]], [[['T', 'value', V(1)], ['T', 'a', V(2)]]], True),
    scn('broken-logging-reactivate', ['T', 'T2'], [[[A, 'T:value'], I, [A, 'T2']], [[A, None], X]],
        [[['T', 'value', V(1)], ['T2', 'value', V(2)]]], True),
    # ---- unchanged values are not re-announced (update_unchanged='never' / a long omit_unchanged_within)
    scn('omit-unchanged', ['T'], [[[A, 'T:value'], [D, 'T:value']]], [[['T', 'value', V(1)], ['T', 'value', V(1)], ['T', 'value', V(2)]]],
        omit=['value']),
    scn('omit-unchanged-initial', ['T'], [[[A, 'T']]], [[['T', 'a', V(0)], ['T', 'ab', V(0)], ['T', 'a', V(3)]]], omit=['a']),
    scn('omit-unchanged-error-between', ['T'], [[[A, None]]], [[['T', 'value', V(1)], ['T', 'value', E(0)], ['T', 'value', V(1)]]],
        omit=['*']),
    # ---- parameters / modules that are not exported: assigned to, never delivered, cannot be activated
    scn('unexported-parameter', ['T'], [[[A, None], [A, 'T:h'], [D, None]]], [[['T', 'h', V(4)], ['T', 'value', V(5)], ['T', 'h', E(0)]]]),
    scn('unexported-module', ['T'], [[[A, None], [A, 'H'], [A, 'H:value']], [[A, 'T'], [D, 'H']]],
        [[['H', 'value', V(3)], ['T', 'value', V(4)], ['H', 'a', E(0)]]], hidden_mods=['H']),
    scn('omit-unchanged-two-updaters', ['T'], [[[A, 'T:_a']], [[A, 'T'], [D, 'T']]], [[['T', 'a', V(2)], ['T', 'a', V(2)]], [['T', 'a', V(2)]]],
        omit=['a', 'value']),
    # ---- time stamps and omit windows that end during the run: the same value again inside / at the end of / after the window,
    # ---- the last announcement of the run being an omitted one, a second connection activating after an omitted one
    scn('window-inside-then-after', ['T'], [[[A, 'T:value']]], [[['T', 'value', Vt(1, 1)], ['T', 'value', Vt(1, 2)], ['T', 'value', Vt(1, 4)]]],
        omit={'value': 2}),
    scn('window-last-omitted', ['T'], [[[A, 'T']]], [[['T', 'a', Vt(3, 1)], ['T', 'a', Vt(3, 2)]]], omit={'a': 3}),
    scn('window-late-activation', ['T'], [[[A, None]], [[A, 'T:_a'], [D, 'T:_a']]],
        [[['T', 'a', Vt(3, 1)], ['T', 'a', Vt(3, 3)], ['T', 'a', Vt(3, 4)]]], omit={'*': 5}),
    scn('window-stamps-go-back', ['T'], [[[A, 'T:value']]], [[['T', 'value', Vt(1, 5)], ['T', 'value', Vt(1, 3)], ['T', 'value', Vt(2, 2)]]]),
    scn('window-two-updaters', ['T'], [[[A, 'T']]], [[['T', 'a', Vt(2, 1)], ['T', 'a', Vt(2, 5)]], [['T', 'a', Vt(2, 3)], ['T', 'a', Et(0, 4)]]],
        omit={'a': 3}),
    # ---- initial states other than a plain value: "not initialized" (ConfigError, no time stamp), an ordinary error
    scn('uninit-activate-node', ['T', 'T2'], [[[A, None], [D, None]]], [[['T', 'value', V(1)]]], init={'T': {'value': 'uninit'}, 'T2': {'value': 'uninit'}}),
    scn('uninit-activate-module', ['T'], [[[A, 'T']], [[A, 'T:value']]], [[['T', 'a', V(1)]]], init={'T': {'value': 'uninit'}}),
    scn('uninit-repeated-error', ['T'], [[[A, 'T'], [D, 'T']]], [[['T', 'value', E(0)], ['T', 'value', E(0)]]], init={'T': {'value': 'uninit'}}),
    scn('uninit-two-parameters', ['T'], [[[A, None]], [[A, 'T:_nd'], I]], [[['T', 'nd', V(4)], ['T', 'a', V(2)]]], cls='M2',
        init={'T': {'value': 'uninit', 'nd': 'uninit'}}),
    scn('initial-error-state', ['T'], [[[A, 'T']]], [[['T', 'a', E(1)], ['T', 'a', V(1)]]], init={'T': {'a': E(1), 'value': V(5)}}),
    # ---- read / change requests: the request thread runs announceUpdate itself (holding the dispatcher lock)
    scn('read-own-scope', ['T'], [[[A, 'T:value'], RD('T:value', Vt(5, 3))]], [[['T', 'value', Vt(1, 1)], ['T', 'value', Vt(2, 2)]]]),
    scn('read-node-scope', ['T'], [[[A, None], RD('T', Vt(5, 3)), [D, None]]], [[['T', 'value', Vt(1, 1)], ['T', 'a', Vt(2, 2)]]]),
    scn('read-other-conn-active', ['T'], [[RD('T:_a', Vt(5, 3)), RD('T:_a', Et(0, 4))], [[A, 'T'], [D, 'T']]], [[['T', 'a', Vt(1, 1)]]]),
    scn('read-error', ['T'], [[[A, 'T'], RD('T:value', Et(0, 3)), RD('T:value', Et(0, 4)), RD('T:value', Vt(2, 5))]], [[['T', 'value', Vt(1, 1)]]]),
    scn('read-without-driver', ['T'], [[[A, 'T'], RD('T:target', Vt(5, 3)), RD('T:nosuch', Vt(5, 3)), RD('zz', Vt(5, 3))]],
        [[['T', 'target', Vt(1, 1)]]]),
    scn('change-own-scope', ['T'], [[[A, 'T:_a'], CH('T:_a', Vt(7, 3)), [D, 'T:_a']]], [[['T', 'a', Vt(1, 1)], ['T', 'a', Vt(2, 5)]]]),
    scn('change-default-target', ['T'], [[[A, 'T'], CH('T', Vt(0, 3))], [[A, 'T:target']]], [[['T', 'target', Vt(1, 1)]]]),
    scn('change-refused-or-failing', ['T'], [[[A, 'T'], CH('T:value', Vt(7, 3)), CH('T:_a', Et(0, 4)), CH('T:_a', Vt(3, 5))]],
        [[['T', 'a', Vt(1, 1)]]]),
    scn('read-unchanged-in-window', ['T'], [[[A, 'T:value'], RD('T:value', Vt(1, 2)), RD('T:value', Vt(1, 5))]], [[['T', 'value', Vt(1, 1)]]],
        omit={'value': 3}),
    scn('read-two-conns-same-par', ['T'], [[[A, 'T:_a'], RD('T:_a', Vt(5, 3))], [[A, None], RD('T:_a', Vt(6, 4)), I]], [[['T', 'a', Vt(1, 1)]]]),
    # ---- requests refused as malformed (data where none is allowed, no specifier): nothing may change, nothing ends
    scn('malformed-requests', ['T'], [[[A, 'T'], ['bad', 'deactivate', 'T', 1], ['bad', 'activate', None, 1], ['bad', 'read', 'T:value', 1],
                                       ['bad', 'change', None, 5], ['bad', 'activate', 'T:value', 1], [D, 'T']]],
        [[['T', 'value', Vt(1, 1)], ['T', 'value', Vt(2, 2)]]]),
    scn('read-hidden-module', ['T'], [[[A, None], RD('H:value', Vt(5, 3)), CH('H:_a', Vt(5, 4))]], [[['T', 'value', Vt(1, 1)]]], hidden_mods=['H']),
]


def gen_case(rng):
    mods = rng.choice([['T'], ['T'], ['T', 'T2'], ['T', 'T2', 'T_x']])
    pars = ('value', 'target', 'target_max', '_a', '_ab', 'status')
    specs = [None, None] + mods + [m + ':' + p for m in mods for p in pars]
    odd = ['zz', 'T:nosuch', 'T:go', 'zz:value', 'T:tar', 'T:target_', 'T2:', 'T:_']

    def script():
        first = rng.choice(specs)
        out = [[A, first]]
        stamps = Stamps(rng)
        p_rw = rng.choice([0.0, 0.25, 0.5])
        for _ in range(rng.randint(0, 3)):
            r = rng.random()
            if rng.random() < p_rw:
                # a read / change request, mostly of something in the scope just activated
                rq = gen_rw(rng, mods, stamps, hidden=hidden)
                if first and ':' in first and first.split(':', 1)[1] in ('value', '_a', '_ab') and rng.random() < 0.6:
                    rq = ['read', first, rq[2]]
                out.append(rq)
            elif rng.random() < 0.06:
                out.append(gen_bad(rng, specs))
            elif r < 0.35:
                out.append([A, rng.choice(specs + odd)])
            elif r < 0.75:
                # often deactivate something that is a string prefix of an activated specifier
                shorter = [s2 for s2 in specs if s2 and first and first != s2 and first.startswith(s2)]
                out.append([D, rng.choice(specs + [first] * 3 + shorter * 3 + odd[:2] + odd[4:])])
            elif r < 0.88:
                out.append(I)
            else:
                out.append(X)
                break
        if rng.random() < 0.15:
            out.insert(0, [D, rng.choice(specs)])
        return out

    def assignments():
        out = []
        stamps = Stamps(rng)
        for _ in range(rng.randint(1, 3)):
            e = E(rng.randrange(len(ERRS))) if rng.random() < 0.25 else V(rng.randint(1, 9))
            out.append([rng.choice(mods + hidden), rng.choice(floats + ['h'] if hidden else floats), e + [stamps.next()]])
            if rng.random() < (0.5 if e[0] == 'e' or omit else 0.1):
                out.append(out[-1][:2] + [e + [stamps.next()]])      # the same error / the same value again, a little later
        return out[:3]
    omit = gen_omit(rng)
    hidden = ['H'] if rng.random() < 0.2 else []
    if hidden:
        specs += ['H', 'H:value', 'T:h']
    cls = 'M2' if rng.random() < 0.25 else None
    floats = FLOATS + (['nd'] if cls else [])
    if cls:
        specs += [m + ':_nd' for m in mods]
    init = gen_init(rng, mods, cls) if rng.random() < 0.4 else None
    handlers = [script() for _ in range(rng.choice([1, 1, 2, 2, 3]))]
    updaters = [assignments() for _ in range(rng.choice([1, 1, 2]))]
    return scn('generated', mods, handlers, updaters, rng.random() < 0.15, omit, hidden, cls, init)


# ----------------------------------------------------------------------------------------
# operation-level histories: whole requests / assignments in a given or random global order (SerialPolicy).  What an
# operation leaves behind in the dispatcher's tables shows only in what a LATER operation of another thread does, so these
# runs are long (several activations, endings and assignments per thread) and have no preemption inside an operation.
# ----------------------------------------------------------------------------------------
def cross_scope_matrix():
    """two connections, every pair of scope kinds (whole node / module / parameter / another parameter), both activation
    orders, every way the second connection can end (matching deactivate, the module of its parameter, the global deactivate
    that matches nothing, *IDN?, disconnect), assignments to two parameters before the first activation's end, between the two
    ends and after both"""
    scopes = [None, 'T', 'T:value', 'T:_a']
    out = []
    for sa in scopes:
        for sb in scopes:
            ends = [[D, sb], I, X]
            if sb and ':' in sb:
                ends.append([D, 'T'])
            if sb:
                ends.append([D, None])
            for end in ends:
                for first in (['h1', 'h2'], ['h2', 'h1']):
                    u1 = [['T', a, V(k + i)] for k in (1, 3, 5) for i, a in enumerate(('value', 'a'))]
                    kind, case = scn('cross-scope', ['T'], [[[A, sa], [D, sa]], [[A, sb], end]], [u1])
                    case['serial'] = first + ['u1', 'u1', 'h2', 'u1', 'u1', 'h1', 'u1', 'u1']
                    out.append((kind, case))
    return out


def gen_history(rng):
    """a long random history: 2-3 connections with 2-6 requests each (deactivations mostly of something the connection
    activated itself), 1-2 updaters with 3-8 assignments, most of the parameter scopes and assignments on 1-2 `hot`
    parameters so that the activations of different connections overlap; the global order of the operations is random"""
    mods = rng.choice([['T'], ['T'], ['T', 'T2']])
    hot = rng.sample(sorted(EXPORT), rng.choice([1, 2]))

    def spec():
        r = rng.random()
        if r < 0.25:
            return None
        if r < 0.45:
            return rng.choice(mods)
        if r < 0.85:
            return mods[0] + ':' + EXPORT[rng.choice(hot)]
        return rng.choice(mods) + ':' + rng.choice(sorted(EXPORT.values()) + ['status'])

    def script():
        out, mine = [], []
        stamps = Stamps(rng)
        p_rw = rng.choice([0.0, 0.2, 0.4])
        for _ in range(rng.randint(2, 6)):
            r = rng.random()
            if mine and rng.random() < p_rw:
                out.append(gen_rw(rng, mods, stamps, hot, hidden))
            elif mine and rng.random() < 0.05:
                out.append(gen_bad(rng, mine))
            elif r < 0.45 or not mine:
                mine.append(spec())
                out.append([A, mine[-1]])
            elif r < 0.85:
                out.append([D, rng.choice(mine) if rng.random() < 0.8 else spec()])
            elif r < 0.94:
                out.append(I)
                mine = []
            else:
                out.append(X)
                break
        return out

    def assignments():
        out = []
        stamps = Stamps(rng)
        for _ in range(rng.randint(3, 8)):
            mn, a = (mods[0], rng.choice(hot)) if rng.random() < 0.7 else \
                (rng.choice(mods + hidden), rng.choice(FLOATS + ['h'] if hidden else FLOATS))
            e = E(rng.randrange(len(ERRS))) if rng.random() < 0.15 else V(rng.randint(1, 3 if omit else 9))
            out.append([mn, a, e + [stamps.next()]])
        return out
    omit = gen_omit(rng)
    hidden = ['H'] if rng.random() < 0.2 else []
    init = gen_init(rng, mods, None) if rng.random() < 0.3 else None
    handlers = [script() for _ in range(rng.choice([2, 2, 3]))]
    updaters = [assignments() for _ in range(rng.choice([1, 1, 2]))]
    kind, case = scn('history', mods, handlers, updaters, rng.random() < 0.1, omit, hidden, None, init)
    order = [n for n, scr in [('h%d' % (i + 1), h) for i, h in enumerate(handlers)]
             + [('u%d' % (i + 1), u) for i, u in enumerate(updaters)] for _ in scr]
    rng.shuffle(order)
    case['serial'] = order
    return kind, case


def serial_ops(case):
    """the operations of a serial case in their global order: [(thread name, script item)]"""
    left = {'h' + k: list(v) for k, v in case['handlers'].items()}
    left.update({'u' + k: list(v) for k, v in case['updaters'].items()})
    ops = []
    for name in case['serial']:
        if left.get(name):
            ops.append((name, left[name].pop(0)))
    for name in sorted(left):
        ops += [(name, it) for it in left[name]]
    return ops


def shrink_serial(ctx, case, sig):
    """fewer operations (the global order of the remaining ones is kept), still failing with the same signature"""
    def build(ops):
        c = dict(case, handlers={k: [] for k in case['handlers']}, updaters={k: [] for k in case['updaters']},
                 serial=[n for n, _ in ops])
        for n, it in ops:
            c['handlers' if n[0] == 'h' else 'updaters'][n[1:]].append(it)
        return c

    def fails_with(c):
        try:
            return any(v[0] == sig for v in judge_case(ctx, c)[3])
        except RuntimeError:
            return False
    small = build(ddmin(serial_ops(case), lambda ops: fails_with(build(ops)), max_tests=120))
    return small if fails_with(small) else case


def shrink(ctx, case, sig):
    """smaller schedule, then smaller scripts, still failing with the same signature"""
    if 'serial' in case and 'choices' not in case:
        return shrink_serial(ctx, case, sig)

    def fails_with(c):
        try:
            return any(v[0] == sig for v in judge_case(ctx, c)[3])
        except RuntimeError:
            return False
    ch = ddmin(case['choices'], lambda x: fails_with(dict(case, choices=x)), max_tests=60)
    if not fails_with(dict(case, choices=ch)):
        ch = case['choices']
    case = dict(case, choices=ch)
    items = [('handlers', k, i) for k, v in case['handlers'].items() for i in range(len(v))] + \
            [('updaters', k, i) for k, v in case['updaters'].items() for i in range(len(v))]

    def build(keep):
        c = dict(case, handlers={k: [] for k in case['handlers']}, updaters={k: [] for k in case['updaters']})
        for which, k, i in keep:
            c[which][k].append(case[which][k][i])
        return c
    keep = ddmin(items, lambda x: fails_with(build(x)), max_tests=40)
    small = build(keep)
    return small if fails_with(small) else case


def run(ctx):
    res = Result()
    res.rule = ('a run (scenario + schedule) is non-trivial if the schedule deviates from the non-preempting default at least once, '
                'at least one update was delivered by an updater broadcast (so an assignment happened while a scope was in force) '
                'and at least one by an activation snapshot')
    rng = ctx.rng
    res.rule += ('; an operation-level history (no preemption inside an operation) is non-trivial under the same rule, its '
                 'deviations being the changes of thread between operations')
    big = ctx.tier == 'thorough' or ctx.escalated
    total = ctx.budget(2600, 36000)
    scenarios = list(CATALOGUE) + [gen_case(rng) for _ in range(ctx.budget(12, 120))]
    per = max(8, total // len(scenarios))
    shrunk = [0]
    pending = []
    sampled = set()

    def record(kind, case, obs):
        res.evaluations += 1
        res.count('scenario.' + kind)
        res.count('preemptions=%s' % min(obs['preempt'], 4))
        st = obs['stat']
        res.count('outcome.delivered-during-activate' if st['during'] else 'outcome.no-delivery-during-activate')
        res.count('outcome.update-after-active' if st['after'] else 'outcome.no-update-after-active')
        for b in set(obs['blocked']):
            res.count('blocked-on-' + str(b).split(':')[0])
        if not obs['blocked']:
            res.count('never-blocked')
        if case.get('omit'):
            res.count('omit-window.' + ('unchanged-value-dropped' if obs['stat'].get('dropped') else 'nothing-dropped'))
            if obs['stat'].get('window-ended'):
                res.count('omit-window.unchanged-value-announced-after-its-window')
        if obs['stat'].get('own'):
            res.count('update-delivered-by-a-read-or-change-request')
        if obs['stat'].get('uninit'):
            res.count('parameter-not-initialized-at-start')
        if obs['stat'].get('hidden'):
            res.count('assignment-to-unexported-parameter')
        if obs['preempt'] and st['bcast'] and st['snap']:
            res.nontriv(case)
            if len(res.samples) < 4 and len(obs['events']) < 16 and st['during'] and kind not in sampled:
                sampled.add(kind)
                res.samples.append({'case': case, 'events': obs['events']})
        pending.append((kind, case, obs))
        if len(pending) >= 1500:
            flush()

    def flush():
        reqs = [r for _, _, obs in pending for r in requests(obs)]
        answers = ctx.driver.batch(reqs)
        for j, (kind, case, obs) in enumerate(pending):
            model, judge = answers[2 * j], answers[2 * j + 1]
            res.traces += 1
            viols, dis = assess(obs, model, judge, ctx.model_ok)
            if dis is not None and len(res.disagreements) < 20:
                res.disagreements.append(dict(dis, case=case))
            for sig, what in viols:
                res.count('violation.' + sig)
                res.count('violation-found-in.' + kind.split('+')[0])
                if any(v['sig'] == sig for v in res.violations):
                    continue
                small = case
                if shrunk[0] < 3:
                    shrunk[0] += 1
                    small = shrink(ctx, case, sig)
                o2 = judge_case(ctx, small)
                what2 = next((w for s_, w in o2[3] if s_ == sig), what)
                res.violations.append({'sig': sig, 'what': what2[:1500], 'case': small,
                                       'detail': {'scenario': kind, 'original_case': case, 'judge': o2[2]}})
        pending.clear()

    # ---------- corpus first ----------
    cdir = os.path.join(ctx.verif, 'corpus', 'C08')
    if os.path.isdir(cdir):
        for fn in sorted(os.listdir(cdir)):
            if fn.endswith('.json'):
                case = json.load(open(os.path.join(cdir, fn)))['case']
                _, obs = run_case(case, policy_for(case))
                record('corpus', case if 'serial' in case and 'choices' not in case else dict(case, choices=obs['choices']), obs)
    # ---------- catalogue + generated scenarios ----------
    for kind, base in scenarios:
        def make_run(policy, base=base):
            return run_case(base, policy)
        n_rand, n_one, seen = max(2, per // 5), per // 3, set()

        def fresh(obs):      # the same schedule reached twice is evaluated once
            key = tuple(obs['choices'])
            return key not in seen and not seen.add(key)
        # all schedules with one deviation (in order, up to the cap), then deeper ones in random order, then random walks
        for _, _, obs in explore(make_run, max_preemptions=1, max_runs=n_one):
            if fresh(obs):
                record(kind, dict(base, choices=obs['choices']), obs)
        for _, _, obs in explore(make_run, max_preemptions=3 if big else 2, max_runs=per - n_rand - n_one, rng=rng):
            if fresh(obs):
                record(kind, dict(base, choices=obs['choices']), obs)
        for _ in range(n_rand):
            _, obs = run_case(base, RandomPolicy(rng, rng.choice([0.15, 0.3, 0.5])))
            if fresh(obs):
                record(kind, dict(base, choices=obs['choices']), obs)
    # ---------- operation-level histories ----------
    histories = cross_scope_matrix() + [gen_history(rng) for _ in range(ctx.budget(250, 3000))]
    for kind, base in histories:
        _, obs = run_case(base, policy_for(base))
        record(kind, base, obs)
        if kind == 'history' and rng.random() < 0.34:      # the same scripts, random order, a few preemptions inside operations
            plain = {k: v for k, v in base.items() if k != 'serial'}
            _, obs = run_case(plain, SerialPolicy(rng=rng, p_fine=rng.choice([0.03, 0.08])))
            record(kind + '+preemptions', dict(plain, choices=obs['choices']), obs)
    flush()
    if not res.samples and pending == []:
        res.notes.append('no small non-trivial sample met the sampling filter')
    res.trusted = META['trusted']
    res.assumptions = META['assumptions']
    return res


def replay(ctx, payload):
    case = payload['case']
    obs, model, judge, viols, dis = judge_case(ctx, case)
    print('case    :', json.dumps(case))
    print('result  :', obs['result'])
    print('schedule:', json.dumps(obs['sched']))
    print('impl    :')
    for i, e in enumerate(obs['events']):
        print('   %2d %s' % (i, json.dumps(e)))
    print('cache   :', json.dumps(obs['cache']))
    print('model   :', json.dumps(model))
    print('judge   :', json.dumps(judge))
    for sig, what in viols:
        print('VIOLATION', sig, '--', what[:400])
    if dis is not None:
        print('DISAGREEMENT', json.dumps(dis, default=str)[:1200])
    return 1 if viols or dis is not None else 0
